/-
  C08 — Read / io.ReadFull / box.Read over the bufio model: short reads never show.
-/
import Imeta.Model.Bufio
namespace Imeta.Bufio
open Imeta

theorem src_read_spec (s : Src) (max : Nat) (hm : 0 < max) (hr : s.rest ≠ []) :
    (s.read max).1 ≠ [] ∧ (s.read max).1.length ≤ max ∧ (s.read max).1 ++ (s.read max).2.rest = s.rest := by
  have hpos : 0 < s.rest.length := by cases hs : s.rest with | nil => exact absurd hs hr | cons _ _ => simp
  unfold Src.read
  refine ⟨?_, ?_, by simp⟩
  · intro h
    have hl := congrArg List.length h
    simp only [List.length_take, List.length_nil] at hl
    cases hsch : s.sched with
    | nil => rw [hsch] at hl; simp only at hl; omega
    | cons c t =>
      rw [hsch] at hl; simp only at hl
      split at hl <;> omega
  · simp only [List.length_take]
    cases s.sched with
    | nil => simp only; omega
    | cons c t => simp only; split <;> omega

theorem read_none (b b' : Br) (max : Nat) (h : b.read max = (none, b')) : b.logical = [] ∧ b' = b := by
  unfold Br.read at h
  split at h
  · simp at h
  · rename_i hb
    simp only [ne_eq, Decidable.not_not] at hb
    split at h
    · rename_i hr
      simp only [Prod.mk.injEq, true_and] at h
      exact ⟨by unfold Br.logical; rw [hb, hr]; rfl, h.symm⟩
    · split at h <;> simp at h

theorem read_some (b b' : Br) (max : Nat) (got : Bytes) (hm : 0 < max) (h : b.read max = (some got, b')) :
    got ≠ [] ∧ got.length ≤ max ∧ got ++ b'.logical = b.logical ∧ b'.size = b.size := by
  unfold Br.read at h
  split at h
  · rename_i hb
    simp only [Prod.mk.injEq, Option.some.injEq] at h
    obtain ⟨rfl, rfl⟩ := h
    refine ⟨?_, by simp only [List.length_take]; omega, ?_, rfl⟩
    · intro h0
      have hl := congrArg List.length h0
      simp only [List.length_take, List.length_nil] at hl
      have : 0 < b.buf.length := by cases hbb : b.buf with | nil => exact absurd hbb hb | cons _ _ => simp
      omega
    · unfold Br.logical
      simp only
      rw [← List.append_assoc, List.take_append_drop]
  · rename_i hb
    simp only [ne_eq, Decidable.not_not] at hb
    split at h
    · simp at h
    · rename_i hr
      split at h
      · simp only [Prod.mk.injEq, Option.some.injEq] at h
        obtain ⟨rfl, rfl⟩ := h
        obtain ⟨h1, h2, h3⟩ := src_read_spec b.src max hm hr
        refine ⟨h1, h2, ?_, rfl⟩
        unfold Br.logical
        simp only
        rw [hb, List.nil_append, List.nil_append]; exact h3
      · rename_i hsz
        simp only [Prod.mk.injEq, Option.some.injEq] at h
        obtain ⟨rfl, rfl⟩ := h
        have hs0 : 0 < b.size := by omega
        obtain ⟨h1, h2, h3⟩ := src_read_spec b.src b.size hs0 hr
        refine ⟨?_, by simp only [List.length_take]; omega, ?_, rfl⟩
        · intro h0
          have hl := congrArg List.length h0
          simp only [List.length_take, List.length_nil] at hl
          have : 0 < (b.src.read b.size).1.length := by
            cases hg : (b.src.read b.size).1 with | nil => exact absurd hg h1 | cons _ _ => simp
          omega
        · unfold Br.logical
          simp only
          rw [← List.append_assoc, List.take_append_drop, hb, List.nil_append]; exact h3

/-- `io.ReadFull` sees the logical stream only -/
theorem readFull_spec : ∀ (f : Nat) (b : Br) (n : Nat), n < f →
    (readFull f b n).1 = b.logical.take n ∧ (readFull f b n).2.1 = decide (n ≤ b.logical.length) ∧
    (readFull f b n).2.2.logical = b.logical.drop n := by
  intro f
  induction f with
  | zero => intro b n h; omega
  | succ f ih =>
    intro b n hn
    unfold readFull
    split
    · rename_i h0; subst h0; simp
    · rename_i h0
      split
      · rename_i b' hr
        obtain ⟨hl, rfl⟩ := read_none b b' n hr
        simp only [hl, List.take_nil, List.length_nil, List.drop_nil, true_and]
        simp; omega
      · rename_i got b' hr
        obtain ⟨hne, hle, happ, _⟩ := read_some b b' n got (by omega) hr
        have hgl : 0 < got.length := by cases got with | nil => exact absurd rfl hne | cons _ _ => simp
        obtain ⟨i1, i2, i3⟩ := ih b' (n - got.length) (by omega)
        simp only
        rw [i1, i2, i3, ← happ]
        refine ⟨?_, ?_, ?_⟩
        · rw [List.take_append, List.take_of_length_le hle]
        · simp only [List.length_append, decide_eq_decide]; omega
        · rw [List.drop_append, List.drop_of_length_le hle, List.nil_append]

theorem minAll_cons_le (a : Nat) (t : List Nat) : minAll (a :: t) ≤ a := by
  cases t with
  | nil => exact Nat.le_refl _
  | cons b t' => unfold minAll; exact Nat.min_le_left _ _

theorem minAll_le_mem : ∀ (ls : List Nat) (x : Nat), x ∈ ls → minAll ls ≤ x := by
  intro ls
  induction ls with
  | nil => intro x hx; cases hx
  | cons a t ih =>
    intro x hx
    cases t with
    | nil => simp only [List.mem_singleton] at hx; rw [hx]; exact Nat.le_refl _
    | cons b t' =>
      unfold minAll
      rw [List.mem_cons] at hx
      rcases hx with rfl | hx
      · exact Nat.min_le_left _ _
      · exact Nat.le_trans (Nat.min_le_right _ _) (ih x hx)

theorem minAll_map_sub : ∀ (ls : List Nat) (k : Nat), k ≤ minAll ls → minAll (ls.map (· - k)) = minAll ls - k := by
  intro ls
  induction ls with
  | nil => intro k _; simp [minAll]
  | cons a t ih =>
    intro k hk
    cases t with
    | nil => rfl
    | cons b t' =>
      have h2 : minAll (a :: b :: t') = min a (minAll (b :: t')) := rfl
      rw [h2] at hk ⊢
      have ih' := ih k (by omega)
      show min (a - k) (minAll ((b :: t').map (· - k))) = _
      rw [ih']
      omega

theorem boxRead_none (ls ls' : List Nat) (b b' : Br) (max : Nat) (h : boxRead ls b max = (none, ls', b')) :
    (minAll ls = 0 ∨ b.logical = []) ∧ ls' = ls ∧ b' = b := by
  unfold boxRead at h
  split at h
  · rename_i h0
    simp only [Prod.mk.injEq, true_and] at h
    exact ⟨Or.inl h0, h.1.symm, h.2.symm⟩
  · split at h
    · rename_i b2 hr
      simp only [Prod.mk.injEq, true_and] at h
      obtain ⟨hl, hb⟩ := read_none b b2 _ hr
      exact ⟨Or.inr hl, h.1.symm, by rw [← h.2, hb]⟩
    · simp at h

theorem boxRead_some (ls ls' : List Nat) (b b' : Br) (max : Nat) (got : Bytes) (hm : 0 < max)
    (h : boxRead ls b max = (some got, ls', b')) :
    got ≠ [] ∧ got.length ≤ max ∧ got.length ≤ minAll ls ∧ got ++ b'.logical = b.logical ∧ ls' = ls.map (· - got.length) := by
  unfold boxRead at h
  split at h
  · simp at h
  · rename_i h0
    split at h
    · simp at h
    · rename_i g2 b2 hr
      simp only [Prod.mk.injEq, Option.some.injEq] at h
      obtain ⟨rfl, rfl, rfl⟩ := h
      obtain ⟨h1, h2, h3, _⟩ := read_some b b2 _ g2 (by omega) hr
      exact ⟨h1, by omega, by omega, h3, rfl⟩

/-- `io.ReadFull` over a box: exactly the first min(n, tightest remaining length) bytes of the logical stream, every box
of the chain charged exactly that many, whatever the schedule -/
theorem boxReadFull_spec : ∀ (f : Nat) (ls : List Nat) (b : Br) (n : Nat), n < f →
    (boxReadFull f ls b n).1 = b.logical.take (min n (minAll ls)) ∧
    (boxReadFull f ls b n).2.1 = decide (n ≤ minAll ls ∧ n ≤ b.logical.length) ∧
    (boxReadFull f ls b n).2.2.1 = ls.map (· - (boxReadFull f ls b n).1.length) ∧
    (boxReadFull f ls b n).2.2.2.logical = b.logical.drop (min n (minAll ls)) := by
  intro f
  induction f with
  | zero => intro ls b n h; omega
  | succ f ih =>
    intro ls b n hn
    unfold boxReadFull
    split
    · rename_i h0; subst h0; simp
    · rename_i h0
      split
      · rename_i ls' b' hr
        obtain ⟨hcase, rfl, rfl⟩ := boxRead_none ls ls' b b' n hr
        simp only [List.length_nil, Nat.sub_zero, List.map_id', true_and]
        rcases hcase with hz | hl
        · rw [hz]; simp; omega
        · rw [hl]; simp; omega
      · rename_i got ls' b' hr
        obtain ⟨hne, hle, hlim, happ, rfl⟩ := boxRead_some ls ls' b b' n got (by omega) hr
        have hgl : 0 < got.length := by cases got with | nil => exact absurd rfl hne | cons _ _ => simp
        obtain ⟨i1, i2, i3, i4⟩ := ih (ls.map (· - got.length)) b' (n - got.length) (by omega)
        rw [minAll_map_sub ls got.length hlim] at i1 i2 i4
        have hmin : min (n - got.length) (minAll ls - got.length) = min n (minAll ls) - got.length := by omega
        have hgm : got.length ≤ min n (minAll ls) := by omega
        simp only
        rw [i2, i4, ← happ]
        refine ⟨?_, ?_, ?_, ?_⟩
        · rw [i1, hmin, List.take_append, List.take_of_length_le hgm]
        · simp only [List.length_append, decide_eq_decide]; omega
        · rw [i3, List.map_map, List.length_append]
          apply List.map_congr_left
          intro x _
          simp only [Function.comp]
          omega
        · rw [hmin, List.drop_append, List.drop_of_length_le hgm, List.nil_append]

theorem fill_logical' (f : Nat) (b : Br) (n : Nat) : (fill f b n).logical = b.logical := by
  induction f generalizing b with
  | zero => rfl
  | succ k ih =>
    unfold fill
    split
    · rfl
    · rw [ih]
      simp only [Br.logical, List.append_assoc]
      congr 1
      unfold Src.read; simp

theorem fill_size' (f : Nat) (b : Br) (n : Nat) : (fill f b n).size = b.size := by
  induction f generalizing b with
  | zero => rfl
  | succ k ih => unfold fill; split; rfl; rw [ih]

theorem fill_done' (f : Nat) (b : Br) (n : Nat) (hf : b.src.rest.length < f) :
    n ≤ (fill f b n).buf.length ∨ (fill f b n).src.rest = [] ∨ (fill f b n).size ≤ (fill f b n).buf.length := by
  induction f generalizing b with
  | zero => omega
  | succ k ih =>
    unfold fill
    split
    · assumption
    · rename_i hc
      simp only [not_or, Nat.not_le] at hc
      apply ih
      have h3 := src_read_spec b.src (b.size - b.buf.length) (by omega) hc.2.1
      have hl := congrArg List.length h3.2.2
      have hp : 0 < (b.src.read (b.size - b.buf.length)).1.length := by
        cases hg : (b.src.read (b.size - b.buf.length)).1 with | nil => exact absurd hg h3.1 | cons _ _ => simp
      simp only [List.length_append] at hl
      simp only
      omega

/-- `Discard(n)` removes exactly min(n, length) bytes of the logical stream, whatever the schedule -/
theorem discard_spec : ∀ (f : Nat) (b : Br) (n : Nat), n < f → 0 < b.size →
    (discard f b n).1 = min n b.logical.length ∧ (discard f b n).2.logical = b.logical.drop n ∧ (discard f b n).2.size = b.size := by
  intro f
  induction f with
  | zero => intro b n h; omega
  | succ f ih =>
    intro b n hn hs
    unfold discard
    split
    · rename_i h0; subst h0; simp
    · rename_i h0
      simp only
      generalize hb1 : (if b.buf = [] then fill (b.src.rest.length + 1) b 1 else b) = b1
      have hl1 : b1.logical = b.logical := by
        rw [← hb1]; split
        · exact fill_logical' _ _ _
        · rfl
      have hs1 : b1.size = b.size := by
        rw [← hb1]; split
        · exact fill_size' _ _ _
        · rfl
      have hemp : b1.buf = [] → b.logical = [] := by
        intro he
        rw [← hb1] at he
        split at he
        · rename_i hbe
          have hd := fill_done' (b.src.rest.length + 1) b 1 (by omega)
          have hsz := fill_size' (b.src.rest.length + 1) b 1
          rw [he] at hd
          simp only [List.length_nil] at hd
          rcases hd with hd | hd | hd
          · omega
          · have := fill_logical' (b.src.rest.length + 1) b 1
            rw [← this]; unfold Br.logical; rw [he, hd]; rfl
          · rw [hsz] at hd; omega
        · rename_i hbe; exact absurd he hbe
      split
      · rename_i he
        have := hemp he
        rw [this]
        simp only [List.length_nil, Nat.min_zero, List.drop_nil, true_and]
        exact ⟨by rw [hl1, this], hs1⟩
      · rename_i hne
        have hpos : 0 < b1.buf.length := by cases hbb : b1.buf with | nil => exact absurd hbb hne | cons _ _ => simp
        have hk : min n b1.buf.length ≤ b1.buf.length := Nat.min_le_right _ _
        obtain ⟨i1, i2, i3⟩ := ih { b1 with buf := b1.buf.drop (min n b1.buf.length) } (n - min n b1.buf.length) (by omega) (by simp only; omega)
        have hlog : ({ b1 with buf := b1.buf.drop (min n b1.buf.length) } : Br).logical = b.logical.drop (min n b1.buf.length) := by
          rw [← hl1]
          unfold Br.logical
          simp only
          rw [List.drop_append_of_le_length hk]
        have hlen : b.logical.length = b1.buf.length + b1.src.rest.length := by
          rw [← hl1]; unfold Br.logical; simp
        rw [i1, i2, i3, hlog]
        refine ⟨?_, ?_, hs1⟩
        · simp only [List.length_drop]; omega
        · rw [List.drop_drop]
          congr 1
          omega

/-- the chunked read loop (preview.RenderPreview) collects exactly the first min(n, tightest remaining length) bytes of
the logical stream, for every chunk size and every schedule -/
theorem boxReadChunked_spec (cap : Nat) (hcap : 0 < cap) : ∀ (f : Nat) (ls : List Nat) (b : Br) (n : Nat), n < f →
    (boxReadChunked cap f ls b n).1 = b.logical.take (min n (minAll ls)) ∧
    (boxReadChunked cap f ls b n).2.1 = ls.map (· - (boxReadChunked cap f ls b n).1.length) ∧
    (boxReadChunked cap f ls b n).2.2.logical = b.logical.drop (min n (minAll ls)) := by
  intro f
  induction f with
  | zero => intro ls b n h; omega
  | succ f ih =>
    intro ls b n hn
    unfold boxReadChunked
    split
    · rename_i h0; subst h0; simp
    · rename_i h0
      split
      · rename_i ls' b' hr
        obtain ⟨hcase, rfl, rfl⟩ := boxRead_none ls ls' b b' _ hr
        simp only [List.length_nil, Nat.sub_zero, List.map_id', true_and]
        rcases hcase with hz | hl
        · rw [hz]; simp
        · rw [hl]; simp
      · rename_i got ls' b' hr
        obtain ⟨hne, hle, hlim, happ, rfl⟩ := boxRead_some ls ls' b b' _ got (by omega) hr
        have hgl : 0 < got.length := by cases got with | nil => exact absurd rfl hne | cons _ _ => simp
        obtain ⟨i1, i3, i4⟩ := ih (ls.map (· - got.length)) b' (n - got.length) (by omega)
        rw [minAll_map_sub ls got.length hlim] at i1 i4
        have hmin : min (n - got.length) (minAll ls - got.length) = min n (minAll ls) - got.length := by omega
        have hgm : got.length ≤ min n (minAll ls) := by omega
        simp only
        rw [i4, ← happ]
        refine ⟨?_, ?_, ?_⟩
        · rw [i1, hmin, List.take_append, List.take_of_length_le hgm]
        · rw [i3, List.map_map, List.length_append]
          apply List.map_congr_left
          intro x _
          simp only [Function.comp]
          omega
        · rw [hmin, List.drop_append, List.drop_of_length_le hgm, List.nil_append]

end Imeta.Bufio
