/-
  The ISOBMFF reader model never reaches a `panic` outcome: `head` is only used inside a box, and the fuel given to the
  inner-box loops (unread bytes / 8 + 2) always suffices, because every round that goes on has consumed a box header.
-/
import Imeta.Lemmas.Bmff
namespace Imeta.Bmff

def isPanic {α} : Res α → Prop
  | .panic _ => True
  | _ => False

/-- inside a box, `m` does not panic and leaves the box stack as deep as it found it -/
def NP {α} (m : M α) : Prop := ∀ s, s.chain ≠ [] → ¬ isPanic (m s).1 ∧ (m s).2.chain.length = s.chain.length

theorem ne_of_len {s s' : St} (h : s'.chain.length = s.chain.length) (hn : s.chain ≠ []) : s'.chain ≠ [] := by
  intro h0; rw [h0] at h; cases hc : s.chain with
  | nil => exact hn hc
  | cons a t => rw [hc] at h; simp at h

theorem NP.pure {α} (a : α) : NP (pure a : M α) := fun _ _ => ⟨by simp [isPanic, pure_run], rfl⟩
theorem NP.fail {α} (k : ErrKind) : NP (fail k : M α) := fun _ _ => ⟨by simp [isPanic, fail_run], rfl⟩
theorem NP.get : NP get := fun _ _ => ⟨by simp [isPanic, Bmff.get], rfl⟩
theorem NP.loopFuel : NP loopFuel := fun _ _ => ⟨by simp [isPanic, Bmff.loopFuel], rfl⟩

theorem NP.head : NP head := by
  intro s hn
  unfold Bmff.head
  cases hc : s.chain with
  | nil => exact absurd hc hn
  | cons b t => simp [isPanic, hc]

theorem NP.bind {α β} {m : M α} {f : α → M β} (hm : NP m) (hf : ∀ a, NP (f a)) : NP (m >>= f) := by
  intro s hn
  have h1 := hm s hn
  cases hms : m s with
  | mk r s1 =>
    rw [hms] at h1
    cases r with
    | ok a =>
      rw [bind_ok hms]
      have h2 := hf a s1 (ne_of_len h1.2 hn)
      exact ⟨h2.1, h2.2.trans h1.2⟩
    | err k => rw [bind_err hms]; exact ⟨by simp [isPanic], h1.2⟩
    | panic p => exact absurd trivial h1.1

theorem NP.attempt {α} {m : M α} (hm : NP m) : NP (attempt m) := by
  intro s hn
  have h1 := hm s hn
  cases hms : m s with
  | mk r s1 =>
    rw [hms] at h1
    cases r with
    | ok a => rw [attempt_ok hms]; exact ⟨by simp [isPanic], h1.2⟩
    | err k => rw [attempt_err hms]; exact ⟨by simp [isPanic], h1.2⟩
    | panic p => exact absurd trivial h1.1

theorem NP.peek (n : Int) : NP (peek n) := by
  intro s _; unfold Bmff.peek
  repeat' split
  all_goals exact ⟨by simp [isPanic], rfl⟩

theorem decChain_length (c : List Box) (n : Int) : (decChain c n).1.length = c.length := by
  have := congrArg List.length (decChain_lims c n)
  simpa using this

theorem NP.discard (n : Int) : NP (discard n) := by
  intro s _
  unfold Bmff.discard
  split
  · split <;> exact ⟨by simp [isPanic], rfl⟩
  · simp only []
    split
    · exact ⟨by simp [isPanic], decChain_length _ _⟩
    · split <;> exact ⟨by simp [isPanic], decChain_length _ _⟩

theorem NP.readUpTo (k : Nat) : NP (readUpTo k) := by
  intro s _; unfold Bmff.readUpTo
  exact ⟨by simp [isPanic], by simp [subAll]⟩

theorem NP.modify (f : St → St) (hc : ∀ s, (f s).chain.length = s.chain.length) : NP (modify f) :=
  fun s _ => ⟨by simp [isPanic, Bmff.modify], hc s⟩

theorem NP.emit (e : Ev) : NP (emit e) := NP.modify _ (fun _ => rfl)

theorem NP.setHead (f : Box → Box) : NP (setHead f) := by
  apply NP.modify
  intro s
  cases hc : s.chain <;> simp [hc]

theorem NP.openBox {α} (size remain offset : Int) (typ : Bytes) {body : M α} (hb : NP body) :
    NP (openBox size remain offset typ body) := by
  intro s _
  unfold Bmff.openBox
  simp only []
  have h := hb { s with chain := { size := size, remain := remain, offset := offset, flags := 0, typ := typ, lim := (s.pos : Int) + max remain 0 } :: s.chain } (by simp)
  refine ⟨h.1, ?_⟩
  have := h.2
  simp only [List.length_cons] at this
  simp only [List.length_tail]
  omega

theorem NP.close : NP close := by
  unfold Bmff.close
  apply NP.bind NP.head
  intro b
  split
  · exact NP.pure ()
  · exact NP.discard _

attribute [irreducible] NP

macro "np_step" : tactic => `(tactic| first
  | with_reducible exact NP.pure _ | with_reducible exact NP.fail _ | with_reducible exact NP.get
  | with_reducible exact NP.head | with_reducible exact NP.loopFuel
  | with_reducible exact NP.peek _ | with_reducible exact NP.discard _ | with_reducible exact NP.readUpTo _
  | with_reducible exact NP.close | with_reducible exact NP.emit _
  | with_reducible exact NP.setHead _
  | with_reducible assumption
  | with_reducible apply NP.attempt
  | with_reducible apply NP.openBox
  | with_reducible apply NP.bind
  | intro _
  | split
  | dsimp only)
macro "np" : tactic => `(tactic| repeat' np_step)

theorem NP.readFlags : NP readFlags := by unfold Bmff.readFlags; np
theorem NP.readUint16 : NP readUint16 := by unfold Bmff.readUint16; np
theorem NP.callback (k : String) (n : List Nat) : NP (callback k n) := by unfold Bmff.callback; np
theorem NP.readExifHeader (f : Nat) : NP (readExifHeader f) := by unfold Bmff.readExifHeader; np
theorem NP.readCMT (f : Nat) : NP (readCMT f) := by
  unfold Bmff.readCMT
  np
  all_goals first | exact NP.readExifHeader _ | exact NP.callback _ _
theorem NP.readCNCV : NP readCNCV := by unfold Bmff.readCNCV; np
theorem NP.readCTBO : NP readCTBO := by unfold Bmff.readCTBO; np

end Imeta.Bmff

namespace Imeta.Bmff

theorem rest_le_of_pres {α} {m : M α} (hp : Pres m) (s : St) (hn : s.chain ≠ []) : (m s).2.rest.length ≤ s.rest.length := by
  unfold Pres at hp
  have r := hp s hn
  have h1 := r.mono
  have h2 := r.cons
  omega

theorem discard_ok_len (n : Int) (hn : 0 ≤ n) (s s2 : St) (h : discard n s = (.ok (), s2)) : s2.rest.length + n.toNat = s.rest.length := by
  unfold Bmff.discard at h
  rw [if_neg (by omega)] at h
  simp only [] at h
  split at h
  · simp at h
  · split at h
    · simp at h
    · next hlt =>
      simp only [Prod.mk.injEq, true_and] at h
      subst h
      simp only [List.length_drop]
      omega

/-- a round of the inner-box loop that asks for another round has consumed the header of a box: at least 8 bytes -/
theorem innerStep_again {h : Bytes → M Unit} (hp : ∀ t, Pres (h t)) (oe : OnErr) (s s' : St) (hn : s.chain ≠ [])
    (hr : innerStep h oe s = (.ok .again, s')) : s'.rest.length + 8 ≤ s.rest.length := by
  unfold innerStep at hr
  cases hc : s.chain with
  | nil => exact absurd hc hn
  | cons b t =>
  rw [bind_ok (show Bmff.head s = (.ok b, s) by unfold Bmff.head; rw [hc])] at hr
  split at hr
  · simp [pure_run] at hr
  · cases hpk : Bmff.peek 16 s with
    | mk r sp =>
      have hsp : sp = s := by
        unfold Bmff.peek at hpk
        repeat' split at hpk
        all_goals (simp only [Prod.mk.injEq] at hpk; exact hpk.2.symm)
      subst hsp
      cases r with
      | err k => rw [bind_ok (attempt_err hpk)] at hr; simp [pure_run] at hr
      | panic p => rw [bind_panic (attempt_panic hpk)] at hr; simp at hr
      | ok buf =>
        rw [bind_ok (attempt_ok hpk)] at hr
        simp only [] at hr
        split at hr
        · simp [pure_run] at hr
        · unfold Bmff.openBox at hr
          simp only [] at hr
          generalize hs1 : ({ sp with chain := _ :: sp.chain } : St) = s1 at hr
          have hr1 : s1.rest = sp.rest := by subst hs1; rfl
          have hn1 : s1.chain ≠ [] := by subst hs1; simp
          generalize hhdr : (if ((be32 buf : Nat) : Int) == 1 then (16 : Int) else 8) = hdr at hr
          have hhdr8 : 8 ≤ hdr := by subst hhdr; split <;> omega
          cases hd : Bmff.discard hdr s1 with
          | mk rd s2 =>
            cases rd with
            | err k => rw [bind_ok (attempt_err hd)] at hr; simp [pure_run] at hr
            | panic p => rw [bind_panic (attempt_panic hd)] at hr; simp at hr
            | ok u =>
              rw [bind_ok (attempt_ok hd)] at hr
              simp only [] at hr
              have hlen2 := discard_ok_len hdr (by omega) s1 s2 hd
              have hn2 : s2.chain ≠ [] := by
                have := (Pres.discard hdr)
                unfold Pres at this
                exact chain_ne_of_rel (by have := this s1 hn1; rw [hd] at this; exact this) hn1
              -- the handler and the close only consume
              have hH := rest_le_of_pres (Pres.attempt (hp ((buf.drop 4).take 4))) s2 hn2
              cases hh : Bmff.attempt (h ((buf.drop 4).take 4)) s2 with
              | mk rh s3 =>
                rw [hh] at hH
                have hn3 : s3.chain ≠ [] := by
                  have := Pres.attempt (hp ((buf.drop 4).take 4))
                  unfold Pres at this
                  exact chain_ne_of_rel (by have := this s2 hn2; rw [hh] at this; exact this) hn2
                cases rh with
                | err k => rw [bind_err hh] at hr; simp at hr
                | panic p => rw [bind_panic hh] at hr; simp at hr
                | ok uu =>
                  rw [bind_ok hh] at hr
                  have hC := rest_le_of_pres (Pres.attempt Pres.close) s3 hn3
                  cases hcl : Bmff.attempt Bmff.close s3 with
                  | mk rc s4 =>
                    rw [hcl] at hC
                    cases rc with
                    | err k => rw [bind_err hcl] at hr; simp at hr
                    | panic p => rw [bind_panic hcl] at hr; simp at hr
                    | ok rr =>
                      rw [bind_ok hcl] at hr
                      have hfin : s'.rest = s4.rest := by
                        cases rr <;> (simp only [pure_run, Prod.mk.injEq] at hr; rw [← hr.2])
                      rw [hfin]
                      simp only [] at hC hH
                      have : hdr.toNat ≥ 8 := by omega
                      have hr1' : s1.rest.length = sp.rest.length := by rw [hr1]
                      omega

end Imeta.Bmff

namespace Imeta.Bmff

def NPat {α} (m : M α) (s : St) : Prop := ¬ isPanic (m s).1 ∧ (m s).2.chain.length = s.chain.length

theorem NPat.bind {α β} {m : M α} {f : α → M β} {s : St} (hm : NPat m s) (hn : s.chain ≠ []) (hf : ∀ a, NP (f a)) : NPat (m >>= f) s := by
  unfold NPat at *
  cases hms : m s with
  | mk r s1 =>
    rw [hms] at hm
    cases r with
    | ok a =>
      rw [bind_ok hms]
      have h2 := hf a
      unfold NP at h2
      have h3 := h2 s1 (ne_of_len hm.2 hn)
      exact ⟨h3.1, h3.2.trans hm.2⟩
    | err k => rw [bind_err hms]; exact ⟨by simp [isPanic], hm.2⟩
    | panic p => exact absurd trivial hm.1

theorem NP.innerStep {h : Bytes → M Unit} (hh : ∀ t, NP (h t)) (oe : OnErr) : NP (innerStep h oe) := by
  unfold Bmff.innerStep
  np
  all_goals exact hh _

/-- the fuel `unread / 8 + 2` is enough: the loop never runs dry -/
theorem innerLoop_total {h : Bytes → M Unit} (hp : ∀ t, Pres (h t)) (hh : ∀ t, NP (h t)) (oe : OnErr) :
    ∀ (f : Nat) (s : St), s.chain ≠ [] → s.rest.length / 8 < f → NPat (innerLoop h oe f) s := by
  intro f
  induction f with
  | zero => intro s _ hlt; omega
  | succ f ih =>
    intro s hn hlt
    unfold Bmff.innerLoop
    have hs := NP.innerStep hh oe
    unfold NP at hs
    have h1 := hs s hn
    unfold NPat
    cases hms : Bmff.innerStep h oe s with
    | mk r s1 =>
      rw [hms] at h1
      cases r with
      | panic p => exact absurd trivial h1.1
      | err k => rw [bind_err hms]; exact ⟨by simp [isPanic], h1.2⟩
      | ok nx =>
        rw [bind_ok hms]
        cases nx with
        | stop => exact ⟨by simp [isPanic, pure_run], h1.2⟩
        | failWith e => exact ⟨by simp [isPanic, fail_run], h1.2⟩
        | again =>
          have hdec := innerStep_again hp oe s s1 hn hms
          have h2 := ih s1 (ne_of_len h1.2 hn) (by omega)
          unfold NPat at h2
          exact ⟨h2.1, h2.2.trans h1.2⟩

theorem NP.loop {h : Bytes → M Unit} (hp : ∀ t, Pres (h t)) (hh : ∀ t, NP (h t)) (oe : OnErr) {g : M Unit} (hg : NP g) :
    NP (do Bmff.innerLoop h oe (← Bmff.loopFuel); g) := by
  unfold NP
  intro s hn
  have key := NPat.bind (f := fun _ => g) (innerLoop_total hp hh oe (s.rest.length / 8 + 2) s hn (by omega)) hn (fun _ => hg)
  unfold NPat at key
  show ¬ isPanic ((Bmff.loopFuel >>= fun f => Bmff.innerLoop h oe f >>= fun _ => g) s).1 ∧ _
  rw [bind_ok (show Bmff.loopFuel s = (.ok (s.rest.length / 8 + 2), s) from rfl)]
  exact key

theorem NP.crxHandler (t : Bytes) : NP (crxHandler t) := by
  unfold Bmff.crxHandler
  have := NP.readCNCV
  have := NP.readCTBO
  np
  all_goals exact NP.readCMT _

theorem NP.readCrxMoov : NP readCrxMoov := NP.loop Pres.crxHandler NP.crxHandler .ret NP.close

theorem NP.prvwBody (t : Bytes) : NP (prvwBody t) := by
  unfold Bmff.prvwBody
  np
  all_goals exact NP.callback _ _

theorem NP.readPreview : NP readPreview := by
  unfold Bmff.readPreview
  have := NP.prvwBody
  np
  all_goals exact NP.prvwBody _

theorem NP.readUUIDBox : NP readUUIDBox := by
  unfold Bmff.readUUIDBox
  have := NP.readCrxMoov
  have := NP.readPreview
  np
  all_goals exact NP.callback _ _

theorem NP.readHdlr : NP readHdlr := by unfold Bmff.readHdlr; have := NP.readFlags; np
theorem NP.readPitm : NP readPitm := by unfold Bmff.readPitm; np
theorem NP.readIdat : NP readIdat := by unfold Bmff.readIdat; np
theorem NP.readIpma : NP readIpma := by unfold Bmff.readIpma; np
theorem NP.iprpHandler (t : Bytes) : NP (iprpHandler t) := by unfold Bmff.iprpHandler; have := NP.readIpma; np
theorem NP.readIprp : NP readIprp := NP.loop Pres.iprpHandler NP.iprpHandler .cont NP.close
theorem NP.readIref : NP readIref := by
  unfold Bmff.readIref
  apply NP.bind NP.readFlags
  intro _
  exact NP.loop (h := fun _ => (Pure.pure () : M Unit)) (fun _ => Pres.pure ()) (fun _ => NP.pure ()) .brk NP.close
theorem NP.readInfe : NP readInfe := by
  unfold Bmff.readInfe
  np
  exact NP.modify _ (fun _ => rfl)
theorem NP.readIinf : NP readIinf := by
  unfold Bmff.readIinf
  have := NP.readFlags
  have := NP.readUint16
  have := NP.readInfe
  np
theorem NP.readIloc : NP readIloc := by
  unfold Bmff.readIloc
  np
  exact NP.modify _ (fun _ => rfl)
theorem NP.metaHandler (t : Bytes) : NP (metaHandler t) := by
  unfold Bmff.metaHandler
  have := NP.readUUIDBox
  have := NP.readHdlr
  have := NP.readPitm
  have := NP.readIinf
  have := NP.readIref
  have := NP.readIprp
  have := NP.readIdat
  have := NP.readIloc
  np
theorem NP.readMeta : NP readMeta := by
  unfold Bmff.readMeta
  apply NP.bind NP.readFlags
  intro _
  exact NP.loop Pres.metaHandler NP.metaHandler .brk NP.close
theorem NP.moovHandler (t : Bytes) : NP (moovHandler t) := by
  unfold Bmff.moovHandler
  have := NP.readUUIDBox
  np
theorem NP.readMoov : NP readMoov := NP.loop Pres.moovHandler NP.moovHandler .brk NP.close
theorem NP.readMdat : NP readMdat := by
  unfold Bmff.readMdat Bmff.mdatExifBody
  np
  all_goals first | exact NP.readExifHeader _ | exact NP.callback _ _
theorem NP.dispatch (t : Bytes) : NP (dispatch t) := by
  unfold Bmff.dispatch
  have := NP.readMdat
  have := NP.readMeta
  have := NP.readMoov
  have := NP.readUUIDBox
  np

end Imeta.Bmff

namespace Imeta.Bmff

theorem topBox_total (body : Bytes → M Unit) (hb : ∀ t, NP (body t)) (s : St) (hs : s.chain = []) :
    ¬ isPanic (topBox body s).1 := by
  unfold topBox
  cases hpk : Bmff.peek 16 s with
  | mk r sp =>
    have hsp : sp = s := by
      unfold Bmff.peek at hpk
      repeat' split at hpk
      all_goals (simp only [Prod.mk.injEq] at hpk; exact hpk.2.symm)
    subst hsp
    cases r with
    | err k => rw [bind_ok (attempt_err hpk)]; simp [isPanic, fail_run]
    | panic p =>
      -- peek never panics
      unfold Bmff.peek at hpk
      repeat' split at hpk
      all_goals simp at hpk
    | ok buf =>
      rw [bind_ok (attempt_ok hpk)]
      try simp only []
      rw [bind_ok (show Bmff.get sp = (.ok sp, sp) from rfl)]
      try simp only []
      split
      · simp [isPanic, fail_run]
      · unfold Bmff.openBox
        simp only []
        have hnp : NP (do Bmff.discard (if ((be32 buf : Nat) : Int) == 1 then (16 : Int) else 8); body ((buf.drop 4).take 4)) :=
          NP.bind (NP.discard _) (fun _ => hb _)
        unfold NP at hnp
        exact (hnp _ (by simp)).1

/-- **Reader.ReadMetadata / ReadFTYP never panic and never run out of fuel**, for every stream: `head` is only used
inside a box and every inner-box loop ends within (unread bytes)/8 + 2 rounds. -/
theorem readMetadata_total (s : St) (hs : s.chain = []) : ¬ isPanic (readMetadata s).1 :=
  topBox_total dispatch NP.dispatch s hs

end Imeta.Bmff
