/-
  C03: the forward-only reader hands every field parser exactly the bytes of its tag's value.
  Part 1: coherence of the stream with the file, and exactness of one read.

  `Coh F r`: the unread stream is the file from the reader's position on.  Every stream operation keeps it; a read of a
  tag whose value lies at or after the position (a forward read) inside the file and inside the reader's limits succeeds
  and returns exactly `F[t.off, t.off + t.size)`.
-/
import Imeta.Model.ExifReader
namespace Imeta.Exif
open Imeta

structure Coh (F : Bytes) (r : R) : Prop where
  rest : r.rest = F.drop r.po
  le : r.po ≤ F.length
  small : F.length < 2 ^ 32

/-- the bytes of a tag's value in the file -/
def slice (F : Bytes) (t : Tag) : Bytes := (F.drop t.off).take t.size

/-- largest read the reader can serve: one bufio window, or the scratch buffer when there is no bufio.Reader -/
def readLimit (r : R) : Nat := if r.buffered then bufioSize else scratchSize

theorem Coh.restLen {F : Bytes} {r : R} (h : Coh F r) : r.rest.length = F.length - r.po := by
  rw [h.rest, List.length_drop]

/-- consuming n ≤ |rest| bytes keeps coherence -/
theorem Coh.advance {F : Bytes} {r : R} (h : Coh F r) (n : Nat) (hn : n ≤ r.rest.length) :
    Coh F { r with rest := r.rest.drop n, po := (r.po + n) % 2 ^ 32 } := by
  have hl := h.restLen
  have hs := h.small
  have hle := h.le
  have hmod : (r.po + n) % 2 ^ 32 = r.po + n := Nat.mod_eq_of_lt (by omega)
  refine ⟨?_, ?_, hs⟩
  · show r.rest.drop n = F.drop ((r.po + n) % 2 ^ 32)
    rw [hmod, h.rest, List.drop_drop]
  · show (r.po + n) % 2 ^ 32 ≤ F.length
    rw [hmod]; omega

/-- running into the end of the stream keeps coherence (the position is then the end of the file) -/
theorem Coh.toEnd {F : Bytes} {r : R} (h : Coh F r) :
    Coh F { r with rest := [], po := (r.po + r.rest.length) % 2 ^ 32 } := by
  have hl := h.restLen
  have hs := h.small
  have hle := h.le
  have hmod : (r.po + r.rest.length) % 2 ^ 32 = F.length := by
    rw [Nat.mod_eq_of_lt (by omega)]; omega
  refine ⟨?_, ?_, hs⟩
  · show [] = F.drop ((r.po + r.rest.length) % 2 ^ 32)
    rw [hmod, List.drop_length]
  · show (r.po + r.rest.length) % 2 ^ 32 ≤ F.length
    rw [hmod]; exact Nat.le_refl _

theorem Coh.discard {F : Bytes} {r : R} (h : Coh F r) (n : Int) : Coh F (discard r n).1 := by
  unfold Exif.discard
  split
  · exact h
  · dsimp only
    generalize (if (r.exifLength : Int) < n + r.po then (r.exifLength : Int) - r.po else n) = m
    repeat' split
    all_goals first
      | exact h
      | exact h.toEnd
      | (apply h.advance; assumption)

theorem Coh.fastRead {F : Bytes} {r : R} (h : Coh F r) (n : Nat) : Coh F (fastRead r n).r := by
  unfold Exif.fastRead
  repeat' split
  all_goals first
    | exact h
    | exact h.toEnd
    | (apply h.advance; omega)

/-- the fields a stream operation leaves alone -/
structure Keep (r r' : R) : Prop where
  tags : r'.tags = r.tags
  pos : r'.pos = r.pos
  exl : r'.exifLength = r.exifLength
  buffered : r'.buffered = r.buffered
  reads : r'.reads = r.reads
  ex : r'.ex = r.ex
  parsed : r'.parsed = r.parsed

theorem Keep.refl (r : R) : Keep r r := ⟨rfl, rfl, rfl, rfl, rfl, rfl, rfl⟩
theorem Keep.trans {a b c : R} (h1 : Keep a b) (h2 : Keep b c) : Keep a c :=
  ⟨h2.tags.trans h1.tags, h2.pos.trans h1.pos, h2.exl.trans h1.exl, h2.buffered.trans h1.buffered, h2.reads.trans h1.reads, h2.ex.trans h1.ex, h2.parsed.trans h1.parsed⟩

theorem Keep.discard (r : R) (n : Int) : Keep r (discard r n).1 := by
  unfold Exif.discard
  split
  · exact Keep.refl _
  · dsimp only
    generalize (if (r.exifLength : Int) < n + r.po then (r.exifLength : Int) - r.po else n) = m
    repeat' split
    all_goals exact ⟨rfl, rfl, rfl, rfl, rfl, rfl, rfl⟩

theorem Keep.fastRead (r : R) (n : Nat) : Keep r (fastRead r n).r := by
  unfold Exif.fastRead
  repeat' split
  all_goals exact ⟨rfl, rfl, rfl, rfl, rfl, rfl, rfl⟩

/-- a forward seek inside the file and inside the Exif length succeeds and lands exactly on the target -/
theorem discard_exact {F : Bytes} {r : R} (h : Coh F r) (k : Nat) (hF : r.po + k ≤ F.length) (hx : r.po + k ≤ r.exifLength) :
    (discard r (k : Int)).2 = none ∧ (discard r (k : Int)).1.po = r.po + k := by
  have hl := h.restLen
  have hs := h.small
  unfold Exif.discard
  split
  · rename_i h0
    have : k = 0 := by omega
    subst this
    exact ⟨rfl, rfl⟩
  · rename_i h0
    have hk : 0 < k := by omega
    dsimp only
    have hclamp : (if (r.exifLength : Int) < (k : Int) + r.po then (r.exifLength : Int) - r.po else (k : Int)) = (k : Int) := by
      rw [if_neg (by omega)]
    rw [hclamp]
    have hmod : (r.po + k) % 2 ^ 32 = r.po + k := Nat.mod_eq_of_lt (by omega)
    have hkl : (k : Int).toNat ≤ r.rest.length := by simp only [Int.toNat_natCast]; omega
    split
    · rw [if_neg (by omega)]
      first | rw [if_pos hkl] | skip
      exact ⟨rfl, by simp only [Int.toNat_natCast]; exact hmod⟩
    · rw [if_neg (by omega)]
      first | rw [if_pos hkl] | skip
      exact ⟨rfl, by simp only [Int.toNat_natCast]; exact hmod⟩

/-- a read of n bytes that lie inside the file, inside the Exif length and inside the reader's window succeeds and
returns exactly the next n bytes of the file -/
theorem fastRead_exact {F : Bytes} {r : R} (h : Coh F r) (n : Nat) (hF : r.po + n ≤ F.length) (hx : r.po + n ≤ r.exifLength)
    (hlim : n ≤ readLimit r) :
    (fastRead r n).err = none ∧ (fastRead r n).buf = (F.drop r.po).take n ∧ (fastRead r n).r.po = r.po + n := by
  have hl := h.restLen
  have hs := h.small
  have hmod : (r.po + n) % 2 ^ 32 = r.po + n := Nat.mod_eq_of_lt (by omega)
  unfold readLimit at hlim
  unfold Exif.fastRead
  rw [if_neg (by omega)]
  split
  · rename_i hb
    rw [if_pos hb] at hlim
    rw [if_neg (by omega), if_neg (by omega)]
    exact ⟨rfl, by rw [h.rest], hmod⟩
  · rename_i hb
    rw [if_neg hb] at hlim
    rw [if_neg (by omega), if_neg (by omega)]
    exact ⟨rfl, by rw [h.rest], hmod⟩

theorem Coh.readTagValue {F : Bytes} {r : R} (h : Coh F r) (t : Tag) : Coh F (readTagValue r t).r := by
  have h0 : Coh F (if t.isEmbedded then { r with hazard := true } else r) := by split <;> exact ⟨h.rest, h.le, h.small⟩
  have key : Coh F (readTagValue0 r t).r := by
    unfold Exif.readTagValue0
    dsimp only
    split
    · rename_i r1 e hd
      have := h0.discard ((t.off : Int) - (if t.isEmbedded then { r with hazard := true } else r).po)
      rw [hd] at this; exact this
    · rename_i r1 hd
      have := h0.discard ((t.off : Int) - (if t.isEmbedded then { r with hazard := true } else r).po)
      rw [hd] at this; exact this.fastRead _
  exact ⟨key.rest, key.le, key.small⟩

theorem Keep.readTagValue0 (r : R) (t : Tag) : Keep r (readTagValue0 r t).r := by
  have h0 : Keep r (if t.isEmbedded then { r with hazard := true } else r) := by split <;> exact ⟨rfl, rfl, rfl, rfl, rfl, rfl, rfl⟩
  unfold Exif.readTagValue0
  dsimp only
  split
  · rename_i r1 e hd
    have := Keep.discard (if t.isEmbedded then { r with hazard := true } else r) ((t.off : Int) - (if t.isEmbedded then { r with hazard := true } else r).po)
    rw [hd] at this; exact h0.trans this
  · rename_i r1 hd
    have := Keep.discard (if t.isEmbedded then { r with hazard := true } else r) ((t.off : Int) - (if t.isEmbedded then { r with hazard := true } else r).po)
    rw [hd] at this; exact (h0.trans this).trans (Keep.fastRead _ _)

/-- **One forward read is exact.**  If the stream is coherent with the file F, the value of t lies at or after the
reader's position, inside the file and the Exif length, and fits the reader's window, then `readTagValue` succeeds,
returns exactly F[t.off, t.off+t.size), and leaves the reader right after the value. -/
theorem readTagValue_exact {F : Bytes} {r : R} (h : Coh F r) (t : Tag) (hfw : r.po ≤ t.off) (hF : t.off + t.size ≤ F.length)
    (hx : t.off + t.size ≤ r.exifLength) (hlim : t.size ≤ readLimit r) :
    (readTagValue r t).err = none ∧ (readTagValue r t).buf = slice F t ∧ (readTagValue r t).r.po = t.off + t.size ∧
    (readTagValue r t).r.reads = r.reads ++ [(t, some (slice F t))] := by
  have key : (readTagValue0 r t).err = none ∧ (readTagValue0 r t).buf = slice F t ∧ (readTagValue0 r t).r.po = t.off + t.size := by
    unfold Exif.readTagValue0
    dsimp only
    generalize hr0 : (if t.isEmbedded then { r with hazard := true } else r) = r0
    have h0 : Coh F r0 := by subst hr0; split <;> exact ⟨h.rest, h.le, h.small⟩
    have hpo : r0.po = r.po := by subst hr0; split <;> rfl
    have hexl : r0.exifLength = r.exifLength := by subst hr0; split <;> rfl
    have hbuf : readLimit r0 = readLimit r := by subst hr0; unfold readLimit; split <;> rfl
    have hk : ((t.off : Int) - r0.po) = ((t.off - r0.po : Nat) : Int) := by omega
    rw [hk]
    have hd := discard_exact h0 (t.off - r0.po) (by omega) (by omega)
    have hc := h0.discard ((t.off - r0.po : Nat) : Int)
    have hkp := Keep.discard r0 ((t.off - r0.po : Nat) : Int)
    cases hdd : Exif.discard r0 ((t.off - r0.po : Nat) : Int) with
    | mk r1 e =>
      rw [hdd] at hd hc hkp
      dsimp only at hd hc
      have he : e = none := hd.1
      subst he
      dsimp only
      have hp1 : r1.po = t.off := by rw [hd.2]; omega
      have hl1 : readLimit r1 = readLimit r := by unfold readLimit at hbuf ⊢; rw [hkp.buffered]; exact hbuf
      have := fastRead_exact hc t.size (by omega) (by rw [hkp.exl]; omega) (by omega)
      refine ⟨this.1, ?_, by rw [this.2.2, hp1]⟩
      rw [this.2.1, hp1]; rfl
  refine ⟨key.1, key.2.1, key.2.2, ?_⟩
  show (readTagValue0 r t).r.reads ++ [(t, if (readTagValue0 r t).err.isNone then some (readTagValue0 r t).buf else none)] = _
  rw [(Keep.readTagValue0 r t).reads, key.1, key.2.1]
  rfl

end Imeta.Exif
