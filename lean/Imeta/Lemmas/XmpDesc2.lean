/-
  C13: a whole rdf:Description whose children are simple elements and array properties in any order.
-/
import Imeta.Lemmas.XmpChildren
namespace Imeta.Xmp
open Imeta Imeta.Props.C13

/-- **A Description with attributes and children of both kinds.**  `ws0 <D attrs> wsV children ws2 </D>`: D a property that is
neither an array nor the root (rdf:Description); `attrs` a non-empty attribute list as in C13_attribute_list_exact, each
attribute behind at least one white-space byte; `children` a list of simple elements as in C13_element_list_exact.  One
round of readTag reports exactly: one token per attribute with a non-empty value, then one token per element — parent D,
property `identify ns name`, exactly the value — in document order; consumes exactly the element; and goes on behind it. -/
theorem readTag_description_children_exact (parent : Tag) (st : St) (D : Name) (ws0 wsV X ws2 R : Bytes)
    (la : List (Bytes × Attr)) (cs : List (Bytes × Child)) (f : Nat)
    (hr : st.rest = ws0 ++ 60 :: ((D.n0 :: D.ns) ++ 58 :: (D.name ++ (ser la ++ 62 :: (wsV ++ 60 :: X)))))
    (hX : 60 :: X = serC cs (ws2 ++ D.closeT R))
    (hD : D.OK) (hDseq : (D.prop == rdfSeq || D.prop == rdfAlt || D.prop == rdfBag) = false) (hDroot : (D.prop == rootProp) = false)
    (hws0 : ∀ x ∈ ws0, (x == 60) = false) (hwin0 : ws0.length + 128 ≤ W)
    (hla : la ≠ []) (hoka : ∀ p ∈ la, (∀ x ∈ p.1, isWs x = true) ∧ p.1 ≠ [] ∧ p.2.OK)
    (hwsV : ∀ x ∈ wsV, isWs x = true) (hwinV : wsV.length < 512)
    (hokc : ∀ p ∈ cs, (∀ x ∈ p.1, (x == 60) = false) ∧ p.1.length + 128 ≤ W ∧ p.2.OK ∧ p.2.need ≤ f + 1)
    (hws2 : ∀ x ∈ ws2, (x == 60) = false) (hwin2 : ws2.length + 128 ≤ W) :
    readTag (f + 2 + cs.length) parent st =
      readTag (f + 1 + cs.length) parent { rest := R, a := false, toks := pushC D.prop cs (pushAll D.prop la st.toks) } := by
  have hF : f + 2 + cs.length = (f + 1 + cs.length) + 1 := by omega
  rw [hF]
  -- the first attribute's white space starts right behind the name
  obtain ⟨p1, la', rfl⟩ := List.exists_cons_of_ne_nil hla
  obtain ⟨wsa, a1⟩ := p1
  have hp1 := hoka (wsa, a1) (by simp)
  obtain ⟨w, wsa', hwsa0⟩ := List.exists_cons_of_ne_nil hp1.2.1
  have hwsa : wsa = w :: wsa' := hwsa0
  have hw : isWs w = true := hp1.1 w (by show w ∈ wsa; rw [hwsa]; simp)
  obtain ⟨Rw, hRw⟩ : ∃ Rw, ser ((wsa, a1) :: la') ++ 62 :: (wsV ++ 60 :: X) = w :: Rw := by
    refine ⟨wsa' ++ a1.bytes ++ ser la' ++ 62 :: (wsV ++ 60 :: X), ?_⟩
    simp [ser, hwsa]
  rw [readTag_unfold (f + 1 + cs.length) parent]
  have hr1 : st.rest = ws0 ++ 60 :: ((D.n0 :: D.ns) ++ 58 :: (D.name ++ w :: Rw)) := by rw [hr, hRw]
  have h4 : 4 < st.rest.length := by rw [hr]; simp [ser, Attr.bytes]; omega
  rw [bindOk _ _ _ _ _ (readTagHeader_startattr_exact parent st ws0 D.n0 D.ns D.name Rw w hr1 hw hws0 hwin0 hD.h0 hD.hns hD.hname (by have := hD.hfit; omega) h4)]
  have he1 : isEndTag { t := .start, parent := parent.self, self := identify (D.n0 :: D.ns) D.name } parent.self = false := by
    simp [isEndTag]
  simp only [he1, Bool.false_eq_true, if_false]
  rw [bindOk (fun st => (.ok st.rest.length, st) : M Nat) _ _ _ _ rfl]
  -- the attributes
  obtain ⟨c2, t, hct⟩ := List.exists_cons_of_ne_nil (show (wsV ++ 60 :: X : Bytes) ≠ [] by simp)
  have hlen : ((wsa, a1) :: la').length < (w :: Rw : Bytes).length + 2 := by
    have := ser_length ((wsa, a1) :: la')
    rw [← hRw]; simp only [List.length_append]; omega
  rw [bindOk _ _ _ _ _ (attrLoop_exact { t := .start, parent := parent.self, self := identify (D.n0 :: D.ns) D.name } c2 t ((wsa, a1) :: la') _
    { st with a := true, rest := w :: Rw } (by simp) hlen rfl (by show w :: Rw = _; rw [← hRw, hct])
    (fun p hp => ⟨(hoka p hp).1, (hoka p hp).2.2⟩) (fun p hp => (hoka p (List.mem_of_mem_tail hp)).2.1))]
  unfold Name.prop at hDseq hDroot
  simp only [beq_self_eq_true, if_true, hDseq, Bool.false_eq_true, if_false, bind_assoc3]
  -- the value of the Description itself is empty: its children follow
  have hXlen : 5 ≤ (60 :: X : Bytes).length := by
    rw [hX]
    have : ∀ (cs : List (Bytes × Child)) (T : Bytes), T.length ≤ (serC cs T).length := by
      intro cs
      induction cs with
      | nil => intro T; simp [serC]
      | cons p cs ih =>
        intro T; obtain ⟨ws, c⟩ := p
        have := ih T
        cases c <;> simp [serC, Child.ser, Elem.bytes, Name.openT, Name.closeT] <;> omega
    have h := this cs (ws2 ++ D.closeT R)
    have h5 : 5 ≤ (ws2 ++ D.closeT R : Bytes).length := by simp [Name.closeT]; omega
    omega
  rw [bindOk _ _ _ _ _ (readTagValue_empty 7 _ wsV X (by show c2 :: t = _; rw [hct]) hwsV hwinV (by show 4 < (c2 :: t : Bytes).length; rw [← hct]; simp at hXlen ⊢; omega))]
  have hemit : ∀ (s0 : St), emit { pt := 2, parent := parent.self, self := identify (D.n0 :: D.ns) D.name, val := [] } s0 = (.ok (), s0) := by
    intro s0; simp [emit]
  rw [bindOk _ _ _ _ _ (hemit _)]
  dsimp only
  -- the children
  rw [bind_eq_of_eq (readTag_children_exact { t := .start, parent := parent.self, self := identify (D.n0 :: D.ns) D.name } (ws2 ++ D.closeT R) cs (f + 1) _ rfl hX hokc)]
  -- the stop tag of the Description
  rw [readTag_unfold f { t := .start, parent := parent.self, self := identify (D.n0 :: D.ns) D.name }]
  simp only [bind_assoc3]
  rw [bindOk _ _ _ _ _ (readTagHeader_stop_exact { t := .start, parent := parent.self, self := identify (D.n0 :: D.ns) D.name }
    _ ws2 D.n0 D.ns D.name R rfl hws2 hwin2 hD.hns hD.hname hD.hfit)]
  have he3 : isEndTag { t := .stop, parent := identify (D.n0 :: D.ns) D.name, self := identify (D.n0 :: D.ns) D.name } (identify (D.n0 :: D.ns) D.name) = true := by
    simp [isEndTag]
  dsimp only
  simp only [he3, if_true]
  rw [bindOk (pure _) _ _ _ _ rfl]
  have hrs2 : isRootStop { t := .stop, parent := identify (D.n0 :: D.ns) D.name, self := identify (D.n0 :: D.ns) D.name } = false := by
    simp [isRootStop, hDroot]
  simp only [hrs2, Bool.false_eq_true, if_false]
  rfl

end Imeta.Xmp
