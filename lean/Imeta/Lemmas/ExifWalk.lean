/-
  Termination of the Exif directory walk (C02), part 2: every pending tag is paid for by four bytes of input.
  W r = 4·|pending tags| + |unread bytes| never grows in the directory reader, and each round of `ifdLoop`
  moves the position forward, so W r − 4·pos strictly decreases.
-/
import Imeta.Lemmas.ExifTotal
import Imeta.Lemmas.ExifNoFuel
namespace Imeta.Exif
open Imeta

/-- `Pay k r r'`: the position is unchanged, the tag buffer did not shrink, and W grew by at most k (k may be negative) -/
structure Pay (k : Int) (r r' : R) : Prop where
  pos : r'.pos = r.pos
  mono : r.tags.length ≤ r'.tags.length
  w : (4 * r'.tags.length + r'.rest.length : Int) ≤ 4 * r.tags.length + r.rest.length + k

theorem Pay.refl (r : R) : Pay 0 r r := ⟨rfl, Nat.le_refl _, by omega⟩
theorem Pay.trans {a b c : R} {k l : Int} (h1 : Pay k a b) (h2 : Pay l b c) : Pay (k + l) a c :=
  ⟨h2.pos.trans h1.pos, Nat.le_trans h1.mono h2.mono, by have := h1.w; have := h2.w; omega⟩
theorem Pay.weaken {a b : R} {k l : Int} (h : Pay k a b) (hl : k ≤ l) : Pay l a b :=
  ⟨h.pos, h.mono, by have := h.w; omega⟩
theorem Fr.pay {r r' : R} (h : Fr r r') : Pay 0 r r' :=
  ⟨h.pos, by rw [h.tags]; exact Nat.le_refl _, by have := h.len; rw [h.tags]; omega⟩

theorem insertFrom_length (t : Tag) (i : Nat) (tags l : List Tag) (h : insertFrom t i tags = some l) :
    l.length = tags.length + 1 := by
  induction i with
  | zero => simp [insertFrom] at h
  | succ i ih =>
    unfold insertFrom at h
    split at h
    · rename_i p hp
      split at h
      · simp only [Option.some.injEq] at h
        have hi : i < tags.length := by
          rcases Nat.lt_or_ge i tags.length with h' | h'
          · exact h'
          · simp [List.getElem?_eq_none h'] at hp
        rw [← h]; simp; omega
      · exact ih h
    · simp at h

theorem Pay.addTag (r : R) (t : Tag) : Pay 4 r (addTag r t) := by
  unfold Exif.addTag
  split
  · exact (Pay.refl r).weaken (by omega)
  · split
    · split
      · rename_i l hl
        have := insertFrom_length _ _ _ _ hl
        exact ⟨rfl, by simp only; omega, by simp only; omega⟩
      · split
        · rename_i hnil
          exact ⟨rfl, by simp [hnil], by simp [hnil]; omega⟩
        · split
          · exact ⟨rfl, by simp, by simp; omega⟩
          · exact (Pay.refl r).weaken (by omega)
    · exact (Pay.refl r).weaken (by omega)

/-- a successful `fastRead` of n bytes consumed exactly n and delivers n bytes -/
theorem fastRead_ok (r : R) (n : Nat) (h : (fastRead r n).err = none) :
    Pay (-(n : Int)) r (fastRead r n).r ∧ (fastRead r n).buf.length = n := by
  unfold Exif.fastRead
  unfold Exif.fastRead at h
  repeat' split
  all_goals first
    | (simp [*] at h; done)
    | (refine ⟨⟨rfl, Nat.le_refl _, ?_⟩, ?_⟩ <;> simp <;> omega)

theorem fastRead_pay (r : R) (n : Nat) : Pay 0 r (fastRead r n).r := (Fr.fastRead r n).pay

theorem bind_ok {α β} {x : Outcome α} {f : α → Outcome β} {v : β} (h : (x >>= f) = .ok v) :
    ∃ a, x = .ok a ∧ f a = .ok v := by
  cases x with
  | ok a => exact ⟨a, rfl, h⟩
  | err k => simp [bind, Outcome.bind] at h
  | panic s => simp [bind, Outcome.bind] at h
  | fuel => simp [bind, Outcome.bind] at h

theorem Pay.parseTag {tb : Tables} {r r' : R} {t : Tag} (h : parseTag tb r t = .ok r') : Pay 0 r r' :=
  by
    obtain ⟨r0, h0, rfl⟩ := parseTag_ok h
    have := (FrO.parseTag0 tb r t r0 h0).pay
    exact ⟨this.pos, this.mono, this.w⟩

theorem Pay.entriesLoop (tb : Tables) (ifd : Ifd) (buf : Bytes) (n i : Nat) (r r' : R)
    (h : entriesLoop tb ifd buf n i r = .ok r') : Pay (4 * n) r r' := by
  induction n generalizing i r with
  | zero =>
    unfold Exif.entriesLoop at h
    simp only [Outcome.ok.injEq] at h; rw [← h]; exact (Pay.refl r).weaken (by omega)
  | succ n ih =>
    unfold Exif.entriesLoop at h
    obtain ⟨e, _, h⟩ := bind_ok h
    obtain ⟨ot, _, h⟩ := bind_ok h
    split at h
    · exact (ih _ _ h).weaken (by omega)
    · split at h
      · obtain ⟨r1, h1, h⟩ := bind_ok h
        exact ((Pay.parseTag h1).trans (ih _ _ h)).weaken (by omega)
      · exact ((Pay.addTag r _).trans (ih _ _ h)).weaken (by omega)

theorem Pay.readNextIfdTag (r r' : R) (ifd : Ifd) (e : Option ErrKind) (h : readNextIfdTag r ifd = .ok (r', e)) :
    Pay 0 r r' := by
  unfold Exif.readNextIfdTag at h
  split at h
  · dsimp only at h
    split at h
    · simp only [Outcome.ok.injEq, Prod.mk.injEq] at h; rw [← h.1]; exact fastRead_pay r 4
    · rename_i hn
      have hp := (fastRead_ok r 4 hn).1
      obtain ⟨nx, _, h⟩ := bind_ok h
      split at h
      · simp only [Outcome.ok.injEq, Prod.mk.injEq] at h; rw [← h.1]
        exact (hp.trans (Pay.addTag _ _)).weaken (by omega)
      · simp only [Outcome.ok.injEq, Prod.mk.injEq] at h; rw [← h.1]; exact hp.weaken (by omega)
  · simp only [Outcome.ok.injEq, Prod.mk.injEq] at h; rw [← h.1]; exact Pay.refl r

theorem Pay.readIfdHeader (tb : Tables) (r r' : R) (ifd : Ifd) (e : Option ErrKind)
    (h : readIfdHeader tb r ifd = .ok (r', e)) : Pay 0 r r' := by
  unfold Exif.readIfdHeader at h
  dsimp only at h
  split at h
  · simp only [Outcome.ok.injEq, Prod.mk.injEq] at h; rw [← h.1]; exact fastRead_pay r 2
  · rename_i hn
    have hp := (fastRead_ok r 2 hn).1
    obtain ⟨cnt, _, h⟩ := bind_ok h
    split at h
    · simp only [Outcome.ok.injEq, Prod.mk.injEq] at h; rw [← h.1]; exact hp.weaken (by omega)
    · split at h
      · simp only [Outcome.ok.injEq, Prod.mk.injEq] at h; rw [← h.1]
        exact (hp.trans (fastRead_pay _ _)).weaken (by omega)
      · rename_i hn2
        have hp2 := (fastRead_ok _ _ hn2).1
        obtain ⟨r3, h3, h⟩ := bind_ok h
        have h4 := Pay.entriesLoop _ _ _ _ _ _ _ h3
        have h5 := Pay.readNextIfdTag _ _ _ _ h
        exact (((hp.trans hp2).trans h4).trans h5).weaken (by push_cast; omega)

theorem Pay.subIfdsLoop (t : Tag) (buf : Bytes) (n i : Nat) (r r' : R) (hi : 4 * i ≤ buf.length)
    (h : subIfdsLoop t buf n i r = .ok r') : Pay ((buf.length : Int) - 4 * i) r r' := by
  induction n generalizing i r with
  | zero =>
    unfold Exif.subIfdsLoop at h
    simp only [Outcome.ok.injEq] at h; rw [← h]; exact (Pay.refl r).weaken (by omega)
  | succ n ih =>
    unfold Exif.subIfdsLoop at h
    split at h
    · rename_i hc
      obtain ⟨s, _, h⟩ := bind_ok h
      obtain ⟨v, _, h⟩ := bind_ok h
      have := ih (i + 1) _ (by omega) h
      exact ((Pay.addTag r _).trans this).weaken (by push_cast; omega)
    · simp only [Outcome.ok.injEq] at h; rw [← h]; exact (Pay.refl r).weaken (by omega)

theorem readTagValue0_ok (r : R) (t : Tag) (h : (readTagValue0 r t).err = none) :
    Pay (-((readTagValue0 r t).buf.length : Int)) r (readTagValue0 r t).r := by
  unfold Exif.readTagValue0 at h ⊢
  simp only [] at h ⊢
  have h0 : Fr r (if t.isEmbedded then { r with hazard := true } else r) := by split <;> exact ⟨rfl, rfl, Nat.le_refl _, rfl⟩
  generalize (if t.isEmbedded then { r with hazard := true } else r) = r0 at h0 h ⊢
  have h1 := Fr.discard r0 ((t.off : Int) - r0.po)
  cases hd : Exif.discard r0 ((t.off : Int) - r0.po) with
  | mk r1 e =>
    rw [hd] at h1 h
    cases e with
    | some k => simp at h
    | none =>
      dsimp only at h ⊢
      have := fastRead_ok r1 t.size h
      rw [this.2]
      exact ((h0.pay.trans h1.pay).trans this.1).weaken (by omega)

theorem readTagValue_ok (r : R) (t : Tag) (h : (readTagValue r t).err = none) :
    Pay (-((readTagValue r t).buf.length : Int)) r (readTagValue r t).r := by
  have := readTagValue0_ok r t h
  exact ⟨this.pos, this.mono, this.w⟩

theorem Pay.readSubIfds (r r' : R) (t : Tag) (h : readSubIfds r t = .ok r') : Pay 0 r r' := by
  unfold Exif.readSubIfds at h
  split at h
  · dsimp only at h
    split at h
    · simp only [Outcome.ok.injEq] at h; rw [← h]; exact (Fr.readTagValue r t).pay
    · rename_i hn
      have hn' : (readTagValue r t).err = none := by
        cases he : (readTagValue r t).err with
        | none => rfl
        | some k => simp [he] at hn
      have h1 := readTagValue_ok r t hn'
      have h2 := Pay.subIfdsLoop _ _ _ 0 _ _ (by omega) h
      exact (h1.trans h2).weaken (by omega)
  · simp only [Outcome.ok.injEq] at h; rw [← h]; exact Pay.refl r

theorem Pay.readMakerNotes (tb : Tables) (r r' : R) (t : Tag) (h : readMakerNotes tb r t = .ok r') : Pay 0 r r' := by
  unfold Exif.readMakerNotes at h
  split at h
  · obtain ⟨p, hp, h⟩ := bind_ok h
    obtain ⟨r1, e⟩ := p
    simp only [Outcome.ok.injEq] at h; rw [← h]
    exact Pay.readIfdHeader _ _ _ _ _ hp
  · split at h
    · split at h
      · dsimp only at h
        split at h
        · simp only [Outcome.ok.injEq] at h; rw [← h]; exact fastRead_pay r 18
        · obtain ⟨hh, _, h⟩ := bind_ok h
          split at h
          · obtain ⟨bo, _, h⟩ := bind_ok h
            split at h
            · obtain ⟨o, _, h⟩ := bind_ok h
              obtain ⟨v, _, h⟩ := bind_ok h
              obtain ⟨p, hp, h⟩ := bind_ok h
              obtain ⟨r2, e⟩ := p
              simp only [Outcome.ok.injEq] at h; rw [← h]
              have h1 := fastRead_pay r 18
              have h2 := Pay.readIfdHeader _ _ _ _ _ hp
              exact (h1.trans ⟨h2.pos, h2.mono, h2.w⟩).weaken (by omega)
            · simp only [Outcome.ok.injEq] at h; rw [← h]
              have h1 := fastRead_pay r 18
              exact ⟨h1.pos, h1.mono, h1.w⟩
          · simp only [Outcome.ok.injEq] at h; rw [← h]; exact fastRead_pay r 18
      · simp only [Outcome.ok.injEq] at h; rw [← h]; exact Pay.refl r
    · simp only [Outcome.ok.injEq] at h; rw [← h]; exact Pay.refl r

theorem NF.ifdChild (tb : Tables) (r : R) (t : Tag) : NF (ifdChild tb r t) := by
  unfold Exif.ifdChild
  repeat' (with_reducible apply NF.ite)
  all_goals first
    | exact NF.ok _
    | exact NF.readMakerNotes _ _ _
    | exact NF.bind (NF.readIfdHeader _ _ _) (fun _ => by split; exact NF.ok _)

theorem Pay.ifdChild (tb : Tables) (r r' : R) (t : Tag) (h : ifdChild tb r t = .ok r') : Pay 0 r r' := by
  unfold Exif.ifdChild at h
  repeat' split at h
  all_goals first
    | (obtain ⟨p, hp, h⟩ := bind_ok h; obtain ⟨r1, e⟩ := p; simp only [Outcome.ok.injEq] at h; rw [← h]; exact Pay.readIfdHeader _ _ _ _ _ hp)
    | exact Pay.readMakerNotes _ _ _ _ h
    | (simp only [Outcome.ok.injEq] at h; rw [← h]; exact Pay.refl r)

/-- the potential of the work loop -/
def M (r : R) : Int := 4 * r.tags.length + r.rest.length - 4 * r.pos

theorem NF.bindV {α β} {x : Outcome α} {f : α → Outcome β} (hx : NF x) (hf : ∀ v, x = .ok v → NF (f v)) : NF (x >>= f) := by
  cases x with
  | ok v => exact hf v rfl
  | err k => exact NF.err k
  | panic s => exact NF.panic s
  | fuel => exact absurd rfl hx.h

theorem step_ok (r rn : R) (h : Pay 0 r rn) (hlt : r.pos < r.tags.length) :
    ({ rn with pos := rn.pos + 1 } : R).pos ≤ ({ rn with pos := rn.pos + 1 } : R).tags.length ∧
    M { rn with pos := rn.pos + 1 } + 4 ≤ M r := by
  have := h.pos; have := h.mono; have := h.w
  unfold M
  refine ⟨?_, ?_⟩ <;> simp only <;> omega

theorem reset_ok (r : R) (hlt : r.pos < r.tags.length) :
    (resetPosition r).pos < (resetPosition r).tags.length ∧ M (resetPosition r) = M r := by
  unfold Exif.resetPosition M
  split
  · simp only [List.length_drop]; omega
  · exact ⟨hlt, rfl⟩

/-- the work loop never exhausts a fuel above its potential -/
theorem ifdLoop_NF (tb : Tables) (f : Nat) (r : R) (hinv : r.pos ≤ r.tags.length) (hf : M r < f) : NF (ifdLoop tb f r) := by
  induction f generalizing r with
  | zero => unfold M at hf; omega
  | succ f ih =>
    unfold Exif.ifdLoop
    split
    · rename_i hlt
      split
      · exact NF.ok _
      · rename_i t ht
        split
        · -- a directory pointer: seek, reset, read the child directory
          split
          rename_i r1 e hd
          have h1 : Fr r r1 := by have := Fr.discard r ((t.off : Int) - r.po); rw [hd] at this; exact this
          have hlt1 : r1.pos < r1.tags.length := by rw [h1.pos, h1.tags]; exact hlt
          have hr := reset_ok r1 hlt1
          apply NF.bindV (NF.ifdChild _ _ _)
          intro r3 h3
          have hp := Pay.ifdChild _ _ _ _ h3
          have hs := step_ok _ _ hp hr.1
          apply ih _ hs.1
          have hm1 : M r1 ≤ M r := by
            unfold M; have := h1.len; rw [h1.pos, h1.tags]; omega
          have := hs.2; rw [hr.2] at this; omega
        · split
          · apply NF.bindV (NF.readSubIfds _ _)
            intro r1 h1
            have hs := step_ok _ _ (Pay.readSubIfds _ _ _ h1) hlt
            exact ih _ hs.1 (by have := hs.2; omega)
          · apply NF.bindV (NF.parseTag _ _ _)
            intro r1 h1
            have hs := step_ok _ _ (Pay.parseTag h1) hlt
            exact ih _ hs.1 (by have := hs.2; omega)
    · exact NF.ok _

theorem readIfd_NF (tb : Tables) (fuel : Nat) (r : R) (ifd : Ifd) (hinv : r.pos ≤ r.tags.length) (hf : M r < fuel) :
    NF (readIfd tb fuel r ifd) := by
  unfold Exif.readIfd
  apply NF.bindV (NF.readIfdHeader _ _ _)
  intro p hp
  obtain ⟨r1, e⟩ := p
  dsimp only
  have h1 := Pay.readIfdHeader _ _ _ _ _ hp
  split
  · exact NF.ok _
  · apply NF.bindV
    · apply ifdLoop_NF
      · rw [h1.pos]; exact Nat.le_trans hinv h1.mono
      · have := h1.w; have := h1.pos; unfold M at hf ⊢; omega
    · intro _ _; exact NF.ok _

/-- the fuel the entry points pass is above the potential of a fresh reader -/
theorem fresh_fuel (rest : Bytes) (r : R) (hr : r.rest = rest) (ht : r.tags = []) (hp : r.pos = 0) (r1 : R) (h : Fr r r1) :
    r1.pos ≤ r1.tags.length ∧ M r1 < fuelFor rest := by
  have := h.len
  unfold M fuelFor
  rw [h.pos, h.tags, hp, ht, hr] at *
  simp only [List.length_nil]
  omega

theorem decodeTiff_NF (tb : Tables) (rest : Bytes) (buffered : Bool) (h : Hdr) : NF (decodeTiff tb rest buffered h) := by
  unfold Exif.decodeTiff
  dsimp only
  split
  · exact NF.ok _
  · rename_i r1 hd
    have hfr := Fr.discard { rest := rest, po := 0, exifLength := 4 * 1024 * 1024, buffered := buffered, ex := { imageType := h.imageType } } h.firstIfd
    rw [hd] at hfr
    have := fresh_fuel rest _ rfl rfl rfl r1 hfr
    exact readIfd_NF _ _ _ _ this.1 this.2

theorem decodeJPEGIfd_NF (tb : Tables) (rest : Bytes) (buffered : Bool) (h : Hdr) : NF (decodeJPEGIfd tb rest buffered h) := by
  unfold Exif.decodeJPEGIfd
  dsimp only
  have hfr := Fr.discard { rest := rest, po := 0, exifLength := h.exifLength, buffered := buffered, ex := { imageType := h.imageType } } h.firstIfd
  have := fresh_fuel rest _ rfl rfl rfl _ hfr
  apply NF.bind (readIfd_NF _ _ _ _ this.1 this.2)
  intro p
  split <;> exact NF.ok _

theorem decodeIfd_NF (tb : Tables) (rest : Bytes) (buffered : Bool) (h : Hdr) : NF (decodeIfd tb rest buffered h) := by
  unfold Exif.decodeIfd
  dsimp only
  have := fresh_fuel rest { rest := rest, po := h.firstIfd, exifLength := h.exifLength, buffered := buffered, ex := { imageType := h.imageType } } rfl rfl rfl _ (Fr.refl _)
  exact readIfd_NF _ _ _ _ this.1 this.2

end Imeta.Exif
