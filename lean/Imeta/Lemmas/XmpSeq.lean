/-
  C13: array items.  Inside rdf:Seq / rdf:Bag / rdf:Alt every item element `<rdf:li>v</rdf:li>` is reported as one token of
  the array's property with exactly the value v, in document order, and the walk ends at the array's stop tag.
-/
import Imeta.Lemmas.XmpElem
namespace Imeta.Xmp
open Imeta Imeta.Props.C13

/-- what the theorem asks of an item element (as `Elem.OK`, without the conditions on the property) -/
structure Elem.Item (e : Elem) : Prop where
  h0 : e.n0 ≠ 47 ∧ e.n0 ≠ 63
  hns : ∀ x ∈ e.n0 :: e.ns, (x == 58) = false
  hname : ∀ x ∈ e.name, isTerm x = false
  hfit : e.ns.length + e.name.length + 5 ≤ 128
  hc : isWs e.c = false
  hv : ∀ x ∈ e.v, (x == 60) = false
  hvwin : e.v.length < 1536

theorem readSeqTags_unfold (f : Nat) (parent : Tag) : readSeqTags parent (f + 1) = (do
    let tag ← readTagHeader parent
    if isEndTag tag parent.self then pure ()
    else if tag.t == .start then do
      let len ← (fun st => (.ok st.rest.length, st) : M Nat)
      let _ ← attrLoop (some parent.parent) (len + 2) tag
      let v ← readTagValue 8 512 0 0
      emit { pt := 2, parent := parent.self, self := parent.parent, val := v }
      readSeqTags parent f
    else readSeqTags parent f) := by
  rfl

/-- one item: two rounds of the walk (the item's start tag and value, then its stop tag) -/
theorem readSeqTags_item_exact (parent : Tag) (st : St) (ws : Bytes) (e : Elem) (R : Bytes) (f : Nat)
    (hr : st.rest = ws ++ e.bytes ++ R) (hws : ∀ x ∈ ws, (x == 60) = false) (hwin : ws.length + 128 ≤ W) (ok : e.Item)
    (hne : (e.prop == parent.self) = false) :
    readSeqTags parent (f + 2) st =
      readSeqTags parent f { rest := R, a := false, toks := { pt := 2, parent := parent.self, self := parent.parent, val := e.v } :: st.toks } := by
  rw [readSeqTags_unfold (f + 1) parent]
  have hr1 : st.rest = ws ++ 60 :: ((e.n0 :: e.ns) ++ 58 :: (e.name ++ 62 :: (e.v ++ e.close ++ R))) := by
    rw [hr]; simp [Elem.bytes]
  have h4 : 4 < st.rest.length := by rw [hr1]; simp [Elem.v]; omega
  rw [bindOk _ _ _ _ _ (readTagHeader_start_exact parent st ws e.n0 e.ns e.name _ hr1 hws hwin ok.h0 ok.hns ok.hname (by have := ok.hfit; omega) h4)]
  have he1 : isEndTag { t := .start, parent := parent.self, self := identify (e.n0 :: e.ns) e.name } parent.self = false := by
    simp [isEndTag]
  simp only [he1, Bool.false_eq_true, if_false, beq_self_eq_true, if_true]
  rw [bindOk (fun st => (.ok st.rest.length, st) : M Nat) _ _ _ _ rfl]
  rw [bindOk _ _ _ _ _ (attrLoop_noattr (some parent.parent) _ _ _ rfl)]
  have hrv : ({ st with a := false, rest := e.v ++ e.close ++ R } : St).rest = (e.c :: e.v') ++ 60 :: ((47 :: ((e.n0 :: e.ns) ++ 58 :: (e.name ++ [62]))) ++ R) := by
    simp [Elem.v, Elem.close]
  rw [bindOk _ _ _ _ _ (readTagValue_any _ e.c e.v' _ ok.hv ok.hc ok.hvwin hrv (by simp [Elem.close, Elem.v]; omega))]
  have hcl : (60 :: ((47 :: ((e.n0 :: e.ns) ++ 58 :: (e.name ++ [62]))) ++ R) : Bytes) = e.close ++ R := rfl
  rw [hcl]
  show (emit { pt := 2, parent := parent.self, self := parent.parent, val := e.v } >>= fun _ => readSeqTags parent (f + 1)) { rest := e.close ++ R, a := false, toks := st.toks } = _
  have hemit : emit { pt := 2, parent := parent.self, self := parent.parent, val := e.v }
      { rest := e.close ++ R, a := false, toks := st.toks } =
      (.ok (), { rest := e.close ++ R, a := false, toks := { pt := 2, parent := parent.self, self := parent.parent, val := e.v } :: st.toks }) := by
    simp [emit, Elem.v]
  rw [bindOk _ _ _ _ _ hemit]
  -- the item's stop tag: neither the end of the array nor a start tag
  rw [readSeqTags_unfold f parent]
  have hr2 : (e.close ++ R : Bytes) = [] ++ 60 :: 47 :: ((e.n0 :: e.ns) ++ 58 :: (e.name ++ 62 :: R)) := by simp [Elem.close]
  rw [bindOk _ _ _ _ _ (readTagHeader_stop_exact parent
    { rest := e.close ++ R, a := false, toks := { pt := 2, parent := parent.self, self := parent.parent, val := e.v } :: st.toks }
    [] e.n0 e.ns e.name R hr2 (by simp) (by unfold W; simp) ok.hns ok.hname ok.hfit)]
  unfold Elem.prop at hne
  have he2 : isEndTag { t := .stop, parent := parent.self, self := identify (e.n0 :: e.ns) e.name } parent.self = false := by
    simp [isEndTag, hne]
  simp only [he2, Bool.false_eq_true, if_false]
  have hts : ((TagT.stop == TagT.start) = true) = False := by simp
  simp only [hts, if_false]


/-- the tokens of the items (newest first): the array's own property, the array as parent -/
def pushI (parent : Tag) : List (Bytes × Elem) → List Tok → List Tok
  | [], acc => acc
  | (_, e) :: l, acc => pushI parent l ({ pt := 2, parent := parent.self, self := parent.parent, val := e.v } :: acc)

/-- **Array items in document order.**  The reader stands inside an array (`parent` = rdf:Seq / rdf:Bag / rdf:Alt below the
property `parent.parent`); the stream holds the items `<rdf:li>v</rdf:li>` (any element name other than the array's own),
each behind any run without '<', then the array's stop tag.  The walk reports exactly one token per item — the array's
property, exactly the value — in document order, consumes exactly the items and the stop tag, and ends. -/
theorem readSeqTags_items_exact (parent : Tag) (wsE : Bytes) (n0 : UInt8) (ns name R : Bytes)
    (hwsE : ∀ x ∈ wsE, (x == 60) = false) (hwinE : wsE.length + 128 ≤ W)
    (hnsE : ∀ x ∈ n0 :: ns, (x == 58) = false) (hnameE : ∀ x ∈ name, isTerm x = false) (hfitE : ns.length + name.length + 5 ≤ 128)
    (hself : identify (n0 :: ns) name = parent.self) :
    ∀ (l : List (Bytes × Elem)) (f : Nat) (st : St),
    st.rest = serE l ++ (wsE ++ 60 :: 47 :: ((n0 :: ns) ++ 58 :: (name ++ 62 :: R))) →
    (∀ p ∈ l, (∀ x ∈ p.1, (x == 60) = false) ∧ p.1.length + 128 ≤ W ∧ p.2.Item ∧ (p.2.prop == parent.self) = false) →
    readSeqTags parent (f + 1 + 2 * l.length) st = (.ok (), { rest := R, a := false, toks := pushI parent l st.toks }) := by
  intro l
  induction l with
  | nil =>
    intro f st hr _
    simp only [List.length_nil, Nat.mul_zero, Nat.add_zero, pushI]
    rw [readSeqTags_unfold f parent]
    rw [bindOk _ _ _ _ _ (readTagHeader_stop_exact parent st wsE n0 ns name R (by rw [hr]; simp [serE]) hwsE hwinE hnsE hnameE hfitE)]
    have he : isEndTag { t := .stop, parent := parent.self, self := identify (n0 :: ns) name } parent.self = true := by
      simp [isEndTag, hself]
    simp only [he, if_true]
    rfl
  | cons p l ih =>
    intro f st hr hok
    obtain ⟨ws, e⟩ := p
    have hp := hok (ws, e) (by simp)
    have hfuel : f + 1 + 2 * ((ws, e) :: l).length = (f + 1 + 2 * l.length) + 2 := by simp; omega
    rw [hfuel, readSeqTags_item_exact parent st ws e (serE l ++ (wsE ++ 60 :: 47 :: ((n0 :: ns) ++ 58 :: (name ++ 62 :: R)))) (f + 1 + 2 * l.length)
      (by rw [hr]; simp [serE]) hp.1 hp.2.1 hp.2.2.1 hp.2.2.2]
    rw [ih f _ rfl (fun q hq => hok q (List.mem_cons_of_mem _ hq))]
    rfl


/-- an element whose content starts with another tag (after any white space inside the first window) has the empty value;
the white space is consumed, the '<' is not -/
theorem readTagValue_empty (f : Nat) (st : St) (ws X : Bytes) (hr : st.rest = ws ++ 60 :: X)
    (hws : ∀ x ∈ ws, isWs x = true) (hwin : ws.length < 512) (h4 : 4 < st.rest.length) :
    readTagValue (f + 1) 512 0 0 st = (.ok [], { st with rest := 60 :: X }) := by
  unfold readTagValue
  rw [bindOk _ _ _ _ _ (peek_take 512 st (by unfold W; omega) h4)]
  simp only [beq_self_eq_true, if_true]
  have hb : st.rest.take 512 = ws ++ 60 :: (X.take (512 - ws.length - 1)) := by
    rw [hr, List.take_append, List.take_of_length_le (by omega)]
    have : 512 - ws.length = (512 - ws.length - 1) + 1 := by omega
    rw [this, List.take_succ_cons]
    simp
  rw [hb]
  have hi : idxFrom (fun b => !isWs b) (ws ++ 60 :: (X.take (512 - ws.length - 1))) 0 = ws.length :=
    idxFrom_found _ ws _ 60 0 (Nat.zero_le _) (by intro x hx; simp at hx; simp [hws x hx]) (by decide)
  have hk : idxFrom (fun x => x == 60) (ws ++ 60 :: (X.take (512 - ws.length - 1))) ws.length = ws.length :=
    idxFrom_found _ ws _ 60 ws.length (Nat.le_refl _) (by simp) rfl
  simp only [hi, hk]
  rw [if_pos (by simp)]
  show (discard ws.length >>= fun _ => pure _) st = _
  simp only [discard, bind, pure, Nat.sub_self, List.take_zero]
  congr 2
  rw [hr, List.drop_left]


/-- a tag name as the lemmas want it -/
structure Name where
  n0 : UInt8
  ns : Bytes
  name : Bytes

def Name.prop (n : Name) : Prop2 := identify (n.n0 :: n.ns) n.name
def Name.openT (n : Name) (R : Bytes) : Bytes := 60 :: ((n.n0 :: n.ns) ++ 58 :: (n.name ++ 62 :: R))
def Name.closeT (n : Name) (R : Bytes) : Bytes := 60 :: 47 :: ((n.n0 :: n.ns) ++ 58 :: (n.name ++ 62 :: R))

structure Name.OK (n : Name) : Prop where
  h0 : n.n0 ≠ 47 ∧ n.n0 ≠ 63
  hns : ∀ x ∈ n.n0 :: n.ns, (x == 58) = false
  hname : ∀ x ∈ n.name, isTerm x = false
  hfit : n.ns.length + n.name.length + 5 ≤ 128

/-- **An array property, whole.**  `ws0 <P> ws1 <A> items wsE </A> ws2 </P>` with A one of rdf:Seq / rdf:Bag / rdf:Alt and P a
property that is neither an array nor the root: one round of readTag reports exactly the items — one token each, property P,
parent A, exactly the value, in document order — consumes exactly the element, and goes on behind it. -/
theorem readTag_array_exact (parent : Tag) (st : St) (P A : Name) (ws0 ws1 wsE ws2 R : Bytes) (l : List (Bytes × Elem)) (f : Nat)
    (hr : st.rest = ws0 ++ P.openT (ws1 ++ A.openT (serE l ++ (wsE ++ A.closeT (ws2 ++ P.closeT R)))))
    (hP : P.OK) (hA : A.OK)
    (hws0 : ∀ x ∈ ws0, (x == 60) = false) (hwin0 : ws0.length + 128 ≤ W)
    (hws1 : ∀ x ∈ ws1, isWs x = true) (hwin1 : ws1.length < 512)
    (hwsE : ∀ x ∈ wsE, (x == 60) = false) (hwinE : wsE.length + 128 ≤ W)
    (hws2 : ∀ x ∈ ws2, (x == 60) = false) (hwin2 : ws2.length + 128 ≤ W)
    (hPseq : (P.prop == rdfSeq || P.prop == rdfAlt || P.prop == rdfBag) = false) (hProot : (P.prop == rootProp) = false)
    (hAseq : (A.prop == rdfSeq || A.prop == rdfAlt || A.prop == rdfBag) = true)
    (hok : ∀ p ∈ l, (∀ x ∈ p.1, (x == 60) = false) ∧ p.1.length + 128 ≤ W ∧ p.2.Item ∧ (p.2.prop == A.prop) = false) :
    readTag (f + 3 + 2 * l.length) parent st =
      readTag (f + 2 + 2 * l.length) parent
        { rest := R, a := false, toks := pushI { t := .start, parent := P.prop, self := A.prop } l st.toks } := by
  have hF : f + 3 + 2 * l.length = (f + 1 + 2 * l.length) + 1 + 1 := by omega
  have hF2 : f + 2 + 2 * l.length = (f + 1 + 2 * l.length) + 1 := by omega
  rw [hF, hF2]
  generalize hFdef : f + 1 + 2 * l.length = F
  -- the start tag of the property
  rw [readTag_unfold (F + 1) parent]
  have h4 : 4 < st.rest.length := by rw [hr]; simp [Name.openT, Name.closeT]; omega
  rw [bindOk _ _ _ _ _ (readTagHeader_start_exact parent st ws0 P.n0 P.ns P.name _ (by rw [hr]; rfl) hws0 hwin0 hP.h0 hP.hns hP.hname (by have := hP.hfit; omega) h4)]
  have he1 : isEndTag { t := .start, parent := parent.self, self := identify (P.n0 :: P.ns) P.name } parent.self = false := by
    simp [isEndTag]
  simp only [he1, Bool.false_eq_true, if_false]
  rw [bindOk (fun st => (.ok st.rest.length, st) : M Nat) _ _ _ _ rfl]
  rw [bindOk _ _ _ _ _ (attrLoop_noattr none _ _ _ rfl)]
  unfold Name.prop at hPseq hProot hAseq
  simp only [beq_self_eq_true, if_true, hPseq, Bool.false_eq_true, if_false]
  -- its value is empty: the array follows
  rw [bind_assoc3, bindOk _ _ _ _ _ (readTagValue_empty 7 _ ws1 _ rfl hws1 hwin1 (by simp [Name.openT, Name.closeT]; omega))]
  rw [bind_assoc3]
  have hemit : ∀ (s0 : St), emit { pt := 2, parent := parent.self, self := identify (P.n0 :: P.ns) P.name, val := [] } s0 = (.ok (), s0) := by
    intro s0; simp [emit]
  rw [bindOk _ _ _ _ _ (hemit _)]
  dsimp only
  -- the inner round: the array
  rw [readTag_unfold F { t := .start, parent := parent.self, self := identify (P.n0 :: P.ns) P.name }, bind_assoc3]
  rw [bindOk _ _ _ _ _ (readTagHeader_start_exact { t := .start, parent := parent.self, self := identify (P.n0 :: P.ns) P.name }
    _ [] A.n0 A.ns A.name _ rfl (by simp) (by unfold W; simp)
    hA.h0 hA.hns hA.hname (by have := hA.hfit; omega) (by simp [Name.closeT]; omega))]
  have he2 : isEndTag { t := .start, parent := identify (P.n0 :: P.ns) P.name, self := identify (A.n0 :: A.ns) A.name } (identify (P.n0 :: P.ns) P.name) = false := by
    simp [isEndTag]
  dsimp only
  simp only [he2, Bool.false_eq_true, if_false, bind_assoc3]
  rw [bindOk (fun st => (.ok st.rest.length, st) : M Nat) _ _ _ _ rfl]
  rw [bindOk _ _ _ _ _ (attrLoop_noattr none _ _ _ rfl)]
  simp only [beq_self_eq_true, if_true, hAseq, bind_assoc3]
  -- the items and the array's stop tag
  subst hFdef
  have hself : identify (A.n0 :: A.ns) A.name = ({ t := .start, parent := identify (P.n0 :: P.ns) P.name, self := identify (A.n0 :: A.ns) A.name } : Tag).self := rfl
  rw [bindOk _ _ _ _ _ (readSeqTags_items_exact { t := .start, parent := identify (P.n0 :: P.ns) P.name, self := identify (A.n0 :: A.ns) A.name }
    wsE A.n0 A.ns A.name (ws2 ++ P.closeT R) hwsE hwinE hA.hns hA.hname hA.hfit hself l f _ rfl hok)]
  rw [bindOk (pure _) _ _ _ _ rfl]
  have hrs1 : isRootStop { t := .start, parent := identify (P.n0 :: P.ns) P.name, self := identify (A.n0 :: A.ns) A.name } = false := by
    simp [isRootStop]
  simp only [hrs1, Bool.false_eq_true, if_false]
  -- the stop tag of the property, read by the next round of the inner loop
  have hF3 : f + 1 + 2 * l.length = (f + 2 * l.length) + 1 := by omega
  rw [hF3, readTag_unfold (f + 2 * l.length) { t := .start, parent := parent.self, self := identify (P.n0 :: P.ns) P.name }]
  simp only [bind_assoc3]
  rw [bindOk _ _ _ _ _ (readTagHeader_stop_exact { t := .start, parent := parent.self, self := identify (P.n0 :: P.ns) P.name }
    _ ws2 P.n0 P.ns P.name R rfl hws2 hwin2 hP.hns hP.hname hP.hfit)]
  have he3 : isEndTag { t := .stop, parent := identify (P.n0 :: P.ns) P.name, self := identify (P.n0 :: P.ns) P.name } (identify (P.n0 :: P.ns) P.name) = true := by
    simp [isEndTag]
  dsimp only
  simp only [he3, if_true]
  rw [bindOk (pure _) _ _ _ _ rfl]
  have hrs2 : isRootStop { t := .stop, parent := identify (P.n0 :: P.ns) P.name, self := identify (P.n0 :: P.ns) P.name } = false := by
    simp [isRootStop, hProot]
  simp only [hrs2, Bool.false_eq_true, if_false]
  rfl


/-- what readTagHeader does once the start of the tag is found, when white space follows the name: attributes are announced,
the white space is left for the attribute reader -/
theorem readTagHeader_after_ws (parent : Tag) (st : St) (t : TagT) (buf : Bytes) (i : Nat) (NS name X R : Bytes) (w : UInt8)
    (hf : findTagStart 16 128 0 st = (.ok (t, buf, i), st))
    (hb : buf = NS ++ 58 :: (name ++ w :: X)) (hw : isWs w = true)
    (hns : ∀ x ∈ NS, (x == 58) = false) (hname : ∀ x ∈ name, isTerm x = false)
    (hdrop : st.rest.drop (NS.length + 1 + name.length + i) = R) :
    readTagHeader parent st = (.ok { t := t, parent := parent.self, self := identify NS name }, { st with a := true, rest := R }) := by
  unfold readTagHeader
  rw [bindOk _ _ _ _ _ hf]
  have hterm : isTerm w = true := by simp [isTerm, hw]
  simp only [hb, parseTagName_exact NS name X w hns hname hterm]
  have hc : (NS ++ 58 :: (name ++ w :: X) : Bytes)[NS.length + 1 + name.length]? = some w := by
    have e : (NS ++ 58 :: (name ++ w :: X) : Bytes) = (NS ++ [58] ++ name) ++ w :: X := by simp
    have hl : (NS ++ [58] ++ name : Bytes).length = NS.length + 1 + name.length := by simp; omega
    rw [e, ← hl]; simp
  rw [bindOk _ _ _ _ _ (at_ok _ _ w st hc)]
  have hw62 : (w == 62) = false := by
    cases h : (w == 62)
    · rfl
    · have : w = 62 := by simpa using h
      rw [this] at hw; revert hw; decide
  simp only [hw62, Bool.false_eq_true, if_false, hw, if_true]
  show (setA true >>= fun _ => discard (NS.length + 1 + name.length + i) >>= fun _ => pure _) st = _
  simp only [setA, discard, bind, pure, hdrop]

/-- **Start tag with attributes.** `<ns:name` followed by white space: the start tag of `identify ns name`, attributes announced,
the stream left at the white space -/
theorem readTagHeader_startattr_exact (parent : Tag) (st : St) (ws : Bytes) (n0 : UInt8) (ns name R : Bytes) (w : UInt8)
    (hr : st.rest = ws ++ 60 :: ((n0 :: ns) ++ 58 :: (name ++ w :: R))) (hw : isWs w = true)
    (hws : ∀ x ∈ ws, (x == 60) = false) (hwin : ws.length + 128 ≤ W)
    (h0 : n0 ≠ 47 ∧ n0 ≠ 63) (hns : ∀ x ∈ n0 :: ns, (x == 58) = false) (hname : ∀ x ∈ name, isTerm x = false)
    (hfit : ns.length + name.length + 4 ≤ 128) (h4 : 4 < st.rest.length) :
    readTagHeader parent st = (.ok { t := .start, parent := parent.self, self := identify (n0 :: ns) name }, { st with a := true, rest := w :: R }) := by
  have hr' : st.rest = ws ++ 60 :: n0 :: (ns ++ 58 :: (name ++ w :: R)) := by rw [hr]; simp
  obtain ⟨m, hm, hf⟩ := findTagStart_exact ws (ns ++ 58 :: (name ++ w :: R)) n0 hws hwin 15 128 0 st hr' h4 (Nat.zero_le _) (by omega) (by unfold W at hwin; omega)
  have hc1 : (n0 == 47) = false := by simp [h0.1]
  have hc2 : (n0 == 63) = false := by simp [h0.2]
  unfold tagStartResult at hf
  rw [hc1, hc2] at hf
  simp only [Bool.false_eq_true, if_false] at hf
  have hL : st.rest.length = ws.length + 1 + ((n0 :: ns) ++ 58 :: (name ++ w :: R)).length := by rw [hr]; simp; omega
  have hAl : ((n0 :: ns) ++ 58 :: (name ++ [w]) : Bytes).length = ns.length + name.length + 3 := by simp; omega
  have hbuf : (st.rest.take m).drop (ws.length + 1) = (n0 :: ns) ++ 58 :: (name ++ w :: (R.take (m - (ws.length + 1) - (ns.length + name.length + 3)))) := by
    have e : st.rest = (ws ++ [60]) ++ ((n0 :: ns) ++ 58 :: (name ++ [w])) ++ R := by rw [hr]; simp
    have hmm : ws.length + 1 + (ns.length + name.length + 3) ≤ m := by
      have : ws.length + 1 + (ns.length + name.length + 3) ≤ st.rest.length := by rw [hL]; simp; omega
      omega
    rw [e, take_drop_prefix _ R m (ws.length + 1) (by omega) (by rw [hAl]; omega) (ws ++ [60]) (by simp), hAl]
    simp
  rw [hbuf] at hf
  refine readTagHeader_after_ws parent st .start _ (ws.length + 1) (n0 :: ns) name _ (w :: R) w hf rfl hw hns hname ?_
  rw [hr]
  have e : (ws ++ 60 :: ((n0 :: ns) ++ 58 :: (name ++ w :: R)) : Bytes) = ((ws ++ [60]) ++ ((n0 :: ns) ++ 58 :: name)) ++ w :: R := by simp
  have hl : ((ws ++ [60]) ++ ((n0 :: ns) ++ 58 :: name) : Bytes).length = (n0 :: ns).length + 1 + name.length + (ws.length + 1) := by
    simp; omega
  rw [e, ← hl, List.drop_left]

end Imeta.Xmp
