/-
  C03, part 7: from exact value bytes to a field of the record.  The random-access decoder sets a string field only from
  its own tag, and then to the tag's bytes minus trailing NUL/blank padding; every other tag leaves it alone.  With the
  refinement theorem this gives field-level statements for the streaming reader.
-/
import Imeta.Lemmas.ExifNested
namespace Imeta.Exif
open Imeta

/-- x leaves the field f of the record as it is in ex -/
def KF {α} (f : Rec → α) (ex : Rec) (x : Outcome Rec) : Prop := ∀ ex', x = .ok ex' → f ex' = f ex

theorem KF.ok {α} {f : Rec → α} {ex e : Rec} (h : f e = f ex) : KF f ex (.ok e) := by
  intro ex' h'; simp only [Outcome.ok.injEq] at h'; rw [← h']; exact h
theorem KF.ite {α} {f : Rec → α} {ex : Rec} {c : Prop} [Decidable c] {a b : Outcome Rec} (ha : c → KF f ex a) (hb : ¬c → KF f ex b) :
    KF f ex (if c then a else b) := by
  split
  · exact ha ‹_›
  · exact hb ‹_›
theorem KF.bind {α β} {f : Rec → α} {ex : Rec} {x : Outcome β} {g : β → Outcome Rec} (hg : ∀ v, KF f ex (g v)) : KF f ex (x >>= g) := by
  intro ex' h
  obtain ⟨v, _, h⟩ := bind_ok h
  exact hg v ex' h

theorem KF.ite' {α} {f : Rec → α} {ex : Rec} {c : Prop} [Decidable c] {a b : Outcome Rec} (ha : KF f ex a) (hb : KF f ex b) :
    KF f ex (if c then a else b) := KF.ite (fun _ => ha) (fun _ => hb)

/-- no condition is needed: no branch writes the field -/
macro "kf_walk0" : tactic => `(tactic| (
  repeat' (with_reducible apply KF.ite')
  all_goals repeat' (first
    | ((with_reducible apply KF.ok); rfl)
    | with_reducible apply KF.ite'
    | (with_reducible apply KF.bind; intro _)
    | split
    | dsimp only)))

set_option hygiene false in
macro "kf_walk" : tactic => `(tactic| (
  repeat' (with_reducible apply KF.ite <;> intro _)
  all_goals repeat' (first
    | ((with_reducible apply KF.ok); rfl)
    | (with_reducible apply KF.ite <;> intro _)
    | (with_reducible apply KF.bind; intro _)
    | split
    | dsimp only
    | (exfalso; apply hk; constructor <;> first | trivial | assumption))))

set_option maxRecDepth 100000 in
theorem software_ifd0 (tb : Tables) (ex : Rec) (t : Tag) (buf : Bytes) (err : Option ErrKind)
    (hk : ¬(t.id = 0x0131)) : KF (fun e => e.software) ex (parseIfd0V tb ex t buf err) := by
  have hk : ¬(True ∧ t.id = 0x0131) := fun h => hk h.2
  unfold parseIfd0V
  kf_walk

set_option maxRecDepth 100000 in
theorem software_exif (ex : Rec) (t : Tag) (buf : Bytes) (err : Option ErrKind) :
    KF (fun e => e.software) ex (parseExifIfdV ex t buf err) := by
  unfold parseExifIfdV
  kf_walk0

set_option maxRecDepth 100000 in
theorem software_gps (ex : Rec) (t : Tag) (buf : Bytes) (err : Option ErrKind) :
    KF (fun e => e.software) ex (parseGpsIfdV ex t buf err) := by
  unfold parseGpsIfdV
  kf_walk0

theorem software_other (tb : Tables) (ex : Rec) (t : Tag) (buf : Bytes) (err : Option ErrKind)
    (hk : ¬(t.ifd = ifd0 ∧ t.id = 0x0131)) : KF (fun e => e.software) ex (parseTagV tb ex t buf err) := by
  unfold parseTagV
  apply KF.ite
  · intro h0; exact software_ifd0 tb ex t buf err (fun e => hk ⟨h0, e⟩)
  · intro _
    apply KF.ite (fun _ => software_exif ex t buf err)
    intro _
    exact KF.ite (fun _ => software_gps ex t buf err) (fun _ => KF.ok rfl)

/-- the Software tag itself: an out-of-line ASCII value becomes the field, minus trailing NUL / blank padding -/
theorem software_writer (tb : Tables) (ex ex' : Rec) (t : Tag) (buf : Bytes)
    (h0 : t.ifd = ifd0) (hid : t.id = 0x0131) (hemb : t.isEmbedded = false) (hasc : isASCII t = true)
    (h : parseTagV tb ex t buf none = .ok ex') : ex'.software = trimNUL buf := by
  unfold parseTagV at h
  rw [if_pos h0] at h
  unfold parseIfd0V at h
  have e : t.id = 305 := hid
  simp only [e] at h
  simp only [show ¬ (305 = 271) by decide, show ¬ (305 = 272) by decide, show ¬ (305 = 315) by decide, show ¬ (305 = 33432) by decide,
    show ¬ (305 = 256) by decide, show ¬ (305 = 257) by decide, show ¬ (305 = 273) by decide, show ¬ (305 = 279) by decide,
    show ¬ (305 = 274) by decide, if_false, if_true] at h
  obtain ⟨s, hs, h⟩ := bind_ok h
  simp only [Outcome.ok.injEq] at h
  rw [← h]
  show s = trimNUL buf
  unfold parseStringV parseBytesV at hs
  rw [if_neg (by simp [hemb]), if_pos hasc] at hs
  obtain ⟨s', hs', hs⟩ := bind_ok hs
  simp only [Bool.false_and, Bool.false_eq_true, if_false, Outcome.ok.injEq] at hs' hs
  rw [← hs, ← hs']

/-- the random-access decoder over a list of tags none of which writes the field leaves it alone -/
theorem idealRun_keeps {α} (tb : Tables) (F : Bytes) (f : Rec → α) (P : Tag → Prop)
    (hother : ∀ ex t, ¬ P t → KF f ex (idealStep tb F ex t)) :
    ∀ (ts : List Tag) (ex exF : Rec), (∀ t ∈ ts, ¬ P t) → idealRun tb F ex ts = .ok exF → f exF = f ex := by
  intro ts
  induction ts with
  | nil => intro ex exF _ h; unfold idealRun at h; simp only [Outcome.ok.injEq] at h; rw [h]
  | cons t ts ih =>
    intro ex exF hP h
    unfold idealRun at h
    obtain ⟨e1, h1, h⟩ := bind_ok h
    rw [ih e1 exF (fun x hx => hP x (List.mem_cons_of_mem _ hx)) h]
    exact hother ex t (hP t (by simp)) e1 h1

/-- ... and the last tag that does write it decides it -/
theorem idealRun_last {α} (tb : Tables) (F : Bytes) (f : Rec → α) (P : Tag → Prop)
    (hother : ∀ ex t, ¬ P t → KF f ex (idealStep tb F ex t)) :
    ∀ (pre : List Tag) (a : Tag) (post : List Tag) (ex exF : Rec), (∀ t ∈ post, ¬ P t) →
    idealRun tb F ex (pre ++ a :: post) = .ok exF →
    ∃ exPre exA, idealRun tb F ex pre = .ok exPre ∧ idealStep tb F exPre a = .ok exA ∧ f exF = f exA := by
  intro pre
  induction pre with
  | nil =>
    intro a post ex exF hP h
    show ∃ exPre exA, idealRun tb F ex [] = .ok exPre ∧ _
    simp only [List.nil_append] at h
    unfold idealRun at h
    obtain ⟨e1, h1, h⟩ := bind_ok h
    exact ⟨ex, e1, rfl, h1, idealRun_keeps tb F f P hother post e1 exF hP h⟩
  | cons t pre ih =>
    intro a post ex exF hP h
    simp only [List.cons_append] at h
    unfold idealRun at h
    obtain ⟨e1, h1, h⟩ := bind_ok h
    obtain ⟨exPre, exA, h2, h3, h4⟩ := ih a post e1 exF hP h
    refine ⟨exPre, exA, ?_, h3, h4⟩
    unfold idealRun
    rw [h1]; exact h2

/-- **Software, end to end.**  If the record so far is what the random-access decoder makes of the parsed tags (`Exact`),
and a is the last Software tag (IFD0, 0x0131) among them, ASCII and out of line, then the Software field is exactly the
bytes a points at in F minus trailing NUL / blank padding. -/
theorem software_exact {tb : Tables} {ex0 : Rec} {F : Bytes} {r : R} (he : Exact tb ex0 F r) (pre post : List Tag) (a : Tag)
    (hsplit : r.parsed = pre ++ a :: post) (h0 : a.ifd = ifd0) (hid : a.id = 0x0131) (hemb : a.isEmbedded = false)
    (hasc : isASCII a = true) (hpost : ∀ t ∈ post, ¬(t.ifd = ifd0 ∧ t.id = 0x0131)) :
    r.ex.software = trimNUL (slice F a) := by
  have href := he.ref
  rw [hsplit] at href
  obtain ⟨exPre, exA, _, hA, hf⟩ := idealRun_last tb F (fun e => e.software) (fun t => t.ifd = ifd0 ∧ t.id = 0x0131)
    (fun ex t hk => software_other tb ex t (slice F t) none hk) pre a post ex0 r.ex hpost href
  rw [hf]
  exact software_writer tb exPre exA a (slice F a) h0 hid hemb hasc hA

end Imeta.Exif
