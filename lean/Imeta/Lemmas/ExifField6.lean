/-
  C03, part 7f: the remaining single-writer fields end to end (generated like ExifField3/4): the field is what its value
  parser (`parse…V`, a pure function proved equal to the streaming parser in Lemmas/ExifValue) makes of the entry and of
  exactly the bytes F[a.off, a.off+a.size) — dates, sub-second and offset-time fields, lens info, the GPS fields.
-/
import Imeta.Lemmas.ExifField5
namespace Imeta.Exif
open Imeta

set_option maxRecDepth 100000 in
theorem modifyDate_ifd0 (tb : Tables) (ex : Rec) (t : Tag) (buf : Bytes) (err : Option ErrKind)
    (hk : ¬(t.id = 0x0132)) : KF (fun e => e.modifyDate) ex (parseIfd0V tb ex t buf err) := by
  have hk : ¬(True ∧ t.id = 0x0132) := fun h => hk h.2
  unfold parseIfd0V
  kf_walk

set_option maxRecDepth 100000 in
theorem modifyDate_exif (ex : Rec) (t : Tag) (buf : Bytes) (err : Option ErrKind) :
    KF (fun e => e.modifyDate) ex (parseExifIfdV ex t buf err) := by
  unfold parseExifIfdV
  kf_walk0

set_option maxRecDepth 100000 in
theorem modifyDate_gps (ex : Rec) (t : Tag) (buf : Bytes) (err : Option ErrKind) :
    KF (fun e => e.modifyDate) ex (parseGpsIfdV ex t buf err) := by
  unfold parseGpsIfdV
  kf_walk0

theorem modifyDate_other (tb : Tables) (ex : Rec) (t : Tag) (buf : Bytes) (err : Option ErrKind)
    (hk : ¬(t.ifd = ifd0 ∧ t.id = 0x0132)) : KF (fun e => e.modifyDate) ex (parseTagV tb ex t buf err) := by
  unfold parseTagV
  exact KF.ite (fun h0 => modifyDate_ifd0 tb ex t buf err (fun e => hk ⟨h0, e⟩)) (fun _ => KF.ite (fun _ => modifyDate_exif ex t buf err) (fun _ => KF.ite (fun _ => modifyDate_gps ex t buf err) (fun _ => KF.ok rfl)))

theorem modifyDate_writer (tb : Tables) (ex ex' : Rec) (t : Tag) (buf : Bytes)
    (h0 : t.ifd = ifd0) (hid : t.id = 0x0132)
    (h : parseTagV tb ex t buf none = .ok ex') : parseDateV t buf none = .ok ex'.modifyDate := by
  unfold parseTagV at h
  rw [if_pos h0] at h
  unfold parseIfd0V at h
  have e : t.id = 306 := hid
  simp only [e] at h
  simp only [show ¬ (306 = 271) by decide, show ¬ (306 = 272) by decide, show ¬ (306 = 315) by decide, show ¬ (306 = 33432) by decide, show ¬ (306 = 256) by decide, show ¬ (306 = 257) by decide, show ¬ (306 = 273) by decide, show ¬ (306 = 279) by decide, show ¬ (306 = 274) by decide, show ¬ (306 = 305) by decide, show ¬ (306 = 270) by decide, if_false, if_true] at h
  obtain ⟨s, hs, h⟩ := bind_ok h
  simp only [Outcome.ok.injEq] at h
  rw [← h, hs]
  rfl

/-- **modifyDate, end to end**: the value its parser makes of the last such entry and exactly its bytes in F -/
theorem modifyDate_exact {tb : Tables} {ex0 : Rec} {F : Bytes} {r : R} (he : Exact tb ex0 F r) (pre post : List Tag) (a : Tag)
    (hsplit : r.parsed = pre ++ a :: post) (h0 : a.ifd = ifd0) (hid : a.id = 0x0132)
    (hpost : ∀ t ∈ post, ¬(t.ifd = ifd0 ∧ t.id = 0x0132)) :
    parseDateV a (slice F a) none = .ok r.ex.modifyDate := by
  have href := he.ref
  rw [hsplit] at href
  obtain ⟨exPre, exA, _, hA, hf⟩ := idealRun_last tb F (fun e => e.modifyDate) (fun t => t.ifd = ifd0 ∧ t.id = 0x0132)
    (fun ex t hk => modifyDate_other tb ex t (slice F t) none hk) pre a post ex0 r.ex hpost href
  rw [hf]
  exact modifyDate_writer tb exPre exA a (slice F a) h0 hid hA

set_option maxRecDepth 100000 in
theorem lensInfo_ifd0 (tb : Tables) (ex : Rec) (t : Tag) (buf : Bytes) (err : Option ErrKind) :
    KF (fun e => e.lensInfo) ex (parseIfd0V tb ex t buf err) := by
  unfold parseIfd0V
  kf_walk0

set_option maxRecDepth 100000 in
theorem lensInfo_exif (ex : Rec) (t : Tag) (buf : Bytes) (err : Option ErrKind)
    (hk : ¬(t.id = 0xa432)) : KF (fun e => e.lensInfo) ex (parseExifIfdV ex t buf err) := by
  have hk : ¬(True ∧ t.id = 0xa432) := fun h => hk h.2
  unfold parseExifIfdV
  kf_walk

set_option maxRecDepth 100000 in
theorem lensInfo_gps (ex : Rec) (t : Tag) (buf : Bytes) (err : Option ErrKind) :
    KF (fun e => e.lensInfo) ex (parseGpsIfdV ex t buf err) := by
  unfold parseGpsIfdV
  kf_walk0

theorem lensInfo_other (tb : Tables) (ex : Rec) (t : Tag) (buf : Bytes) (err : Option ErrKind)
    (hk : ¬(t.ifd = exifIFD ∧ t.id = 0xa432)) : KF (fun e => e.lensInfo) ex (parseTagV tb ex t buf err) := by
  unfold parseTagV
  exact KF.ite (fun _ => lensInfo_ifd0 tb ex t buf err) (fun _ => KF.ite (fun h3 => lensInfo_exif ex t buf err (fun e => hk ⟨h3, e⟩)) (fun _ => KF.ite (fun _ => lensInfo_gps ex t buf err) (fun _ => KF.ok rfl)))

theorem lensInfo_writer (tb : Tables) (ex ex' : Rec) (t : Tag) (buf : Bytes)
    (h0 : t.ifd = exifIFD) (hid : t.id = 0xa432)
    (h : parseTagV tb ex t buf none = .ok ex') : parseLensInfoV t buf none = .ok ex'.lensInfo := by
  unfold parseTagV at h
  rw [if_neg (by rw [h0]; decide), if_pos h0] at h
  unfold parseExifIfdV at h
  have e : t.id = 42034 := hid
  simp only [e] at h
  simp only [show ¬ (42034 = 42035) by decide, show ¬ (42034 = 42036) by decide, show ¬ (42034 = 42037) by decide, show ¬ (42034 = 42032) by decide, show ¬ (42034 = 42033) by decide, show ¬ (42034 = 40962) by decide, show ¬ (42034 = 40963) by decide, show ¬ (42034 = 33434) by decide, show ¬ (42034 = 37378) by decide, show ¬ (42034 = 33437) by decide, show ¬ (42034 = 34850) by decide, show ¬ (42034 = 37380) by decide, show ¬ (42034 = 41986) by decide, show ¬ (42034 = 37383) by decide, show ¬ (42034 = 34855) by decide, show ¬ (42034 = 37385) by decide, show ¬ (42034 = 37386 ∨ 42034 = 41989) by decide, if_false, if_true] at h
  obtain ⟨s, hs, h⟩ := bind_ok h
  simp only [Outcome.ok.injEq] at h
  rw [← h, hs]
  rfl

/-- **lensInfo, end to end**: the value its parser makes of the last such entry and exactly its bytes in F -/
theorem lensInfo_exact {tb : Tables} {ex0 : Rec} {F : Bytes} {r : R} (he : Exact tb ex0 F r) (pre post : List Tag) (a : Tag)
    (hsplit : r.parsed = pre ++ a :: post) (h0 : a.ifd = exifIFD) (hid : a.id = 0xa432)
    (hpost : ∀ t ∈ post, ¬(t.ifd = exifIFD ∧ t.id = 0xa432)) :
    parseLensInfoV a (slice F a) none = .ok r.ex.lensInfo := by
  have href := he.ref
  rw [hsplit] at href
  obtain ⟨exPre, exA, _, hA, hf⟩ := idealRun_last tb F (fun e => e.lensInfo) (fun t => t.ifd = exifIFD ∧ t.id = 0xa432)
    (fun ex t hk => lensInfo_other tb ex t (slice F t) none hk) pre a post ex0 r.ex hpost href
  rw [hf]
  exact lensInfo_writer tb exPre exA a (slice F a) h0 hid hA

set_option maxRecDepth 100000 in
theorem dateTimeOriginal_ifd0 (tb : Tables) (ex : Rec) (t : Tag) (buf : Bytes) (err : Option ErrKind) :
    KF (fun e => e.dateTimeOriginal) ex (parseIfd0V tb ex t buf err) := by
  unfold parseIfd0V
  kf_walk0

set_option maxRecDepth 100000 in
theorem dateTimeOriginal_exif (ex : Rec) (t : Tag) (buf : Bytes) (err : Option ErrKind)
    (hk : ¬(t.id = 0x9003)) : KF (fun e => e.dateTimeOriginal) ex (parseExifIfdV ex t buf err) := by
  have hk : ¬(True ∧ t.id = 0x9003) := fun h => hk h.2
  unfold parseExifIfdV
  kf_walk

set_option maxRecDepth 100000 in
theorem dateTimeOriginal_gps (ex : Rec) (t : Tag) (buf : Bytes) (err : Option ErrKind) :
    KF (fun e => e.dateTimeOriginal) ex (parseGpsIfdV ex t buf err) := by
  unfold parseGpsIfdV
  kf_walk0

theorem dateTimeOriginal_other (tb : Tables) (ex : Rec) (t : Tag) (buf : Bytes) (err : Option ErrKind)
    (hk : ¬(t.ifd = exifIFD ∧ t.id = 0x9003)) : KF (fun e => e.dateTimeOriginal) ex (parseTagV tb ex t buf err) := by
  unfold parseTagV
  exact KF.ite (fun _ => dateTimeOriginal_ifd0 tb ex t buf err) (fun _ => KF.ite (fun h3 => dateTimeOriginal_exif ex t buf err (fun e => hk ⟨h3, e⟩)) (fun _ => KF.ite (fun _ => dateTimeOriginal_gps ex t buf err) (fun _ => KF.ok rfl)))

theorem dateTimeOriginal_writer (tb : Tables) (ex ex' : Rec) (t : Tag) (buf : Bytes)
    (h0 : t.ifd = exifIFD) (hid : t.id = 0x9003)
    (h : parseTagV tb ex t buf none = .ok ex') : parseDateV t buf none = .ok ex'.dateTimeOriginal := by
  unfold parseTagV at h
  rw [if_neg (by rw [h0]; decide), if_pos h0] at h
  unfold parseExifIfdV at h
  have e : t.id = 36867 := hid
  simp only [e] at h
  simp only [show ¬ (36867 = 42035) by decide, show ¬ (36867 = 42036) by decide, show ¬ (36867 = 42037) by decide, show ¬ (36867 = 42032) by decide, show ¬ (36867 = 42033) by decide, show ¬ (36867 = 40962) by decide, show ¬ (36867 = 40963) by decide, show ¬ (36867 = 33434) by decide, show ¬ (36867 = 37378) by decide, show ¬ (36867 = 33437) by decide, show ¬ (36867 = 34850) by decide, show ¬ (36867 = 37380) by decide, show ¬ (36867 = 41986) by decide, show ¬ (36867 = 37383) by decide, show ¬ (36867 = 34855) by decide, show ¬ (36867 = 37385) by decide, show ¬ (36867 = 37386 ∨ 36867 = 41989) by decide, show ¬ (36867 = 42034) by decide, if_false, if_true] at h
  obtain ⟨s, hs, h⟩ := bind_ok h
  simp only [Outcome.ok.injEq] at h
  rw [← h, hs]
  rfl

/-- **dateTimeOriginal, end to end**: the value its parser makes of the last such entry and exactly its bytes in F -/
theorem dateTimeOriginal_exact {tb : Tables} {ex0 : Rec} {F : Bytes} {r : R} (he : Exact tb ex0 F r) (pre post : List Tag) (a : Tag)
    (hsplit : r.parsed = pre ++ a :: post) (h0 : a.ifd = exifIFD) (hid : a.id = 0x9003)
    (hpost : ∀ t ∈ post, ¬(t.ifd = exifIFD ∧ t.id = 0x9003)) :
    parseDateV a (slice F a) none = .ok r.ex.dateTimeOriginal := by
  have href := he.ref
  rw [hsplit] at href
  obtain ⟨exPre, exA, _, hA, hf⟩ := idealRun_last tb F (fun e => e.dateTimeOriginal) (fun t => t.ifd = exifIFD ∧ t.id = 0x9003)
    (fun ex t hk => dateTimeOriginal_other tb ex t (slice F t) none hk) pre a post ex0 r.ex hpost href
  rw [hf]
  exact dateTimeOriginal_writer tb exPre exA a (slice F a) h0 hid hA

set_option maxRecDepth 100000 in
theorem createDate_ifd0 (tb : Tables) (ex : Rec) (t : Tag) (buf : Bytes) (err : Option ErrKind) :
    KF (fun e => e.createDate) ex (parseIfd0V tb ex t buf err) := by
  unfold parseIfd0V
  kf_walk0

set_option maxRecDepth 100000 in
theorem createDate_exif (ex : Rec) (t : Tag) (buf : Bytes) (err : Option ErrKind)
    (hk : ¬(t.id = 0x9004)) : KF (fun e => e.createDate) ex (parseExifIfdV ex t buf err) := by
  have hk : ¬(True ∧ t.id = 0x9004) := fun h => hk h.2
  unfold parseExifIfdV
  kf_walk

set_option maxRecDepth 100000 in
theorem createDate_gps (ex : Rec) (t : Tag) (buf : Bytes) (err : Option ErrKind) :
    KF (fun e => e.createDate) ex (parseGpsIfdV ex t buf err) := by
  unfold parseGpsIfdV
  kf_walk0

theorem createDate_other (tb : Tables) (ex : Rec) (t : Tag) (buf : Bytes) (err : Option ErrKind)
    (hk : ¬(t.ifd = exifIFD ∧ t.id = 0x9004)) : KF (fun e => e.createDate) ex (parseTagV tb ex t buf err) := by
  unfold parseTagV
  exact KF.ite (fun _ => createDate_ifd0 tb ex t buf err) (fun _ => KF.ite (fun h3 => createDate_exif ex t buf err (fun e => hk ⟨h3, e⟩)) (fun _ => KF.ite (fun _ => createDate_gps ex t buf err) (fun _ => KF.ok rfl)))

theorem createDate_writer (tb : Tables) (ex ex' : Rec) (t : Tag) (buf : Bytes)
    (h0 : t.ifd = exifIFD) (hid : t.id = 0x9004)
    (h : parseTagV tb ex t buf none = .ok ex') : parseDateV t buf none = .ok ex'.createDate := by
  unfold parseTagV at h
  rw [if_neg (by rw [h0]; decide), if_pos h0] at h
  unfold parseExifIfdV at h
  have e : t.id = 36868 := hid
  simp only [e] at h
  simp only [show ¬ (36868 = 42035) by decide, show ¬ (36868 = 42036) by decide, show ¬ (36868 = 42037) by decide, show ¬ (36868 = 42032) by decide, show ¬ (36868 = 42033) by decide, show ¬ (36868 = 40962) by decide, show ¬ (36868 = 40963) by decide, show ¬ (36868 = 33434) by decide, show ¬ (36868 = 37378) by decide, show ¬ (36868 = 33437) by decide, show ¬ (36868 = 34850) by decide, show ¬ (36868 = 37380) by decide, show ¬ (36868 = 41986) by decide, show ¬ (36868 = 37383) by decide, show ¬ (36868 = 34855) by decide, show ¬ (36868 = 37385) by decide, show ¬ (36868 = 37386 ∨ 36868 = 41989) by decide, show ¬ (36868 = 42034) by decide, show ¬ (36868 = 36867) by decide, if_false, if_true] at h
  obtain ⟨s, hs, h⟩ := bind_ok h
  simp only [Outcome.ok.injEq] at h
  rw [← h, hs]
  rfl

/-- **createDate, end to end**: the value its parser makes of the last such entry and exactly its bytes in F -/
theorem createDate_exact {tb : Tables} {ex0 : Rec} {F : Bytes} {r : R} (he : Exact tb ex0 F r) (pre post : List Tag) (a : Tag)
    (hsplit : r.parsed = pre ++ a :: post) (h0 : a.ifd = exifIFD) (hid : a.id = 0x9004)
    (hpost : ∀ t ∈ post, ¬(t.ifd = exifIFD ∧ t.id = 0x9004)) :
    parseDateV a (slice F a) none = .ok r.ex.createDate := by
  have href := he.ref
  rw [hsplit] at href
  obtain ⟨exPre, exA, _, hA, hf⟩ := idealRun_last tb F (fun e => e.createDate) (fun t => t.ifd = exifIFD ∧ t.id = 0x9004)
    (fun ex t hk => createDate_other tb ex t (slice F t) none hk) pre a post ex0 r.ex hpost href
  rw [hf]
  exact createDate_writer tb exPre exA a (slice F a) h0 hid hA

set_option maxRecDepth 100000 in
theorem subSec_ifd0 (tb : Tables) (ex : Rec) (t : Tag) (buf : Bytes) (err : Option ErrKind) :
    KF (fun e => e.subSec) ex (parseIfd0V tb ex t buf err) := by
  unfold parseIfd0V
  kf_walk0

set_option maxRecDepth 100000 in
theorem subSec_exif (ex : Rec) (t : Tag) (buf : Bytes) (err : Option ErrKind)
    (hk : ¬(t.id = 0x9290)) : KF (fun e => e.subSec) ex (parseExifIfdV ex t buf err) := by
  have hk : ¬(True ∧ t.id = 0x9290) := fun h => hk h.2
  unfold parseExifIfdV
  kf_walk

set_option maxRecDepth 100000 in
theorem subSec_gps (ex : Rec) (t : Tag) (buf : Bytes) (err : Option ErrKind) :
    KF (fun e => e.subSec) ex (parseGpsIfdV ex t buf err) := by
  unfold parseGpsIfdV
  kf_walk0

theorem subSec_other (tb : Tables) (ex : Rec) (t : Tag) (buf : Bytes) (err : Option ErrKind)
    (hk : ¬(t.ifd = exifIFD ∧ t.id = 0x9290)) : KF (fun e => e.subSec) ex (parseTagV tb ex t buf err) := by
  unfold parseTagV
  exact KF.ite (fun _ => subSec_ifd0 tb ex t buf err) (fun _ => KF.ite (fun h3 => subSec_exif ex t buf err (fun e => hk ⟨h3, e⟩)) (fun _ => KF.ite (fun _ => subSec_gps ex t buf err) (fun _ => KF.ok rfl)))

theorem subSec_writer (tb : Tables) (ex ex' : Rec) (t : Tag) (buf : Bytes)
    (h0 : t.ifd = exifIFD) (hid : t.id = 0x9290)
    (h : parseTagV tb ex t buf none = .ok ex') : parseSubSecV t buf none = .ok ex'.subSec := by
  unfold parseTagV at h
  rw [if_neg (by rw [h0]; decide), if_pos h0] at h
  unfold parseExifIfdV at h
  have e : t.id = 37520 := hid
  simp only [e] at h
  simp only [show ¬ (37520 = 42035) by decide, show ¬ (37520 = 42036) by decide, show ¬ (37520 = 42037) by decide, show ¬ (37520 = 42032) by decide, show ¬ (37520 = 42033) by decide, show ¬ (37520 = 40962) by decide, show ¬ (37520 = 40963) by decide, show ¬ (37520 = 33434) by decide, show ¬ (37520 = 37378) by decide, show ¬ (37520 = 33437) by decide, show ¬ (37520 = 34850) by decide, show ¬ (37520 = 37380) by decide, show ¬ (37520 = 41986) by decide, show ¬ (37520 = 37383) by decide, show ¬ (37520 = 34855) by decide, show ¬ (37520 = 37385) by decide, show ¬ (37520 = 37386 ∨ 37520 = 41989) by decide, show ¬ (37520 = 42034) by decide, show ¬ (37520 = 36867) by decide, show ¬ (37520 = 36868) by decide, if_false, if_true] at h
  obtain ⟨s, hs, h⟩ := bind_ok h
  simp only [Outcome.ok.injEq] at h
  rw [← h, hs]
  rfl

/-- **subSec, end to end**: the value its parser makes of the last such entry and exactly its bytes in F -/
theorem subSec_exact {tb : Tables} {ex0 : Rec} {F : Bytes} {r : R} (he : Exact tb ex0 F r) (pre post : List Tag) (a : Tag)
    (hsplit : r.parsed = pre ++ a :: post) (h0 : a.ifd = exifIFD) (hid : a.id = 0x9290)
    (hpost : ∀ t ∈ post, ¬(t.ifd = exifIFD ∧ t.id = 0x9290)) :
    parseSubSecV a (slice F a) none = .ok r.ex.subSec := by
  have href := he.ref
  rw [hsplit] at href
  obtain ⟨exPre, exA, _, hA, hf⟩ := idealRun_last tb F (fun e => e.subSec) (fun t => t.ifd = exifIFD ∧ t.id = 0x9290)
    (fun ex t hk => subSec_other tb ex t (slice F t) none hk) pre a post ex0 r.ex hpost href
  rw [hf]
  exact subSec_writer tb exPre exA a (slice F a) h0 hid hA

set_option maxRecDepth 100000 in
theorem subSecOriginal_ifd0 (tb : Tables) (ex : Rec) (t : Tag) (buf : Bytes) (err : Option ErrKind) :
    KF (fun e => e.subSecOriginal) ex (parseIfd0V tb ex t buf err) := by
  unfold parseIfd0V
  kf_walk0

set_option maxRecDepth 100000 in
theorem subSecOriginal_exif (ex : Rec) (t : Tag) (buf : Bytes) (err : Option ErrKind)
    (hk : ¬(t.id = 0x9291)) : KF (fun e => e.subSecOriginal) ex (parseExifIfdV ex t buf err) := by
  have hk : ¬(True ∧ t.id = 0x9291) := fun h => hk h.2
  unfold parseExifIfdV
  kf_walk

set_option maxRecDepth 100000 in
theorem subSecOriginal_gps (ex : Rec) (t : Tag) (buf : Bytes) (err : Option ErrKind) :
    KF (fun e => e.subSecOriginal) ex (parseGpsIfdV ex t buf err) := by
  unfold parseGpsIfdV
  kf_walk0

theorem subSecOriginal_other (tb : Tables) (ex : Rec) (t : Tag) (buf : Bytes) (err : Option ErrKind)
    (hk : ¬(t.ifd = exifIFD ∧ t.id = 0x9291)) : KF (fun e => e.subSecOriginal) ex (parseTagV tb ex t buf err) := by
  unfold parseTagV
  exact KF.ite (fun _ => subSecOriginal_ifd0 tb ex t buf err) (fun _ => KF.ite (fun h3 => subSecOriginal_exif ex t buf err (fun e => hk ⟨h3, e⟩)) (fun _ => KF.ite (fun _ => subSecOriginal_gps ex t buf err) (fun _ => KF.ok rfl)))

theorem subSecOriginal_writer (tb : Tables) (ex ex' : Rec) (t : Tag) (buf : Bytes)
    (h0 : t.ifd = exifIFD) (hid : t.id = 0x9291)
    (h : parseTagV tb ex t buf none = .ok ex') : parseSubSecV t buf none = .ok ex'.subSecOriginal := by
  unfold parseTagV at h
  rw [if_neg (by rw [h0]; decide), if_pos h0] at h
  unfold parseExifIfdV at h
  have e : t.id = 37521 := hid
  simp only [e] at h
  simp only [show ¬ (37521 = 42035) by decide, show ¬ (37521 = 42036) by decide, show ¬ (37521 = 42037) by decide, show ¬ (37521 = 42032) by decide, show ¬ (37521 = 42033) by decide, show ¬ (37521 = 40962) by decide, show ¬ (37521 = 40963) by decide, show ¬ (37521 = 33434) by decide, show ¬ (37521 = 37378) by decide, show ¬ (37521 = 33437) by decide, show ¬ (37521 = 34850) by decide, show ¬ (37521 = 37380) by decide, show ¬ (37521 = 41986) by decide, show ¬ (37521 = 37383) by decide, show ¬ (37521 = 34855) by decide, show ¬ (37521 = 37385) by decide, show ¬ (37521 = 37386 ∨ 37521 = 41989) by decide, show ¬ (37521 = 42034) by decide, show ¬ (37521 = 36867) by decide, show ¬ (37521 = 36868) by decide, show ¬ (37521 = 37520) by decide, if_false, if_true] at h
  obtain ⟨s, hs, h⟩ := bind_ok h
  simp only [Outcome.ok.injEq] at h
  rw [← h, hs]
  rfl

/-- **subSecOriginal, end to end**: the value its parser makes of the last such entry and exactly its bytes in F -/
theorem subSecOriginal_exact {tb : Tables} {ex0 : Rec} {F : Bytes} {r : R} (he : Exact tb ex0 F r) (pre post : List Tag) (a : Tag)
    (hsplit : r.parsed = pre ++ a :: post) (h0 : a.ifd = exifIFD) (hid : a.id = 0x9291)
    (hpost : ∀ t ∈ post, ¬(t.ifd = exifIFD ∧ t.id = 0x9291)) :
    parseSubSecV a (slice F a) none = .ok r.ex.subSecOriginal := by
  have href := he.ref
  rw [hsplit] at href
  obtain ⟨exPre, exA, _, hA, hf⟩ := idealRun_last tb F (fun e => e.subSecOriginal) (fun t => t.ifd = exifIFD ∧ t.id = 0x9291)
    (fun ex t hk => subSecOriginal_other tb ex t (slice F t) none hk) pre a post ex0 r.ex hpost href
  rw [hf]
  exact subSecOriginal_writer tb exPre exA a (slice F a) h0 hid hA

set_option maxRecDepth 100000 in
theorem subSecDigitized_ifd0 (tb : Tables) (ex : Rec) (t : Tag) (buf : Bytes) (err : Option ErrKind) :
    KF (fun e => e.subSecDigitized) ex (parseIfd0V tb ex t buf err) := by
  unfold parseIfd0V
  kf_walk0

set_option maxRecDepth 100000 in
theorem subSecDigitized_exif (ex : Rec) (t : Tag) (buf : Bytes) (err : Option ErrKind)
    (hk : ¬(t.id = 0x9292)) : KF (fun e => e.subSecDigitized) ex (parseExifIfdV ex t buf err) := by
  have hk : ¬(True ∧ t.id = 0x9292) := fun h => hk h.2
  unfold parseExifIfdV
  kf_walk

set_option maxRecDepth 100000 in
theorem subSecDigitized_gps (ex : Rec) (t : Tag) (buf : Bytes) (err : Option ErrKind) :
    KF (fun e => e.subSecDigitized) ex (parseGpsIfdV ex t buf err) := by
  unfold parseGpsIfdV
  kf_walk0

theorem subSecDigitized_other (tb : Tables) (ex : Rec) (t : Tag) (buf : Bytes) (err : Option ErrKind)
    (hk : ¬(t.ifd = exifIFD ∧ t.id = 0x9292)) : KF (fun e => e.subSecDigitized) ex (parseTagV tb ex t buf err) := by
  unfold parseTagV
  exact KF.ite (fun _ => subSecDigitized_ifd0 tb ex t buf err) (fun _ => KF.ite (fun h3 => subSecDigitized_exif ex t buf err (fun e => hk ⟨h3, e⟩)) (fun _ => KF.ite (fun _ => subSecDigitized_gps ex t buf err) (fun _ => KF.ok rfl)))

theorem subSecDigitized_writer (tb : Tables) (ex ex' : Rec) (t : Tag) (buf : Bytes)
    (h0 : t.ifd = exifIFD) (hid : t.id = 0x9292)
    (h : parseTagV tb ex t buf none = .ok ex') : parseSubSecV t buf none = .ok ex'.subSecDigitized := by
  unfold parseTagV at h
  rw [if_neg (by rw [h0]; decide), if_pos h0] at h
  unfold parseExifIfdV at h
  have e : t.id = 37522 := hid
  simp only [e] at h
  simp only [show ¬ (37522 = 42035) by decide, show ¬ (37522 = 42036) by decide, show ¬ (37522 = 42037) by decide, show ¬ (37522 = 42032) by decide, show ¬ (37522 = 42033) by decide, show ¬ (37522 = 40962) by decide, show ¬ (37522 = 40963) by decide, show ¬ (37522 = 33434) by decide, show ¬ (37522 = 37378) by decide, show ¬ (37522 = 33437) by decide, show ¬ (37522 = 34850) by decide, show ¬ (37522 = 37380) by decide, show ¬ (37522 = 41986) by decide, show ¬ (37522 = 37383) by decide, show ¬ (37522 = 34855) by decide, show ¬ (37522 = 37385) by decide, show ¬ (37522 = 37386 ∨ 37522 = 41989) by decide, show ¬ (37522 = 42034) by decide, show ¬ (37522 = 36867) by decide, show ¬ (37522 = 36868) by decide, show ¬ (37522 = 37520) by decide, show ¬ (37522 = 37521) by decide, if_false, if_true] at h
  obtain ⟨s, hs, h⟩ := bind_ok h
  simp only [Outcome.ok.injEq] at h
  rw [← h, hs]
  rfl

/-- **subSecDigitized, end to end**: the value its parser makes of the last such entry and exactly its bytes in F -/
theorem subSecDigitized_exact {tb : Tables} {ex0 : Rec} {F : Bytes} {r : R} (he : Exact tb ex0 F r) (pre post : List Tag) (a : Tag)
    (hsplit : r.parsed = pre ++ a :: post) (h0 : a.ifd = exifIFD) (hid : a.id = 0x9292)
    (hpost : ∀ t ∈ post, ¬(t.ifd = exifIFD ∧ t.id = 0x9292)) :
    parseSubSecV a (slice F a) none = .ok r.ex.subSecDigitized := by
  have href := he.ref
  rw [hsplit] at href
  obtain ⟨exPre, exA, _, hA, hf⟩ := idealRun_last tb F (fun e => e.subSecDigitized) (fun t => t.ifd = exifIFD ∧ t.id = 0x9292)
    (fun ex t hk => subSecDigitized_other tb ex t (slice F t) none hk) pre a post ex0 r.ex hpost href
  rw [hf]
  exact subSecDigitized_writer tb exPre exA a (slice F a) h0 hid hA

set_option maxRecDepth 100000 in
theorem offsetTime_ifd0 (tb : Tables) (ex : Rec) (t : Tag) (buf : Bytes) (err : Option ErrKind) :
    KF (fun e => e.offsetTime) ex (parseIfd0V tb ex t buf err) := by
  unfold parseIfd0V
  kf_walk0

set_option maxRecDepth 100000 in
theorem offsetTime_exif (ex : Rec) (t : Tag) (buf : Bytes) (err : Option ErrKind)
    (hk : ¬(t.id = 0x9010)) : KF (fun e => e.offsetTime) ex (parseExifIfdV ex t buf err) := by
  have hk : ¬(True ∧ t.id = 0x9010) := fun h => hk h.2
  unfold parseExifIfdV
  kf_walk

set_option maxRecDepth 100000 in
theorem offsetTime_gps (ex : Rec) (t : Tag) (buf : Bytes) (err : Option ErrKind) :
    KF (fun e => e.offsetTime) ex (parseGpsIfdV ex t buf err) := by
  unfold parseGpsIfdV
  kf_walk0

theorem offsetTime_other (tb : Tables) (ex : Rec) (t : Tag) (buf : Bytes) (err : Option ErrKind)
    (hk : ¬(t.ifd = exifIFD ∧ t.id = 0x9010)) : KF (fun e => e.offsetTime) ex (parseTagV tb ex t buf err) := by
  unfold parseTagV
  exact KF.ite (fun _ => offsetTime_ifd0 tb ex t buf err) (fun _ => KF.ite (fun h3 => offsetTime_exif ex t buf err (fun e => hk ⟨h3, e⟩)) (fun _ => KF.ite (fun _ => offsetTime_gps ex t buf err) (fun _ => KF.ok rfl)))

theorem offsetTime_writer (tb : Tables) (ex ex' : Rec) (t : Tag) (buf : Bytes)
    (h0 : t.ifd = exifIFD) (hid : t.id = 0x9010)
    (h : parseTagV tb ex t buf none = .ok ex') : parseOffsetTimeV t buf none = .ok ex'.offsetTime := by
  unfold parseTagV at h
  rw [if_neg (by rw [h0]; decide), if_pos h0] at h
  unfold parseExifIfdV at h
  have e : t.id = 36880 := hid
  simp only [e] at h
  simp only [show ¬ (36880 = 42035) by decide, show ¬ (36880 = 42036) by decide, show ¬ (36880 = 42037) by decide, show ¬ (36880 = 42032) by decide, show ¬ (36880 = 42033) by decide, show ¬ (36880 = 40962) by decide, show ¬ (36880 = 40963) by decide, show ¬ (36880 = 33434) by decide, show ¬ (36880 = 37378) by decide, show ¬ (36880 = 33437) by decide, show ¬ (36880 = 34850) by decide, show ¬ (36880 = 37380) by decide, show ¬ (36880 = 41986) by decide, show ¬ (36880 = 37383) by decide, show ¬ (36880 = 34855) by decide, show ¬ (36880 = 37385) by decide, show ¬ (36880 = 37386 ∨ 36880 = 41989) by decide, show ¬ (36880 = 42034) by decide, show ¬ (36880 = 36867) by decide, show ¬ (36880 = 36868) by decide, show ¬ (36880 = 37520) by decide, show ¬ (36880 = 37521) by decide, show ¬ (36880 = 37522) by decide, if_false, if_true] at h
  obtain ⟨s, hs, h⟩ := bind_ok h
  simp only [Outcome.ok.injEq] at h
  rw [← h, hs]
  rfl

/-- **offsetTime, end to end**: the value its parser makes of the last such entry and exactly its bytes in F -/
theorem offsetTime_exact {tb : Tables} {ex0 : Rec} {F : Bytes} {r : R} (he : Exact tb ex0 F r) (pre post : List Tag) (a : Tag)
    (hsplit : r.parsed = pre ++ a :: post) (h0 : a.ifd = exifIFD) (hid : a.id = 0x9010)
    (hpost : ∀ t ∈ post, ¬(t.ifd = exifIFD ∧ t.id = 0x9010)) :
    parseOffsetTimeV a (slice F a) none = .ok r.ex.offsetTime := by
  have href := he.ref
  rw [hsplit] at href
  obtain ⟨exPre, exA, _, hA, hf⟩ := idealRun_last tb F (fun e => e.offsetTime) (fun t => t.ifd = exifIFD ∧ t.id = 0x9010)
    (fun ex t hk => offsetTime_other tb ex t (slice F t) none hk) pre a post ex0 r.ex hpost href
  rw [hf]
  exact offsetTime_writer tb exPre exA a (slice F a) h0 hid hA

set_option maxRecDepth 100000 in
theorem offsetTimeOriginal_ifd0 (tb : Tables) (ex : Rec) (t : Tag) (buf : Bytes) (err : Option ErrKind) :
    KF (fun e => e.offsetTimeOriginal) ex (parseIfd0V tb ex t buf err) := by
  unfold parseIfd0V
  kf_walk0

set_option maxRecDepth 100000 in
theorem offsetTimeOriginal_exif (ex : Rec) (t : Tag) (buf : Bytes) (err : Option ErrKind)
    (hk : ¬(t.id = 0x9011)) : KF (fun e => e.offsetTimeOriginal) ex (parseExifIfdV ex t buf err) := by
  have hk : ¬(True ∧ t.id = 0x9011) := fun h => hk h.2
  unfold parseExifIfdV
  kf_walk

set_option maxRecDepth 100000 in
theorem offsetTimeOriginal_gps (ex : Rec) (t : Tag) (buf : Bytes) (err : Option ErrKind) :
    KF (fun e => e.offsetTimeOriginal) ex (parseGpsIfdV ex t buf err) := by
  unfold parseGpsIfdV
  kf_walk0

theorem offsetTimeOriginal_other (tb : Tables) (ex : Rec) (t : Tag) (buf : Bytes) (err : Option ErrKind)
    (hk : ¬(t.ifd = exifIFD ∧ t.id = 0x9011)) : KF (fun e => e.offsetTimeOriginal) ex (parseTagV tb ex t buf err) := by
  unfold parseTagV
  exact KF.ite (fun _ => offsetTimeOriginal_ifd0 tb ex t buf err) (fun _ => KF.ite (fun h3 => offsetTimeOriginal_exif ex t buf err (fun e => hk ⟨h3, e⟩)) (fun _ => KF.ite (fun _ => offsetTimeOriginal_gps ex t buf err) (fun _ => KF.ok rfl)))

theorem offsetTimeOriginal_writer (tb : Tables) (ex ex' : Rec) (t : Tag) (buf : Bytes)
    (h0 : t.ifd = exifIFD) (hid : t.id = 0x9011)
    (h : parseTagV tb ex t buf none = .ok ex') : parseOffsetTimeV t buf none = .ok ex'.offsetTimeOriginal := by
  unfold parseTagV at h
  rw [if_neg (by rw [h0]; decide), if_pos h0] at h
  unfold parseExifIfdV at h
  have e : t.id = 36881 := hid
  simp only [e] at h
  simp only [show ¬ (36881 = 42035) by decide, show ¬ (36881 = 42036) by decide, show ¬ (36881 = 42037) by decide, show ¬ (36881 = 42032) by decide, show ¬ (36881 = 42033) by decide, show ¬ (36881 = 40962) by decide, show ¬ (36881 = 40963) by decide, show ¬ (36881 = 33434) by decide, show ¬ (36881 = 37378) by decide, show ¬ (36881 = 33437) by decide, show ¬ (36881 = 34850) by decide, show ¬ (36881 = 37380) by decide, show ¬ (36881 = 41986) by decide, show ¬ (36881 = 37383) by decide, show ¬ (36881 = 34855) by decide, show ¬ (36881 = 37385) by decide, show ¬ (36881 = 37386 ∨ 36881 = 41989) by decide, show ¬ (36881 = 42034) by decide, show ¬ (36881 = 36867) by decide, show ¬ (36881 = 36868) by decide, show ¬ (36881 = 37520) by decide, show ¬ (36881 = 37521) by decide, show ¬ (36881 = 37522) by decide, show ¬ (36881 = 36880) by decide, if_false, if_true] at h
  obtain ⟨s, hs, h⟩ := bind_ok h
  simp only [Outcome.ok.injEq] at h
  rw [← h, hs]
  rfl

/-- **offsetTimeOriginal, end to end**: the value its parser makes of the last such entry and exactly its bytes in F -/
theorem offsetTimeOriginal_exact {tb : Tables} {ex0 : Rec} {F : Bytes} {r : R} (he : Exact tb ex0 F r) (pre post : List Tag) (a : Tag)
    (hsplit : r.parsed = pre ++ a :: post) (h0 : a.ifd = exifIFD) (hid : a.id = 0x9011)
    (hpost : ∀ t ∈ post, ¬(t.ifd = exifIFD ∧ t.id = 0x9011)) :
    parseOffsetTimeV a (slice F a) none = .ok r.ex.offsetTimeOriginal := by
  have href := he.ref
  rw [hsplit] at href
  obtain ⟨exPre, exA, _, hA, hf⟩ := idealRun_last tb F (fun e => e.offsetTimeOriginal) (fun t => t.ifd = exifIFD ∧ t.id = 0x9011)
    (fun ex t hk => offsetTimeOriginal_other tb ex t (slice F t) none hk) pre a post ex0 r.ex hpost href
  rw [hf]
  exact offsetTimeOriginal_writer tb exPre exA a (slice F a) h0 hid hA

set_option maxRecDepth 100000 in
theorem offsetTimeDigitized_ifd0 (tb : Tables) (ex : Rec) (t : Tag) (buf : Bytes) (err : Option ErrKind) :
    KF (fun e => e.offsetTimeDigitized) ex (parseIfd0V tb ex t buf err) := by
  unfold parseIfd0V
  kf_walk0

set_option maxRecDepth 100000 in
theorem offsetTimeDigitized_exif (ex : Rec) (t : Tag) (buf : Bytes) (err : Option ErrKind)
    (hk : ¬(t.id = 0x9012)) : KF (fun e => e.offsetTimeDigitized) ex (parseExifIfdV ex t buf err) := by
  have hk : ¬(True ∧ t.id = 0x9012) := fun h => hk h.2
  unfold parseExifIfdV
  kf_walk

set_option maxRecDepth 100000 in
theorem offsetTimeDigitized_gps (ex : Rec) (t : Tag) (buf : Bytes) (err : Option ErrKind) :
    KF (fun e => e.offsetTimeDigitized) ex (parseGpsIfdV ex t buf err) := by
  unfold parseGpsIfdV
  kf_walk0

theorem offsetTimeDigitized_other (tb : Tables) (ex : Rec) (t : Tag) (buf : Bytes) (err : Option ErrKind)
    (hk : ¬(t.ifd = exifIFD ∧ t.id = 0x9012)) : KF (fun e => e.offsetTimeDigitized) ex (parseTagV tb ex t buf err) := by
  unfold parseTagV
  exact KF.ite (fun _ => offsetTimeDigitized_ifd0 tb ex t buf err) (fun _ => KF.ite (fun h3 => offsetTimeDigitized_exif ex t buf err (fun e => hk ⟨h3, e⟩)) (fun _ => KF.ite (fun _ => offsetTimeDigitized_gps ex t buf err) (fun _ => KF.ok rfl)))

theorem offsetTimeDigitized_writer (tb : Tables) (ex ex' : Rec) (t : Tag) (buf : Bytes)
    (h0 : t.ifd = exifIFD) (hid : t.id = 0x9012)
    (h : parseTagV tb ex t buf none = .ok ex') : parseOffsetTimeV t buf none = .ok ex'.offsetTimeDigitized := by
  unfold parseTagV at h
  rw [if_neg (by rw [h0]; decide), if_pos h0] at h
  unfold parseExifIfdV at h
  have e : t.id = 36882 := hid
  simp only [e] at h
  simp only [show ¬ (36882 = 42035) by decide, show ¬ (36882 = 42036) by decide, show ¬ (36882 = 42037) by decide, show ¬ (36882 = 42032) by decide, show ¬ (36882 = 42033) by decide, show ¬ (36882 = 40962) by decide, show ¬ (36882 = 40963) by decide, show ¬ (36882 = 33434) by decide, show ¬ (36882 = 37378) by decide, show ¬ (36882 = 33437) by decide, show ¬ (36882 = 34850) by decide, show ¬ (36882 = 37380) by decide, show ¬ (36882 = 41986) by decide, show ¬ (36882 = 37383) by decide, show ¬ (36882 = 34855) by decide, show ¬ (36882 = 37385) by decide, show ¬ (36882 = 37386 ∨ 36882 = 41989) by decide, show ¬ (36882 = 42034) by decide, show ¬ (36882 = 36867) by decide, show ¬ (36882 = 36868) by decide, show ¬ (36882 = 37520) by decide, show ¬ (36882 = 37521) by decide, show ¬ (36882 = 37522) by decide, show ¬ (36882 = 36880) by decide, show ¬ (36882 = 36881) by decide, if_false, if_true] at h
  obtain ⟨s, hs, h⟩ := bind_ok h
  simp only [Outcome.ok.injEq] at h
  rw [← h, hs]
  rfl

/-- **offsetTimeDigitized, end to end**: the value its parser makes of the last such entry and exactly its bytes in F -/
theorem offsetTimeDigitized_exact {tb : Tables} {ex0 : Rec} {F : Bytes} {r : R} (he : Exact tb ex0 F r) (pre post : List Tag) (a : Tag)
    (hsplit : r.parsed = pre ++ a :: post) (h0 : a.ifd = exifIFD) (hid : a.id = 0x9012)
    (hpost : ∀ t ∈ post, ¬(t.ifd = exifIFD ∧ t.id = 0x9012)) :
    parseOffsetTimeV a (slice F a) none = .ok r.ex.offsetTimeDigitized := by
  have href := he.ref
  rw [hsplit] at href
  obtain ⟨exPre, exA, _, hA, hf⟩ := idealRun_last tb F (fun e => e.offsetTimeDigitized) (fun t => t.ifd = exifIFD ∧ t.id = 0x9012)
    (fun ex t hk => offsetTimeDigitized_other tb ex t (slice F t) none hk) pre a post ex0 r.ex hpost href
  rw [hf]
  exact offsetTimeDigitized_writer tb exPre exA a (slice F a) h0 hid hA

set_option maxRecDepth 100000 in
theorem gpsAlt_ifd0 (tb : Tables) (ex : Rec) (t : Tag) (buf : Bytes) (err : Option ErrKind) :
    KF (fun e => e.gpsAlt) ex (parseIfd0V tb ex t buf err) := by
  unfold parseIfd0V
  kf_walk0

set_option maxRecDepth 100000 in
theorem gpsAlt_exif (ex : Rec) (t : Tag) (buf : Bytes) (err : Option ErrKind) :
    KF (fun e => e.gpsAlt) ex (parseExifIfdV ex t buf err) := by
  unfold parseExifIfdV
  kf_walk0

set_option maxRecDepth 100000 in
theorem gpsAlt_gps (ex : Rec) (t : Tag) (buf : Bytes) (err : Option ErrKind)
    (hk : ¬(t.id = 0x0006)) : KF (fun e => e.gpsAlt) ex (parseGpsIfdV ex t buf err) := by
  have hk : ¬(True ∧ t.id = 0x0006) := fun h => hk h.2
  unfold parseGpsIfdV
  kf_walk

theorem gpsAlt_other (tb : Tables) (ex : Rec) (t : Tag) (buf : Bytes) (err : Option ErrKind)
    (hk : ¬(t.ifd = gpsIFD ∧ t.id = 0x0006)) : KF (fun e => e.gpsAlt) ex (parseTagV tb ex t buf err) := by
  unfold parseTagV
  exact KF.ite (fun _ => gpsAlt_ifd0 tb ex t buf err) (fun _ => KF.ite (fun _ => gpsAlt_exif ex t buf err) (fun _ => KF.ite (fun h4 => gpsAlt_gps ex t buf err (fun e => hk ⟨h4, e⟩)) (fun _ => KF.ok rfl)))

theorem gpsAlt_writer (tb : Tables) (ex ex' : Rec) (t : Tag) (buf : Bytes)
    (h0 : t.ifd = gpsIFD) (hid : t.id = 0x0006)
    (h : parseTagV tb ex t buf none = .ok ex') : parseGPSAltV t buf none = .ok ex'.gpsAlt := by
  unfold parseTagV at h
  rw [if_neg (by rw [h0]; decide), if_neg (by rw [h0]; decide), if_pos h0] at h
  unfold parseGpsIfdV at h
  have e : t.id = 6 := hid
  simp only [e] at h
  simp only [show ¬ (6 = 5) by decide, show ¬ (6 = 1) by decide, show ¬ (6 = 3) by decide, if_false, if_true] at h
  obtain ⟨s, hs, h⟩ := bind_ok h
  simp only [Outcome.ok.injEq] at h
  rw [← h, hs]
  rfl

/-- **gpsAlt, end to end**: the value its parser makes of the last such entry and exactly its bytes in F -/
theorem gpsAlt_exact {tb : Tables} {ex0 : Rec} {F : Bytes} {r : R} (he : Exact tb ex0 F r) (pre post : List Tag) (a : Tag)
    (hsplit : r.parsed = pre ++ a :: post) (h0 : a.ifd = gpsIFD) (hid : a.id = 0x0006)
    (hpost : ∀ t ∈ post, ¬(t.ifd = gpsIFD ∧ t.id = 0x0006)) :
    parseGPSAltV a (slice F a) none = .ok r.ex.gpsAlt := by
  have href := he.ref
  rw [hsplit] at href
  obtain ⟨exPre, exA, _, hA, hf⟩ := idealRun_last tb F (fun e => e.gpsAlt) (fun t => t.ifd = gpsIFD ∧ t.id = 0x0006)
    (fun ex t hk => gpsAlt_other tb ex t (slice F t) none hk) pre a post ex0 r.ex hpost href
  rw [hf]
  exact gpsAlt_writer tb exPre exA a (slice F a) h0 hid hA

set_option maxRecDepth 100000 in
theorem gpsLat_ifd0 (tb : Tables) (ex : Rec) (t : Tag) (buf : Bytes) (err : Option ErrKind) :
    KF (fun e => e.gpsLat) ex (parseIfd0V tb ex t buf err) := by
  unfold parseIfd0V
  kf_walk0

set_option maxRecDepth 100000 in
theorem gpsLat_exif (ex : Rec) (t : Tag) (buf : Bytes) (err : Option ErrKind) :
    KF (fun e => e.gpsLat) ex (parseExifIfdV ex t buf err) := by
  unfold parseExifIfdV
  kf_walk0

set_option maxRecDepth 100000 in
theorem gpsLat_gps (ex : Rec) (t : Tag) (buf : Bytes) (err : Option ErrKind)
    (hk : ¬(t.id = 0x0002)) : KF (fun e => e.gpsLat) ex (parseGpsIfdV ex t buf err) := by
  have hk : ¬(True ∧ t.id = 0x0002) := fun h => hk h.2
  unfold parseGpsIfdV
  kf_walk

theorem gpsLat_other (tb : Tables) (ex : Rec) (t : Tag) (buf : Bytes) (err : Option ErrKind)
    (hk : ¬(t.ifd = gpsIFD ∧ t.id = 0x0002)) : KF (fun e => e.gpsLat) ex (parseTagV tb ex t buf err) := by
  unfold parseTagV
  exact KF.ite (fun _ => gpsLat_ifd0 tb ex t buf err) (fun _ => KF.ite (fun _ => gpsLat_exif ex t buf err) (fun _ => KF.ite (fun h4 => gpsLat_gps ex t buf err (fun e => hk ⟨h4, e⟩)) (fun _ => KF.ok rfl)))

theorem gpsLat_writer (tb : Tables) (ex ex' : Rec) (t : Tag) (buf : Bytes)
    (h0 : t.ifd = gpsIFD) (hid : t.id = 0x0002)
    (h : parseTagV tb ex t buf none = .ok ex') : parseGPSCoordV t buf none = .ok ex'.gpsLat := by
  unfold parseTagV at h
  rw [if_neg (by rw [h0]; decide), if_neg (by rw [h0]; decide), if_pos h0] at h
  unfold parseGpsIfdV at h
  have e : t.id = 2 := hid
  simp only [e] at h
  simp only [show ¬ (2 = 5) by decide, show ¬ (2 = 1) by decide, show ¬ (2 = 3) by decide, show ¬ (2 = 6) by decide, if_false, if_true] at h
  obtain ⟨s, hs, h⟩ := bind_ok h
  simp only [Outcome.ok.injEq] at h
  rw [← h, hs]
  rfl

/-- **gpsLat, end to end**: the value its parser makes of the last such entry and exactly its bytes in F -/
theorem gpsLat_exact {tb : Tables} {ex0 : Rec} {F : Bytes} {r : R} (he : Exact tb ex0 F r) (pre post : List Tag) (a : Tag)
    (hsplit : r.parsed = pre ++ a :: post) (h0 : a.ifd = gpsIFD) (hid : a.id = 0x0002)
    (hpost : ∀ t ∈ post, ¬(t.ifd = gpsIFD ∧ t.id = 0x0002)) :
    parseGPSCoordV a (slice F a) none = .ok r.ex.gpsLat := by
  have href := he.ref
  rw [hsplit] at href
  obtain ⟨exPre, exA, _, hA, hf⟩ := idealRun_last tb F (fun e => e.gpsLat) (fun t => t.ifd = gpsIFD ∧ t.id = 0x0002)
    (fun ex t hk => gpsLat_other tb ex t (slice F t) none hk) pre a post ex0 r.ex hpost href
  rw [hf]
  exact gpsLat_writer tb exPre exA a (slice F a) h0 hid hA

set_option maxRecDepth 100000 in
theorem gpsLng_ifd0 (tb : Tables) (ex : Rec) (t : Tag) (buf : Bytes) (err : Option ErrKind) :
    KF (fun e => e.gpsLng) ex (parseIfd0V tb ex t buf err) := by
  unfold parseIfd0V
  kf_walk0

set_option maxRecDepth 100000 in
theorem gpsLng_exif (ex : Rec) (t : Tag) (buf : Bytes) (err : Option ErrKind) :
    KF (fun e => e.gpsLng) ex (parseExifIfdV ex t buf err) := by
  unfold parseExifIfdV
  kf_walk0

set_option maxRecDepth 100000 in
theorem gpsLng_gps (ex : Rec) (t : Tag) (buf : Bytes) (err : Option ErrKind)
    (hk : ¬(t.id = 0x0004)) : KF (fun e => e.gpsLng) ex (parseGpsIfdV ex t buf err) := by
  have hk : ¬(True ∧ t.id = 0x0004) := fun h => hk h.2
  unfold parseGpsIfdV
  kf_walk

theorem gpsLng_other (tb : Tables) (ex : Rec) (t : Tag) (buf : Bytes) (err : Option ErrKind)
    (hk : ¬(t.ifd = gpsIFD ∧ t.id = 0x0004)) : KF (fun e => e.gpsLng) ex (parseTagV tb ex t buf err) := by
  unfold parseTagV
  exact KF.ite (fun _ => gpsLng_ifd0 tb ex t buf err) (fun _ => KF.ite (fun _ => gpsLng_exif ex t buf err) (fun _ => KF.ite (fun h4 => gpsLng_gps ex t buf err (fun e => hk ⟨h4, e⟩)) (fun _ => KF.ok rfl)))

theorem gpsLng_writer (tb : Tables) (ex ex' : Rec) (t : Tag) (buf : Bytes)
    (h0 : t.ifd = gpsIFD) (hid : t.id = 0x0004)
    (h : parseTagV tb ex t buf none = .ok ex') : parseGPSCoordV t buf none = .ok ex'.gpsLng := by
  unfold parseTagV at h
  rw [if_neg (by rw [h0]; decide), if_neg (by rw [h0]; decide), if_pos h0] at h
  unfold parseGpsIfdV at h
  have e : t.id = 4 := hid
  simp only [e] at h
  simp only [show ¬ (4 = 5) by decide, show ¬ (4 = 1) by decide, show ¬ (4 = 3) by decide, show ¬ (4 = 6) by decide, show ¬ (4 = 2) by decide, if_false, if_true] at h
  obtain ⟨s, hs, h⟩ := bind_ok h
  simp only [Outcome.ok.injEq] at h
  rw [← h, hs]
  rfl

/-- **gpsLng, end to end**: the value its parser makes of the last such entry and exactly its bytes in F -/
theorem gpsLng_exact {tb : Tables} {ex0 : Rec} {F : Bytes} {r : R} (he : Exact tb ex0 F r) (pre post : List Tag) (a : Tag)
    (hsplit : r.parsed = pre ++ a :: post) (h0 : a.ifd = gpsIFD) (hid : a.id = 0x0004)
    (hpost : ∀ t ∈ post, ¬(t.ifd = gpsIFD ∧ t.id = 0x0004)) :
    parseGPSCoordV a (slice F a) none = .ok r.ex.gpsLng := by
  have href := he.ref
  rw [hsplit] at href
  obtain ⟨exPre, exA, _, hA, hf⟩ := idealRun_last tb F (fun e => e.gpsLng) (fun t => t.ifd = gpsIFD ∧ t.id = 0x0004)
    (fun ex t hk => gpsLng_other tb ex t (slice F t) none hk) pre a post ex0 r.ex hpost href
  rw [hf]
  exact gpsLng_writer tb exPre exA a (slice F a) h0 hid hA

set_option maxRecDepth 100000 in
theorem gpsTime_ifd0 (tb : Tables) (ex : Rec) (t : Tag) (buf : Bytes) (err : Option ErrKind) :
    KF (fun e => e.gpsTime) ex (parseIfd0V tb ex t buf err) := by
  unfold parseIfd0V
  kf_walk0

set_option maxRecDepth 100000 in
theorem gpsTime_exif (ex : Rec) (t : Tag) (buf : Bytes) (err : Option ErrKind) :
    KF (fun e => e.gpsTime) ex (parseExifIfdV ex t buf err) := by
  unfold parseExifIfdV
  kf_walk0

set_option maxRecDepth 100000 in
theorem gpsTime_gps (ex : Rec) (t : Tag) (buf : Bytes) (err : Option ErrKind)
    (hk : ¬(t.id = 0x0007)) : KF (fun e => e.gpsTime) ex (parseGpsIfdV ex t buf err) := by
  have hk : ¬(True ∧ t.id = 0x0007) := fun h => hk h.2
  unfold parseGpsIfdV
  kf_walk

theorem gpsTime_other (tb : Tables) (ex : Rec) (t : Tag) (buf : Bytes) (err : Option ErrKind)
    (hk : ¬(t.ifd = gpsIFD ∧ t.id = 0x0007)) : KF (fun e => e.gpsTime) ex (parseTagV tb ex t buf err) := by
  unfold parseTagV
  exact KF.ite (fun _ => gpsTime_ifd0 tb ex t buf err) (fun _ => KF.ite (fun _ => gpsTime_exif ex t buf err) (fun _ => KF.ite (fun h4 => gpsTime_gps ex t buf err (fun e => hk ⟨h4, e⟩)) (fun _ => KF.ok rfl)))

theorem gpsTime_writer (tb : Tables) (ex ex' : Rec) (t : Tag) (buf : Bytes)
    (h0 : t.ifd = gpsIFD) (hid : t.id = 0x0007)
    (h : parseTagV tb ex t buf none = .ok ex') : parseGPSTimeV t buf none = .ok ex'.gpsTime := by
  unfold parseTagV at h
  rw [if_neg (by rw [h0]; decide), if_neg (by rw [h0]; decide), if_pos h0] at h
  unfold parseGpsIfdV at h
  have e : t.id = 7 := hid
  simp only [e] at h
  simp only [show ¬ (7 = 5) by decide, show ¬ (7 = 1) by decide, show ¬ (7 = 3) by decide, show ¬ (7 = 6) by decide, show ¬ (7 = 2) by decide, show ¬ (7 = 4) by decide, if_false, if_true] at h
  obtain ⟨s, hs, h⟩ := bind_ok h
  simp only [Outcome.ok.injEq] at h
  rw [← h, hs]
  rfl

/-- **gpsTime, end to end**: the value its parser makes of the last such entry and exactly its bytes in F -/
theorem gpsTime_exact {tb : Tables} {ex0 : Rec} {F : Bytes} {r : R} (he : Exact tb ex0 F r) (pre post : List Tag) (a : Tag)
    (hsplit : r.parsed = pre ++ a :: post) (h0 : a.ifd = gpsIFD) (hid : a.id = 0x0007)
    (hpost : ∀ t ∈ post, ¬(t.ifd = gpsIFD ∧ t.id = 0x0007)) :
    parseGPSTimeV a (slice F a) none = .ok r.ex.gpsTime := by
  have href := he.ref
  rw [hsplit] at href
  obtain ⟨exPre, exA, _, hA, hf⟩ := idealRun_last tb F (fun e => e.gpsTime) (fun t => t.ifd = gpsIFD ∧ t.id = 0x0007)
    (fun ex t hk => gpsTime_other tb ex t (slice F t) none hk) pre a post ex0 r.ex hpost href
  rw [hf]
  exact gpsTime_writer tb exPre exA a (slice F a) h0 hid hA

set_option maxRecDepth 100000 in
theorem gpsDate_ifd0 (tb : Tables) (ex : Rec) (t : Tag) (buf : Bytes) (err : Option ErrKind) :
    KF (fun e => e.gpsDate) ex (parseIfd0V tb ex t buf err) := by
  unfold parseIfd0V
  kf_walk0

set_option maxRecDepth 100000 in
theorem gpsDate_exif (ex : Rec) (t : Tag) (buf : Bytes) (err : Option ErrKind) :
    KF (fun e => e.gpsDate) ex (parseExifIfdV ex t buf err) := by
  unfold parseExifIfdV
  kf_walk0

set_option maxRecDepth 100000 in
theorem gpsDate_gps (ex : Rec) (t : Tag) (buf : Bytes) (err : Option ErrKind)
    (hk : ¬(t.id = 0x001d)) : KF (fun e => e.gpsDate) ex (parseGpsIfdV ex t buf err) := by
  have hk : ¬(True ∧ t.id = 0x001d) := fun h => hk h.2
  unfold parseGpsIfdV
  kf_walk

theorem gpsDate_other (tb : Tables) (ex : Rec) (t : Tag) (buf : Bytes) (err : Option ErrKind)
    (hk : ¬(t.ifd = gpsIFD ∧ t.id = 0x001d)) : KF (fun e => e.gpsDate) ex (parseTagV tb ex t buf err) := by
  unfold parseTagV
  exact KF.ite (fun _ => gpsDate_ifd0 tb ex t buf err) (fun _ => KF.ite (fun _ => gpsDate_exif ex t buf err) (fun _ => KF.ite (fun h4 => gpsDate_gps ex t buf err (fun e => hk ⟨h4, e⟩)) (fun _ => KF.ok rfl)))

theorem gpsDate_writer (tb : Tables) (ex ex' : Rec) (t : Tag) (buf : Bytes)
    (h0 : t.ifd = gpsIFD) (hid : t.id = 0x001d)
    (h : parseTagV tb ex t buf none = .ok ex') : parseGPSDateV t buf none = .ok ex'.gpsDate := by
  unfold parseTagV at h
  rw [if_neg (by rw [h0]; decide), if_neg (by rw [h0]; decide), if_pos h0] at h
  unfold parseGpsIfdV at h
  have e : t.id = 29 := hid
  simp only [e] at h
  simp only [show ¬ (29 = 5) by decide, show ¬ (29 = 1) by decide, show ¬ (29 = 3) by decide, show ¬ (29 = 6) by decide, show ¬ (29 = 2) by decide, show ¬ (29 = 4) by decide, show ¬ (29 = 7) by decide, if_false, if_true] at h
  obtain ⟨s, hs, h⟩ := bind_ok h
  simp only [Outcome.ok.injEq] at h
  rw [← h, hs]
  rfl

/-- **gpsDate, end to end**: the value its parser makes of the last such entry and exactly its bytes in F -/
theorem gpsDate_exact {tb : Tables} {ex0 : Rec} {F : Bytes} {r : R} (he : Exact tb ex0 F r) (pre post : List Tag) (a : Tag)
    (hsplit : r.parsed = pre ++ a :: post) (h0 : a.ifd = gpsIFD) (hid : a.id = 0x001d)
    (hpost : ∀ t ∈ post, ¬(t.ifd = gpsIFD ∧ t.id = 0x001d)) :
    parseGPSDateV a (slice F a) none = .ok r.ex.gpsDate := by
  have href := he.ref
  rw [hsplit] at href
  obtain ⟨exPre, exA, _, hA, hf⟩ := idealRun_last tb F (fun e => e.gpsDate) (fun t => t.ifd = gpsIFD ∧ t.id = 0x001d)
    (fun ex t hk => gpsDate_other tb ex t (slice F t) none hk) pre a post ex0 r.ex hpost href
  rw [hf]
  exact gpsDate_writer tb exPre exA a (slice F a) h0 hid hA

set_option maxRecDepth 100000 in
theorem gpsAltRef_ifd0 (tb : Tables) (ex : Rec) (t : Tag) (buf : Bytes) (err : Option ErrKind) :
    KF (fun e => e.gpsAltRef) ex (parseIfd0V tb ex t buf err) := by
  unfold parseIfd0V
  kf_walk0

set_option maxRecDepth 100000 in
theorem gpsAltRef_exif (ex : Rec) (t : Tag) (buf : Bytes) (err : Option ErrKind) :
    KF (fun e => e.gpsAltRef) ex (parseExifIfdV ex t buf err) := by
  unfold parseExifIfdV
  kf_walk0

set_option maxRecDepth 100000 in
theorem gpsAltRef_gps (ex : Rec) (t : Tag) (buf : Bytes) (err : Option ErrKind)
    (hk : ¬(t.id = 0x0005)) : KF (fun e => e.gpsAltRef) ex (parseGpsIfdV ex t buf err) := by
  have hk : ¬(True ∧ t.id = 0x0005) := fun h => hk h.2
  unfold parseGpsIfdV
  kf_walk

theorem gpsAltRef_other (tb : Tables) (ex : Rec) (t : Tag) (buf : Bytes) (err : Option ErrKind)
    (hk : ¬(t.ifd = gpsIFD ∧ t.id = 0x0005)) : KF (fun e => e.gpsAltRef) ex (parseTagV tb ex t buf err) := by
  unfold parseTagV
  exact KF.ite (fun _ => gpsAltRef_ifd0 tb ex t buf err) (fun _ => KF.ite (fun _ => gpsAltRef_exif ex t buf err) (fun _ => KF.ite (fun h4 => gpsAltRef_gps ex t buf err (fun e => hk ⟨h4, e⟩)) (fun _ => KF.ok rfl)))

theorem gpsAltRef_writer (tb : Tables) (ex ex' : Rec) (t : Tag) (buf : Bytes)
    (h0 : t.ifd = gpsIFD) (hid : t.id = 0x0005)
    (h : parseTagV tb ex t buf none = .ok ex') : ex'.gpsAltRef = parseGPSRef t := by
  unfold parseTagV at h
  rw [if_neg (by rw [h0]; decide), if_neg (by rw [h0]; decide), if_pos h0] at h
  unfold parseGpsIfdV at h
  have e : t.id = 5 := hid
  simp only [e] at h
  simp only [if_false, if_true] at h
  simp only [Outcome.ok.injEq] at h
  rw [← h]
  rfl

/-- **gpsAltRef, end to end**: the reference letter of the last such entry (an embedded value: bytes of the directory) -/
theorem gpsAltRef_exact {tb : Tables} {ex0 : Rec} {F : Bytes} {r : R} (he : Exact tb ex0 F r) (pre post : List Tag) (a : Tag)
    (hsplit : r.parsed = pre ++ a :: post) (h0 : a.ifd = gpsIFD) (hid : a.id = 0x0005)
    (hpost : ∀ t ∈ post, ¬(t.ifd = gpsIFD ∧ t.id = 0x0005)) :
    r.ex.gpsAltRef = parseGPSRef a := by
  have href := he.ref
  rw [hsplit] at href
  obtain ⟨exPre, exA, _, hA, hf⟩ := idealRun_last tb F (fun e => e.gpsAltRef) (fun t => t.ifd = gpsIFD ∧ t.id = 0x0005)
    (fun ex t hk => gpsAltRef_other tb ex t (slice F t) none hk) pre a post ex0 r.ex hpost href
  rw [hf]
  exact gpsAltRef_writer tb exPre exA a (slice F a) h0 hid hA

set_option maxRecDepth 100000 in
theorem gpsLatRef_ifd0 (tb : Tables) (ex : Rec) (t : Tag) (buf : Bytes) (err : Option ErrKind) :
    KF (fun e => e.gpsLatRef) ex (parseIfd0V tb ex t buf err) := by
  unfold parseIfd0V
  kf_walk0

set_option maxRecDepth 100000 in
theorem gpsLatRef_exif (ex : Rec) (t : Tag) (buf : Bytes) (err : Option ErrKind) :
    KF (fun e => e.gpsLatRef) ex (parseExifIfdV ex t buf err) := by
  unfold parseExifIfdV
  kf_walk0

set_option maxRecDepth 100000 in
theorem gpsLatRef_gps (ex : Rec) (t : Tag) (buf : Bytes) (err : Option ErrKind)
    (hk : ¬(t.id = 0x0001)) : KF (fun e => e.gpsLatRef) ex (parseGpsIfdV ex t buf err) := by
  have hk : ¬(True ∧ t.id = 0x0001) := fun h => hk h.2
  unfold parseGpsIfdV
  kf_walk

theorem gpsLatRef_other (tb : Tables) (ex : Rec) (t : Tag) (buf : Bytes) (err : Option ErrKind)
    (hk : ¬(t.ifd = gpsIFD ∧ t.id = 0x0001)) : KF (fun e => e.gpsLatRef) ex (parseTagV tb ex t buf err) := by
  unfold parseTagV
  exact KF.ite (fun _ => gpsLatRef_ifd0 tb ex t buf err) (fun _ => KF.ite (fun _ => gpsLatRef_exif ex t buf err) (fun _ => KF.ite (fun h4 => gpsLatRef_gps ex t buf err (fun e => hk ⟨h4, e⟩)) (fun _ => KF.ok rfl)))

theorem gpsLatRef_writer (tb : Tables) (ex ex' : Rec) (t : Tag) (buf : Bytes)
    (h0 : t.ifd = gpsIFD) (hid : t.id = 0x0001)
    (h : parseTagV tb ex t buf none = .ok ex') : ex'.gpsLatRef = parseGPSRef t := by
  unfold parseTagV at h
  rw [if_neg (by rw [h0]; decide), if_neg (by rw [h0]; decide), if_pos h0] at h
  unfold parseGpsIfdV at h
  have e : t.id = 1 := hid
  simp only [e] at h
  simp only [show ¬ (1 = 5) by decide, if_false, if_true] at h
  simp only [Outcome.ok.injEq] at h
  rw [← h]
  rfl

/-- **gpsLatRef, end to end**: the reference letter of the last such entry (an embedded value: bytes of the directory) -/
theorem gpsLatRef_exact {tb : Tables} {ex0 : Rec} {F : Bytes} {r : R} (he : Exact tb ex0 F r) (pre post : List Tag) (a : Tag)
    (hsplit : r.parsed = pre ++ a :: post) (h0 : a.ifd = gpsIFD) (hid : a.id = 0x0001)
    (hpost : ∀ t ∈ post, ¬(t.ifd = gpsIFD ∧ t.id = 0x0001)) :
    r.ex.gpsLatRef = parseGPSRef a := by
  have href := he.ref
  rw [hsplit] at href
  obtain ⟨exPre, exA, _, hA, hf⟩ := idealRun_last tb F (fun e => e.gpsLatRef) (fun t => t.ifd = gpsIFD ∧ t.id = 0x0001)
    (fun ex t hk => gpsLatRef_other tb ex t (slice F t) none hk) pre a post ex0 r.ex hpost href
  rw [hf]
  exact gpsLatRef_writer tb exPre exA a (slice F a) h0 hid hA

set_option maxRecDepth 100000 in
theorem gpsLngRef_ifd0 (tb : Tables) (ex : Rec) (t : Tag) (buf : Bytes) (err : Option ErrKind) :
    KF (fun e => e.gpsLngRef) ex (parseIfd0V tb ex t buf err) := by
  unfold parseIfd0V
  kf_walk0

set_option maxRecDepth 100000 in
theorem gpsLngRef_exif (ex : Rec) (t : Tag) (buf : Bytes) (err : Option ErrKind) :
    KF (fun e => e.gpsLngRef) ex (parseExifIfdV ex t buf err) := by
  unfold parseExifIfdV
  kf_walk0

set_option maxRecDepth 100000 in
theorem gpsLngRef_gps (ex : Rec) (t : Tag) (buf : Bytes) (err : Option ErrKind)
    (hk : ¬(t.id = 0x0003)) : KF (fun e => e.gpsLngRef) ex (parseGpsIfdV ex t buf err) := by
  have hk : ¬(True ∧ t.id = 0x0003) := fun h => hk h.2
  unfold parseGpsIfdV
  kf_walk

theorem gpsLngRef_other (tb : Tables) (ex : Rec) (t : Tag) (buf : Bytes) (err : Option ErrKind)
    (hk : ¬(t.ifd = gpsIFD ∧ t.id = 0x0003)) : KF (fun e => e.gpsLngRef) ex (parseTagV tb ex t buf err) := by
  unfold parseTagV
  exact KF.ite (fun _ => gpsLngRef_ifd0 tb ex t buf err) (fun _ => KF.ite (fun _ => gpsLngRef_exif ex t buf err) (fun _ => KF.ite (fun h4 => gpsLngRef_gps ex t buf err (fun e => hk ⟨h4, e⟩)) (fun _ => KF.ok rfl)))

theorem gpsLngRef_writer (tb : Tables) (ex ex' : Rec) (t : Tag) (buf : Bytes)
    (h0 : t.ifd = gpsIFD) (hid : t.id = 0x0003)
    (h : parseTagV tb ex t buf none = .ok ex') : ex'.gpsLngRef = parseGPSRef t := by
  unfold parseTagV at h
  rw [if_neg (by rw [h0]; decide), if_neg (by rw [h0]; decide), if_pos h0] at h
  unfold parseGpsIfdV at h
  have e : t.id = 3 := hid
  simp only [e] at h
  simp only [show ¬ (3 = 5) by decide, show ¬ (3 = 1) by decide, if_false, if_true] at h
  simp only [Outcome.ok.injEq] at h
  rw [← h]
  rfl

/-- **gpsLngRef, end to end**: the reference letter of the last such entry (an embedded value: bytes of the directory) -/
theorem gpsLngRef_exact {tb : Tables} {ex0 : Rec} {F : Bytes} {r : R} (he : Exact tb ex0 F r) (pre post : List Tag) (a : Tag)
    (hsplit : r.parsed = pre ++ a :: post) (h0 : a.ifd = gpsIFD) (hid : a.id = 0x0003)
    (hpost : ∀ t ∈ post, ¬(t.ifd = gpsIFD ∧ t.id = 0x0003)) :
    r.ex.gpsLngRef = parseGPSRef a := by
  have href := he.ref
  rw [hsplit] at href
  obtain ⟨exPre, exA, _, hA, hf⟩ := idealRun_last tb F (fun e => e.gpsLngRef) (fun t => t.ifd = gpsIFD ∧ t.id = 0x0003)
    (fun ex t hk => gpsLngRef_other tb ex t (slice F t) none hk) pre a post ex0 r.ex hpost href
  rw [hf]
  exact gpsLngRef_writer tb exPre exA a (slice F a) h0 hid hA

end Imeta.Exif
