/-
  C03, part 7d: single-writer numeric fields end to end (generated like ExifField3): the field is what the integer parser
  makes of the entry's own 12 bytes (count, type, value slot) — Orientation, StripOffsets, StripByteCounts (IFD0),
  ExposureProgram, ExposureMode, MeteringMode, ISOSpeedRatings, Flash (ExifIFD).
-/
import Imeta.Lemmas.ExifField3
namespace Imeta.Exif
open Imeta

set_option maxRecDepth 100000 in
theorem orientation_ifd0 (tb : Tables) (ex : Rec) (t : Tag) (buf : Bytes) (err : Option ErrKind)
    (hk : ¬(t.id = 0x0112)) : KF (fun e => e.orientation) ex (parseIfd0V tb ex t buf err) := by
  have hk : ¬(True ∧ t.id = 0x0112) := fun h => hk h.2
  unfold parseIfd0V
  kf_walk

set_option maxRecDepth 100000 in
theorem orientation_exif (ex : Rec) (t : Tag) (buf : Bytes) (err : Option ErrKind) :
    KF (fun e => e.orientation) ex (parseExifIfdV ex t buf err) := by
  unfold parseExifIfdV
  kf_walk0

set_option maxRecDepth 100000 in
theorem orientation_gps (ex : Rec) (t : Tag) (buf : Bytes) (err : Option ErrKind) :
    KF (fun e => e.orientation) ex (parseGpsIfdV ex t buf err) := by
  unfold parseGpsIfdV
  kf_walk0

theorem orientation_other (tb : Tables) (ex : Rec) (t : Tag) (buf : Bytes) (err : Option ErrKind)
    (hk : ¬(t.ifd = ifd0 ∧ t.id = 0x0112)) : KF (fun e => e.orientation) ex (parseTagV tb ex t buf err) := by
  unfold parseTagV
  apply KF.ite
  · intro h0; exact orientation_ifd0 tb ex t buf err (fun e => hk ⟨h0, e⟩)
  · intro _
    apply KF.ite (fun _ => orientation_exif ex t buf err)
    intro _
    exact KF.ite (fun _ => orientation_gps ex t buf err) (fun _ => KF.ok rfl)

theorem orientation_writer (tb : Tables) (ex ex' : Rec) (t : Tag) (buf : Bytes) (v : Nat)
    (h0 : t.ifd = ifd0) (hid : t.id = 0x0112) (hv : parseUint16 t = .ok v)
    (h : parseTagV tb ex t buf none = .ok ex') : ex'.orientation = v := by
  unfold parseTagV at h
  rw [if_pos h0] at h
  unfold parseIfd0V at h
  have e : t.id = 274 := hid
  simp only [e] at h
  simp only [show ¬ (274 = 271) by decide, show ¬ (274 = 272) by decide, show ¬ (274 = 315) by decide, show ¬ (274 = 33432) by decide, show ¬ (274 = 256) by decide, show ¬ (274 = 257) by decide, show ¬ (274 = 273) by decide, show ¬ (274 = 279) by decide, if_false, if_true] at h
  rw [hv] at h
  obtain ⟨s, hs, h⟩ := bind_ok h
  simp only [Outcome.ok.injEq] at h hs
  rw [← h, ← hs]
  rfl

/-- **orientation, end to end**: the value the integer parser makes of the last such entry -/
theorem orientation_exact {tb : Tables} {ex0 : Rec} {F : Bytes} {r : R} (he : Exact tb ex0 F r) (pre post : List Tag) (a : Tag) (v : Nat)
    (hsplit : r.parsed = pre ++ a :: post) (h0 : a.ifd = ifd0) (hid : a.id = 0x0112) (hv : parseUint16 a = .ok v)
    (hpost : ∀ t ∈ post, ¬(t.ifd = ifd0 ∧ t.id = 0x0112)) :
    r.ex.orientation = v := by
  have href := he.ref
  rw [hsplit] at href
  obtain ⟨exPre, exA, _, hA, hf⟩ := idealRun_last tb F (fun e => e.orientation) (fun t => t.ifd = ifd0 ∧ t.id = 0x0112)
    (fun ex t hk => orientation_other tb ex t (slice F t) none hk) pre a post ex0 r.ex hpost href
  rw [hf]
  exact orientation_writer tb exPre exA a (slice F a) v h0 hid hv hA

set_option maxRecDepth 100000 in
theorem stripOffsets_ifd0 (tb : Tables) (ex : Rec) (t : Tag) (buf : Bytes) (err : Option ErrKind)
    (hk : ¬(t.id = 0x0111)) : KF (fun e => e.stripOffsets) ex (parseIfd0V tb ex t buf err) := by
  have hk : ¬(True ∧ t.id = 0x0111) := fun h => hk h.2
  unfold parseIfd0V
  kf_walk

set_option maxRecDepth 100000 in
theorem stripOffsets_exif (ex : Rec) (t : Tag) (buf : Bytes) (err : Option ErrKind) :
    KF (fun e => e.stripOffsets) ex (parseExifIfdV ex t buf err) := by
  unfold parseExifIfdV
  kf_walk0

set_option maxRecDepth 100000 in
theorem stripOffsets_gps (ex : Rec) (t : Tag) (buf : Bytes) (err : Option ErrKind) :
    KF (fun e => e.stripOffsets) ex (parseGpsIfdV ex t buf err) := by
  unfold parseGpsIfdV
  kf_walk0

theorem stripOffsets_other (tb : Tables) (ex : Rec) (t : Tag) (buf : Bytes) (err : Option ErrKind)
    (hk : ¬(t.ifd = ifd0 ∧ t.id = 0x0111)) : KF (fun e => e.stripOffsets) ex (parseTagV tb ex t buf err) := by
  unfold parseTagV
  apply KF.ite
  · intro h0; exact stripOffsets_ifd0 tb ex t buf err (fun e => hk ⟨h0, e⟩)
  · intro _
    apply KF.ite (fun _ => stripOffsets_exif ex t buf err)
    intro _
    exact KF.ite (fun _ => stripOffsets_gps ex t buf err) (fun _ => KF.ok rfl)

theorem stripOffsets_writer (tb : Tables) (ex ex' : Rec) (t : Tag) (buf : Bytes) (v : Nat)
    (h0 : t.ifd = ifd0) (hid : t.id = 0x0111) (hv : parseUint32 t = .ok v)
    (h : parseTagV tb ex t buf none = .ok ex') : ex'.stripOffsets = v := by
  unfold parseTagV at h
  rw [if_pos h0] at h
  unfold parseIfd0V at h
  have e : t.id = 273 := hid
  simp only [e] at h
  simp only [show ¬ (273 = 271) by decide, show ¬ (273 = 272) by decide, show ¬ (273 = 315) by decide, show ¬ (273 = 33432) by decide, show ¬ (273 = 256) by decide, show ¬ (273 = 257) by decide, if_false, if_true] at h
  rw [hv] at h
  obtain ⟨s, hs, h⟩ := bind_ok h
  simp only [Outcome.ok.injEq] at h hs
  rw [← h, ← hs]
  rfl

/-- **stripOffsets, end to end**: the value the integer parser makes of the last such entry -/
theorem stripOffsets_exact {tb : Tables} {ex0 : Rec} {F : Bytes} {r : R} (he : Exact tb ex0 F r) (pre post : List Tag) (a : Tag) (v : Nat)
    (hsplit : r.parsed = pre ++ a :: post) (h0 : a.ifd = ifd0) (hid : a.id = 0x0111) (hv : parseUint32 a = .ok v)
    (hpost : ∀ t ∈ post, ¬(t.ifd = ifd0 ∧ t.id = 0x0111)) :
    r.ex.stripOffsets = v := by
  have href := he.ref
  rw [hsplit] at href
  obtain ⟨exPre, exA, _, hA, hf⟩ := idealRun_last tb F (fun e => e.stripOffsets) (fun t => t.ifd = ifd0 ∧ t.id = 0x0111)
    (fun ex t hk => stripOffsets_other tb ex t (slice F t) none hk) pre a post ex0 r.ex hpost href
  rw [hf]
  exact stripOffsets_writer tb exPre exA a (slice F a) v h0 hid hv hA

set_option maxRecDepth 100000 in
theorem stripByteCounts_ifd0 (tb : Tables) (ex : Rec) (t : Tag) (buf : Bytes) (err : Option ErrKind)
    (hk : ¬(t.id = 0x0117)) : KF (fun e => e.stripByteCounts) ex (parseIfd0V tb ex t buf err) := by
  have hk : ¬(True ∧ t.id = 0x0117) := fun h => hk h.2
  unfold parseIfd0V
  kf_walk

set_option maxRecDepth 100000 in
theorem stripByteCounts_exif (ex : Rec) (t : Tag) (buf : Bytes) (err : Option ErrKind) :
    KF (fun e => e.stripByteCounts) ex (parseExifIfdV ex t buf err) := by
  unfold parseExifIfdV
  kf_walk0

set_option maxRecDepth 100000 in
theorem stripByteCounts_gps (ex : Rec) (t : Tag) (buf : Bytes) (err : Option ErrKind) :
    KF (fun e => e.stripByteCounts) ex (parseGpsIfdV ex t buf err) := by
  unfold parseGpsIfdV
  kf_walk0

theorem stripByteCounts_other (tb : Tables) (ex : Rec) (t : Tag) (buf : Bytes) (err : Option ErrKind)
    (hk : ¬(t.ifd = ifd0 ∧ t.id = 0x0117)) : KF (fun e => e.stripByteCounts) ex (parseTagV tb ex t buf err) := by
  unfold parseTagV
  apply KF.ite
  · intro h0; exact stripByteCounts_ifd0 tb ex t buf err (fun e => hk ⟨h0, e⟩)
  · intro _
    apply KF.ite (fun _ => stripByteCounts_exif ex t buf err)
    intro _
    exact KF.ite (fun _ => stripByteCounts_gps ex t buf err) (fun _ => KF.ok rfl)

theorem stripByteCounts_writer (tb : Tables) (ex ex' : Rec) (t : Tag) (buf : Bytes) (v : Nat)
    (h0 : t.ifd = ifd0) (hid : t.id = 0x0117) (hv : parseUint32 t = .ok v)
    (h : parseTagV tb ex t buf none = .ok ex') : ex'.stripByteCounts = v := by
  unfold parseTagV at h
  rw [if_pos h0] at h
  unfold parseIfd0V at h
  have e : t.id = 279 := hid
  simp only [e] at h
  simp only [show ¬ (279 = 271) by decide, show ¬ (279 = 272) by decide, show ¬ (279 = 315) by decide, show ¬ (279 = 33432) by decide, show ¬ (279 = 256) by decide, show ¬ (279 = 257) by decide, show ¬ (279 = 273) by decide, if_false, if_true] at h
  rw [hv] at h
  obtain ⟨s, hs, h⟩ := bind_ok h
  simp only [Outcome.ok.injEq] at h hs
  rw [← h, ← hs]
  rfl

/-- **stripByteCounts, end to end**: the value the integer parser makes of the last such entry -/
theorem stripByteCounts_exact {tb : Tables} {ex0 : Rec} {F : Bytes} {r : R} (he : Exact tb ex0 F r) (pre post : List Tag) (a : Tag) (v : Nat)
    (hsplit : r.parsed = pre ++ a :: post) (h0 : a.ifd = ifd0) (hid : a.id = 0x0117) (hv : parseUint32 a = .ok v)
    (hpost : ∀ t ∈ post, ¬(t.ifd = ifd0 ∧ t.id = 0x0117)) :
    r.ex.stripByteCounts = v := by
  have href := he.ref
  rw [hsplit] at href
  obtain ⟨exPre, exA, _, hA, hf⟩ := idealRun_last tb F (fun e => e.stripByteCounts) (fun t => t.ifd = ifd0 ∧ t.id = 0x0117)
    (fun ex t hk => stripByteCounts_other tb ex t (slice F t) none hk) pre a post ex0 r.ex hpost href
  rw [hf]
  exact stripByteCounts_writer tb exPre exA a (slice F a) v h0 hid hv hA

set_option maxRecDepth 100000 in
theorem exposureProgram_exif (ex : Rec) (t : Tag) (buf : Bytes) (err : Option ErrKind)
    (hk : ¬(t.id = 0x8822)) : KF (fun e => e.exposureProgram) ex (parseExifIfdV ex t buf err) := by
  have hk : ¬(True ∧ t.id = 0x8822) := fun h => hk h.2
  unfold parseExifIfdV
  kf_walk

set_option maxRecDepth 100000 in
theorem exposureProgram_ifd0 (tb : Tables) (ex : Rec) (t : Tag) (buf : Bytes) (err : Option ErrKind) :
    KF (fun e => e.exposureProgram) ex (parseIfd0V tb ex t buf err) := by
  unfold parseIfd0V
  kf_walk0

set_option maxRecDepth 100000 in
theorem exposureProgram_gps (ex : Rec) (t : Tag) (buf : Bytes) (err : Option ErrKind) :
    KF (fun e => e.exposureProgram) ex (parseGpsIfdV ex t buf err) := by
  unfold parseGpsIfdV
  kf_walk0

theorem exposureProgram_other (tb : Tables) (ex : Rec) (t : Tag) (buf : Bytes) (err : Option ErrKind)
    (hk : ¬(t.ifd = exifIFD ∧ t.id = 0x8822)) : KF (fun e => e.exposureProgram) ex (parseTagV tb ex t buf err) := by
  unfold parseTagV
  apply KF.ite (fun _ => exposureProgram_ifd0 tb ex t buf err)
  intro _
  apply KF.ite
  · intro h3; exact exposureProgram_exif ex t buf err (fun e => hk ⟨h3, e⟩)
  · intro _; exact KF.ite (fun _ => exposureProgram_gps ex t buf err) (fun _ => KF.ok rfl)

theorem exposureProgram_writer (tb : Tables) (ex ex' : Rec) (t : Tag) (buf : Bytes) (v : Nat)
    (h0 : t.ifd = exifIFD) (hid : t.id = 0x8822) (hv : parseUint16 t = .ok v)
    (h : parseTagV tb ex t buf none = .ok ex') : ex'.exposureProgram = v := by
  unfold parseTagV at h
  rw [if_neg (by rw [h0]; decide), if_pos h0] at h
  unfold parseExifIfdV at h
  have e : t.id = 34850 := hid
  simp only [e] at h
  simp only [show ¬ (34850 = 42035) by decide, show ¬ (34850 = 42036) by decide, show ¬ (34850 = 42037) by decide, show ¬ (34850 = 42032) by decide, show ¬ (34850 = 42033) by decide, show ¬ (34850 = 40962) by decide, show ¬ (34850 = 40963) by decide, show ¬ (34850 = 33434) by decide, show ¬ (34850 = 37378) by decide, show ¬ (34850 = 33437) by decide, if_false, if_true] at h
  rw [hv] at h
  obtain ⟨s, hs, h⟩ := bind_ok h
  simp only [Outcome.ok.injEq] at h hs
  rw [← h, ← hs]
  rfl

/-- **exposureProgram, end to end**: the value the integer parser makes of the last such entry -/
theorem exposureProgram_exact {tb : Tables} {ex0 : Rec} {F : Bytes} {r : R} (he : Exact tb ex0 F r) (pre post : List Tag) (a : Tag) (v : Nat)
    (hsplit : r.parsed = pre ++ a :: post) (h0 : a.ifd = exifIFD) (hid : a.id = 0x8822) (hv : parseUint16 a = .ok v)
    (hpost : ∀ t ∈ post, ¬(t.ifd = exifIFD ∧ t.id = 0x8822)) :
    r.ex.exposureProgram = v := by
  have href := he.ref
  rw [hsplit] at href
  obtain ⟨exPre, exA, _, hA, hf⟩ := idealRun_last tb F (fun e => e.exposureProgram) (fun t => t.ifd = exifIFD ∧ t.id = 0x8822)
    (fun ex t hk => exposureProgram_other tb ex t (slice F t) none hk) pre a post ex0 r.ex hpost href
  rw [hf]
  exact exposureProgram_writer tb exPre exA a (slice F a) v h0 hid hv hA

set_option maxRecDepth 100000 in
theorem exposureMode_exif (ex : Rec) (t : Tag) (buf : Bytes) (err : Option ErrKind)
    (hk : ¬(t.id = 0xa402)) : KF (fun e => e.exposureMode) ex (parseExifIfdV ex t buf err) := by
  have hk : ¬(True ∧ t.id = 0xa402) := fun h => hk h.2
  unfold parseExifIfdV
  kf_walk

set_option maxRecDepth 100000 in
theorem exposureMode_ifd0 (tb : Tables) (ex : Rec) (t : Tag) (buf : Bytes) (err : Option ErrKind) :
    KF (fun e => e.exposureMode) ex (parseIfd0V tb ex t buf err) := by
  unfold parseIfd0V
  kf_walk0

set_option maxRecDepth 100000 in
theorem exposureMode_gps (ex : Rec) (t : Tag) (buf : Bytes) (err : Option ErrKind) :
    KF (fun e => e.exposureMode) ex (parseGpsIfdV ex t buf err) := by
  unfold parseGpsIfdV
  kf_walk0

theorem exposureMode_other (tb : Tables) (ex : Rec) (t : Tag) (buf : Bytes) (err : Option ErrKind)
    (hk : ¬(t.ifd = exifIFD ∧ t.id = 0xa402)) : KF (fun e => e.exposureMode) ex (parseTagV tb ex t buf err) := by
  unfold parseTagV
  apply KF.ite (fun _ => exposureMode_ifd0 tb ex t buf err)
  intro _
  apply KF.ite
  · intro h3; exact exposureMode_exif ex t buf err (fun e => hk ⟨h3, e⟩)
  · intro _; exact KF.ite (fun _ => exposureMode_gps ex t buf err) (fun _ => KF.ok rfl)

theorem exposureMode_writer (tb : Tables) (ex ex' : Rec) (t : Tag) (buf : Bytes) (v : Nat)
    (h0 : t.ifd = exifIFD) (hid : t.id = 0xa402) (hv : parseUint16 t = .ok v)
    (h : parseTagV tb ex t buf none = .ok ex') : ex'.exposureMode = v := by
  unfold parseTagV at h
  rw [if_neg (by rw [h0]; decide), if_pos h0] at h
  unfold parseExifIfdV at h
  have e : t.id = 41986 := hid
  simp only [e] at h
  simp only [show ¬ (41986 = 42035) by decide, show ¬ (41986 = 42036) by decide, show ¬ (41986 = 42037) by decide, show ¬ (41986 = 42032) by decide, show ¬ (41986 = 42033) by decide, show ¬ (41986 = 40962) by decide, show ¬ (41986 = 40963) by decide, show ¬ (41986 = 33434) by decide, show ¬ (41986 = 37378) by decide, show ¬ (41986 = 33437) by decide, show ¬ (41986 = 34850) by decide, show ¬ (41986 = 37380) by decide, if_false, if_true] at h
  rw [hv] at h
  obtain ⟨s, hs, h⟩ := bind_ok h
  simp only [Outcome.ok.injEq] at h hs
  rw [← h, ← hs]
  rfl

/-- **exposureMode, end to end**: the value the integer parser makes of the last such entry -/
theorem exposureMode_exact {tb : Tables} {ex0 : Rec} {F : Bytes} {r : R} (he : Exact tb ex0 F r) (pre post : List Tag) (a : Tag) (v : Nat)
    (hsplit : r.parsed = pre ++ a :: post) (h0 : a.ifd = exifIFD) (hid : a.id = 0xa402) (hv : parseUint16 a = .ok v)
    (hpost : ∀ t ∈ post, ¬(t.ifd = exifIFD ∧ t.id = 0xa402)) :
    r.ex.exposureMode = v := by
  have href := he.ref
  rw [hsplit] at href
  obtain ⟨exPre, exA, _, hA, hf⟩ := idealRun_last tb F (fun e => e.exposureMode) (fun t => t.ifd = exifIFD ∧ t.id = 0xa402)
    (fun ex t hk => exposureMode_other tb ex t (slice F t) none hk) pre a post ex0 r.ex hpost href
  rw [hf]
  exact exposureMode_writer tb exPre exA a (slice F a) v h0 hid hv hA

set_option maxRecDepth 100000 in
theorem meteringMode_exif (ex : Rec) (t : Tag) (buf : Bytes) (err : Option ErrKind)
    (hk : ¬(t.id = 0x9207)) : KF (fun e => e.meteringMode) ex (parseExifIfdV ex t buf err) := by
  have hk : ¬(True ∧ t.id = 0x9207) := fun h => hk h.2
  unfold parseExifIfdV
  kf_walk

set_option maxRecDepth 100000 in
theorem meteringMode_ifd0 (tb : Tables) (ex : Rec) (t : Tag) (buf : Bytes) (err : Option ErrKind) :
    KF (fun e => e.meteringMode) ex (parseIfd0V tb ex t buf err) := by
  unfold parseIfd0V
  kf_walk0

set_option maxRecDepth 100000 in
theorem meteringMode_gps (ex : Rec) (t : Tag) (buf : Bytes) (err : Option ErrKind) :
    KF (fun e => e.meteringMode) ex (parseGpsIfdV ex t buf err) := by
  unfold parseGpsIfdV
  kf_walk0

theorem meteringMode_other (tb : Tables) (ex : Rec) (t : Tag) (buf : Bytes) (err : Option ErrKind)
    (hk : ¬(t.ifd = exifIFD ∧ t.id = 0x9207)) : KF (fun e => e.meteringMode) ex (parseTagV tb ex t buf err) := by
  unfold parseTagV
  apply KF.ite (fun _ => meteringMode_ifd0 tb ex t buf err)
  intro _
  apply KF.ite
  · intro h3; exact meteringMode_exif ex t buf err (fun e => hk ⟨h3, e⟩)
  · intro _; exact KF.ite (fun _ => meteringMode_gps ex t buf err) (fun _ => KF.ok rfl)

theorem meteringMode_writer (tb : Tables) (ex ex' : Rec) (t : Tag) (buf : Bytes) (v : Nat)
    (h0 : t.ifd = exifIFD) (hid : t.id = 0x9207) (hv : parseUint16 t = .ok v)
    (h : parseTagV tb ex t buf none = .ok ex') : ex'.meteringMode = v := by
  unfold parseTagV at h
  rw [if_neg (by rw [h0]; decide), if_pos h0] at h
  unfold parseExifIfdV at h
  have e : t.id = 37383 := hid
  simp only [e] at h
  simp only [show ¬ (37383 = 42035) by decide, show ¬ (37383 = 42036) by decide, show ¬ (37383 = 42037) by decide, show ¬ (37383 = 42032) by decide, show ¬ (37383 = 42033) by decide, show ¬ (37383 = 40962) by decide, show ¬ (37383 = 40963) by decide, show ¬ (37383 = 33434) by decide, show ¬ (37383 = 37378) by decide, show ¬ (37383 = 33437) by decide, show ¬ (37383 = 34850) by decide, show ¬ (37383 = 37380) by decide, show ¬ (37383 = 41986) by decide, if_false, if_true] at h
  rw [hv] at h
  obtain ⟨s, hs, h⟩ := bind_ok h
  simp only [Outcome.ok.injEq] at h hs
  rw [← h, ← hs]
  rfl

/-- **meteringMode, end to end**: the value the integer parser makes of the last such entry -/
theorem meteringMode_exact {tb : Tables} {ex0 : Rec} {F : Bytes} {r : R} (he : Exact tb ex0 F r) (pre post : List Tag) (a : Tag) (v : Nat)
    (hsplit : r.parsed = pre ++ a :: post) (h0 : a.ifd = exifIFD) (hid : a.id = 0x9207) (hv : parseUint16 a = .ok v)
    (hpost : ∀ t ∈ post, ¬(t.ifd = exifIFD ∧ t.id = 0x9207)) :
    r.ex.meteringMode = v := by
  have href := he.ref
  rw [hsplit] at href
  obtain ⟨exPre, exA, _, hA, hf⟩ := idealRun_last tb F (fun e => e.meteringMode) (fun t => t.ifd = exifIFD ∧ t.id = 0x9207)
    (fun ex t hk => meteringMode_other tb ex t (slice F t) none hk) pre a post ex0 r.ex hpost href
  rw [hf]
  exact meteringMode_writer tb exPre exA a (slice F a) v h0 hid hv hA

set_option maxRecDepth 100000 in
theorem isoSpeed_exif (ex : Rec) (t : Tag) (buf : Bytes) (err : Option ErrKind)
    (hk : ¬(t.id = 0x8827)) : KF (fun e => e.isoSpeed) ex (parseExifIfdV ex t buf err) := by
  have hk : ¬(True ∧ t.id = 0x8827) := fun h => hk h.2
  unfold parseExifIfdV
  kf_walk

set_option maxRecDepth 100000 in
theorem isoSpeed_ifd0 (tb : Tables) (ex : Rec) (t : Tag) (buf : Bytes) (err : Option ErrKind) :
    KF (fun e => e.isoSpeed) ex (parseIfd0V tb ex t buf err) := by
  unfold parseIfd0V
  kf_walk0

set_option maxRecDepth 100000 in
theorem isoSpeed_gps (ex : Rec) (t : Tag) (buf : Bytes) (err : Option ErrKind) :
    KF (fun e => e.isoSpeed) ex (parseGpsIfdV ex t buf err) := by
  unfold parseGpsIfdV
  kf_walk0

theorem isoSpeed_other (tb : Tables) (ex : Rec) (t : Tag) (buf : Bytes) (err : Option ErrKind)
    (hk : ¬(t.ifd = exifIFD ∧ t.id = 0x8827)) : KF (fun e => e.isoSpeed) ex (parseTagV tb ex t buf err) := by
  unfold parseTagV
  apply KF.ite (fun _ => isoSpeed_ifd0 tb ex t buf err)
  intro _
  apply KF.ite
  · intro h3; exact isoSpeed_exif ex t buf err (fun e => hk ⟨h3, e⟩)
  · intro _; exact KF.ite (fun _ => isoSpeed_gps ex t buf err) (fun _ => KF.ok rfl)

theorem isoSpeed_writer (tb : Tables) (ex ex' : Rec) (t : Tag) (buf : Bytes) (v : Nat)
    (h0 : t.ifd = exifIFD) (hid : t.id = 0x8827) (hv : parseUint32 t = .ok v)
    (h : parseTagV tb ex t buf none = .ok ex') : ex'.isoSpeed = v := by
  unfold parseTagV at h
  rw [if_neg (by rw [h0]; decide), if_pos h0] at h
  unfold parseExifIfdV at h
  have e : t.id = 34855 := hid
  simp only [e] at h
  simp only [show ¬ (34855 = 42035) by decide, show ¬ (34855 = 42036) by decide, show ¬ (34855 = 42037) by decide, show ¬ (34855 = 42032) by decide, show ¬ (34855 = 42033) by decide, show ¬ (34855 = 40962) by decide, show ¬ (34855 = 40963) by decide, show ¬ (34855 = 33434) by decide, show ¬ (34855 = 37378) by decide, show ¬ (34855 = 33437) by decide, show ¬ (34855 = 34850) by decide, show ¬ (34855 = 37380) by decide, show ¬ (34855 = 41986) by decide, show ¬ (34855 = 37383) by decide, if_false, if_true] at h
  rw [hv] at h
  obtain ⟨s, hs, h⟩ := bind_ok h
  simp only [Outcome.ok.injEq] at h hs
  rw [← h, ← hs]
  rfl

/-- **isoSpeed, end to end**: the value the integer parser makes of the last such entry -/
theorem isoSpeed_exact {tb : Tables} {ex0 : Rec} {F : Bytes} {r : R} (he : Exact tb ex0 F r) (pre post : List Tag) (a : Tag) (v : Nat)
    (hsplit : r.parsed = pre ++ a :: post) (h0 : a.ifd = exifIFD) (hid : a.id = 0x8827) (hv : parseUint32 a = .ok v)
    (hpost : ∀ t ∈ post, ¬(t.ifd = exifIFD ∧ t.id = 0x8827)) :
    r.ex.isoSpeed = v := by
  have href := he.ref
  rw [hsplit] at href
  obtain ⟨exPre, exA, _, hA, hf⟩ := idealRun_last tb F (fun e => e.isoSpeed) (fun t => t.ifd = exifIFD ∧ t.id = 0x8827)
    (fun ex t hk => isoSpeed_other tb ex t (slice F t) none hk) pre a post ex0 r.ex hpost href
  rw [hf]
  exact isoSpeed_writer tb exPre exA a (slice F a) v h0 hid hv hA

set_option maxRecDepth 100000 in
theorem flash_exif (ex : Rec) (t : Tag) (buf : Bytes) (err : Option ErrKind)
    (hk : ¬(t.id = 0x9209)) : KF (fun e => e.flash) ex (parseExifIfdV ex t buf err) := by
  have hk : ¬(True ∧ t.id = 0x9209) := fun h => hk h.2
  unfold parseExifIfdV
  kf_walk

set_option maxRecDepth 100000 in
theorem flash_ifd0 (tb : Tables) (ex : Rec) (t : Tag) (buf : Bytes) (err : Option ErrKind) :
    KF (fun e => e.flash) ex (parseIfd0V tb ex t buf err) := by
  unfold parseIfd0V
  kf_walk0

set_option maxRecDepth 100000 in
theorem flash_gps (ex : Rec) (t : Tag) (buf : Bytes) (err : Option ErrKind) :
    KF (fun e => e.flash) ex (parseGpsIfdV ex t buf err) := by
  unfold parseGpsIfdV
  kf_walk0

theorem flash_other (tb : Tables) (ex : Rec) (t : Tag) (buf : Bytes) (err : Option ErrKind)
    (hk : ¬(t.ifd = exifIFD ∧ t.id = 0x9209)) : KF (fun e => e.flash) ex (parseTagV tb ex t buf err) := by
  unfold parseTagV
  apply KF.ite (fun _ => flash_ifd0 tb ex t buf err)
  intro _
  apply KF.ite
  · intro h3; exact flash_exif ex t buf err (fun e => hk ⟨h3, e⟩)
  · intro _; exact KF.ite (fun _ => flash_gps ex t buf err) (fun _ => KF.ok rfl)

theorem flash_writer (tb : Tables) (ex ex' : Rec) (t : Tag) (buf : Bytes) (v : Nat)
    (h0 : t.ifd = exifIFD) (hid : t.id = 0x9209) (hv : parseUint16 t = .ok v)
    (h : parseTagV tb ex t buf none = .ok ex') : ex'.flash = v := by
  unfold parseTagV at h
  rw [if_neg (by rw [h0]; decide), if_pos h0] at h
  unfold parseExifIfdV at h
  have e : t.id = 37385 := hid
  simp only [e] at h
  simp only [show ¬ (37385 = 42035) by decide, show ¬ (37385 = 42036) by decide, show ¬ (37385 = 42037) by decide, show ¬ (37385 = 42032) by decide, show ¬ (37385 = 42033) by decide, show ¬ (37385 = 40962) by decide, show ¬ (37385 = 40963) by decide, show ¬ (37385 = 33434) by decide, show ¬ (37385 = 37378) by decide, show ¬ (37385 = 33437) by decide, show ¬ (37385 = 34850) by decide, show ¬ (37385 = 37380) by decide, show ¬ (37385 = 41986) by decide, show ¬ (37385 = 37383) by decide, show ¬ (37385 = 34855) by decide, if_false, if_true] at h
  rw [hv] at h
  obtain ⟨s, hs, h⟩ := bind_ok h
  simp only [Outcome.ok.injEq] at h hs
  rw [← h, ← hs]
  rfl

/-- **flash, end to end**: the value the integer parser makes of the last such entry -/
theorem flash_exact {tb : Tables} {ex0 : Rec} {F : Bytes} {r : R} (he : Exact tb ex0 F r) (pre post : List Tag) (a : Tag) (v : Nat)
    (hsplit : r.parsed = pre ++ a :: post) (h0 : a.ifd = exifIFD) (hid : a.id = 0x9209) (hv : parseUint16 a = .ok v)
    (hpost : ∀ t ∈ post, ¬(t.ifd = exifIFD ∧ t.id = 0x9209)) :
    r.ex.flash = v := by
  have href := he.ref
  rw [hsplit] at href
  obtain ⟨exPre, exA, _, hA, hf⟩ := idealRun_last tb F (fun e => e.flash) (fun t => t.ifd = exifIFD ∧ t.id = 0x9209)
    (fun ex t hk => flash_other tb ex t (slice F t) none hk) pre a post ex0 r.ex hpost href
  rw [hf]
  exact flash_writer tb exPre exA a (slice F a) v h0 hid hv hA

end Imeta.Exif
