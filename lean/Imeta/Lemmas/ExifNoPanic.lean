/-
  No-panic lemmas for the Exif reader model (C01): every index / slice expression is in range because the
  code checks the length first.
-/
import Imeta.Lemmas.Exif
namespace Imeta.Exif
open Imeta

def NP {α} (x : Outcome α) : Prop := x.isPanic = false

theorem np_ok {α} (a : α) : NP (Outcome.ok a) := rfl
theorem np_bind {α β} (x : Outcome α) (f : α → Outcome β) (hx : NP x) (hf : ∀ a, x = .ok a → NP (f a)) : NP (x.bind f) := by
  cases x with
  | ok a => exact hf a rfl
  | err k => rfl
  | panic s => simp [NP, Outcome.isPanic] at hx
  | fuel => rfl
theorem np_bind' {α β} (x : Outcome α) (f : α → Outcome β) (hx : NP x) (hf : ∀ a, NP (f a)) : NP (x.bind f) :=
  np_bind x f hx (fun a _ => hf a)

theorem idx_ok (b : Bytes) (i : Nat) (h : i < b.length) : idx b i = .ok b[i] := by
  simp [idx, List.getElem?_eq_getElem h]
theorem slc_ok (b : Bytes) (lo hi : Nat) (h1 : lo ≤ hi) (h2 : hi ≤ b.length) :
    slc b lo hi = .ok ((b.drop lo).take (hi - lo)) := by simp [slc, h1, h2]
theorem slc_len (b : Bytes) (lo hi : Nat) (h1 : lo ≤ hi) (h2 : hi ≤ b.length) : ((b.drop lo).take (hi - lo)).length = hi - lo := by
  simp; omega
theorem u32_ok (o : ByteOrder) (b : Bytes) (h : 4 ≤ b.length) : u32 o b = .ok (o.uint (b.take 4)) := by
  unfold u32; rw [if_neg (by omega)]
theorem u16_ok (o : ByteOrder) (b : Bytes) (h : 2 ≤ b.length) : u16 o b = .ok (o.uint (b.take 2)) := by
  unfold u16; rw [if_neg (by omega)]

theorem rd32_np (o : ByteOrder) (b : Bytes) (lo : Nat) (h : lo + 4 ≤ b.length) : NP (rd32 o b lo) := by
  rw [rd32_ok o b lo h]; rfl
theorem rd16_np (o : ByteOrder) (b : Bytes) (lo : Nat) (h : lo + 2 ≤ b.length) : NP (rd16 o b lo) := by
  rw [rd16_ok o b lo h]; rfl

theorem six_np (o : ByteOrder) (b : Bytes) (h : 24 ≤ b.length) : NP (six o b) := by
  unfold six
  simp only [bind, Outcome.bind, rd32_ok o b 0 (by omega), rd32_ok o b 4 (by omega), rd32_ok o b 8 (by omega),
    rd32_ok o b 12 (by omega), rd32_ok o b 16 (by omega), rd32_ok o b 20 (by omega)]
  rfl

theorem dateOf_np (b : Bytes) (h : 19 ≤ b.length) : NP (dateOf b) := by
  unfold dateOf
  simp only [bind, Outcome.bind, slc_ok b 0 4 (by omega) (by omega), slc_ok b 5 7 (by omega) (by omega),
    slc_ok b 8 10 (by omega) (by omega), slc_ok b 11 13 (by omega) (by omega), slc_ok b 14 16 (by omega) (by omega),
    slc_ok b 17 19 (by omega) (by omega)]
  rfl

theorem parseBytes_np (r : R) (t : Tag) (s : Bool) : NP (parseBytes r t s) := by
  unfold parseBytes
  split
  · rfl
  · split
    · simp only; split <;> rfl
    · rfl

theorem parseString_np (r : R) (t : Tag) : NP (parseString r t) := by
  unfold parseString
  exact np_bind' _ _ (parseBytes_np r t false) (fun _ => rfl)

theorem embedded_len (t : Tag) : (embedded t).length = 4 := put_length _ _ _

theorem parseUint32_np (t : Tag) : NP (parseUint32 t) := by
  unfold parseUint32
  split
  · rfl
  · split
    · rw [u16_ok _ _ (by rw [embedded_len]; omega)]; rfl
    · rfl

theorem parseUint16_np (t : Tag) : NP (parseUint16 t) := by
  unfold parseUint16; split
  · rw [u16_ok _ _ (by rw [embedded_len]; omega)]; rfl
  · rfl

theorem parseRationalU_np (r : R) (t : Tag) : NP (parseRationalU r t) := by
  unfold parseRationalU
  split
  · simp only
    split
    · rfl
    · rename_i h
      simp only [Bool.or_eq_true, decide_eq_true_eq, not_or, Nat.not_lt] at h
      have hb := h.2
      simp only [bind, Outcome.bind, rd32_ok _ _ 0 (show 0 + 4 ≤ (readTagValue r t).buf.length by omega),
        rd32_ok _ _ 4 (show 4 + 4 ≤ (readTagValue r t).buf.length by omega)]
      rfl
  · rfl

theorem parseDate_np (r : R) (t : Tag) : NP (parseDate r t) := by
  unfold parseDate
  split
  · simp only
    split
    · rfl
    · split
      · rename_i h19
        simp only [bind, Outcome.bind, idx_ok _ 4 (show 4 < (readTagValue r t).buf.length by omega),
          idx_ok _ 7 (show 7 < (readTagValue r t).buf.length by omega), idx_ok _ 10 (show 10 < (readTagValue r t).buf.length by omega),
          idx_ok _ 13 (show 13 < (readTagValue r t).buf.length by omega), idx_ok _ 16 (show 16 < (readTagValue r t).buf.length by omega)]
        split
        · exact np_bind' _ _ (dateOf_np _ h19) (fun _ => rfl)
        · rfl
      · rfl
  · rfl

theorem parseOffsetTime_np (r : R) (t : Tag) : NP (parseOffsetTime r t) := by
  unfold parseOffsetTime
  split
  · simp only
    split
    · rfl
    · split
      · rename_i h6
        simp only [bind, Outcome.bind, idx_ok _ 3 (show 3 < (readTagValue r t).buf.length by omega)]
        split
        · simp only [slc_ok _ 1 3 (by omega) (show 3 ≤ (readTagValue r t).buf.length by omega),
            slc_ok _ 4 6 (by omega) (show 6 ≤ (readTagValue r t).buf.length by omega),
            slc_ok _ 0 6 (by omega) (show 6 ≤ (readTagValue r t).buf.length by omega),
            idx_ok _ 0 (show 0 < (readTagValue r t).buf.length by omega), Outcome.bind]
          split
          · rfl
          · split <;> rfl
        · rfl
      · rfl
  · rfl

theorem parseSubSec_np (r : R) (t : Tag) : NP (parseSubSec r t) := by
  unfold parseSubSec
  split
  · split
    · rfl
    · exact np_bind' _ _ (parseBytes_np r t true) (fun _ => rfl)
  · rfl

theorem parseLensInfo_np (r : R) (t : Tag) : NP (parseLensInfo r t) := by
  unfold parseLensInfo
  split
  · simp only
    split
    · rfl
    · rename_i h
      simp only [Bool.or_eq_true, decide_eq_true_eq, not_or, Nat.not_lt] at h
      have hb := h.2
      refine np_bind' _ _ (six_np _ _ (by omega)) (fun a => ?_)
      simp only [rd32_ok _ _ 24 (show 24 + 4 ≤ (readTagValue r t).buf.length by omega),
        rd32_ok _ _ 28 (show 28 + 4 ≤ (readTagValue r t).buf.length by omega), Outcome.bind]
      rfl
  · rfl

theorem parseGPSCoord_np (r : R) (t : Tag) : NP (parseGPSCoord r t) := by
  unfold parseGPSCoord
  split
  · simp only
    split
    · rfl
    · rename_i h
      simp only [Bool.or_eq_true, decide_eq_true_eq, not_or, Nat.not_lt] at h
      exact np_bind' _ _ (six_np _ _ h.2) (fun _ => rfl)
  · rfl

theorem parseGPSAlt_np (r : R) (t : Tag) : NP (parseGPSAlt r t) := by
  unfold parseGPSAlt
  split
  · simp only
    split
    · rfl
    · rename_i h
      simp only [Bool.or_eq_true, decide_eq_true_eq, not_or, Nat.not_lt] at h
      have hb := h.2
      simp only [bind, Outcome.bind, rd32_ok _ _ 0 (show 0 + 4 ≤ (readTagValue r t).buf.length by omega),
        rd32_ok _ _ 4 (show 4 + 4 ≤ (readTagValue r t).buf.length by omega)]
      rfl
  · rfl

theorem parseGPSTime_np (r : R) (t : Tag) : NP (parseGPSTime r t) := by
  unfold parseGPSTime
  split
  · simp only
    split
    · rfl
    · rename_i h
      simp only [Bool.or_eq_true, decide_eq_true_eq, not_or, Nat.not_lt] at h
      exact np_bind' _ _ (six_np _ _ h.2) (fun _ => rfl)
  · rfl

theorem parseGPSDate_np (r : R) (t : Tag) : NP (parseGPSDate r t) := by
  unfold parseGPSDate
  split
  · simp only
    split
    · rfl
    · rename_i h
      simp only [Bool.or_eq_true, decide_eq_true_eq, not_or, Nat.not_lt] at h
      have hb := h.2
      simp only [bind, Outcome.bind, idx_ok _ 4 (show 4 < (readTagValue r t).buf.length by omega),
        idx_ok _ 7 (show 7 < (readTagValue r t).buf.length by omega)]
      split
      · simp only [slc_ok _ 0 4 (by omega) (show 4 ≤ (readTagValue r t).buf.length by omega),
          slc_ok _ 5 7 (by omega) (show 7 ≤ (readTagValue r t).buf.length by omega),
          slc_ok _ 8 10 (by omega) (show 10 ≤ (readTagValue r t).buf.length by omega), Outcome.bind]
        rfl
      · split
        · rename_i h19
          simp only [idx_ok _ 10 (show 10 < (readTagValue r t).buf.length by omega),
            idx_ok _ 13 (show 13 < (readTagValue r t).buf.length by omega),
            idx_ok _ 16 (show 16 < (readTagValue r t).buf.length by omega), Outcome.bind]
          split
          · exact np_bind' _ _ (dateOf_np _ (by omega)) (fun _ => rfl)
          · rfl
        · rfl
  · rfl

end Imeta.Exif

namespace Imeta.Exif
open Imeta

theorem np_ite {α} (c : Prop) [Decidable c] (a b : Outcome α) (ha : NP a) (hb : NP b) : NP (if c then a else b) := by
  split <;> assumption

/-- closes `NP (x.bind fun a => .ok …)`-shaped goals for the value parsers -/
macro "np_step" : tactic => `(tactic| first
  | rfl
  | exact np_bind' _ _ (parseString_np _ _) (fun _ => rfl)
  | exact np_bind' _ _ (parseUint32_np _) (fun _ => rfl)
  | exact np_bind' _ _ (parseUint16_np _) (fun _ => rfl)
  | exact np_bind' _ _ (parseDate_np _ _) (fun _ => rfl)
  | exact np_bind' _ _ (parseRationalU_np _ _) (fun _ => rfl)
  | exact np_bind' _ _ (parseLensInfo_np _ _) (fun _ => rfl)
  | exact np_bind' _ _ (parseSubSec_np _ _) (fun _ => rfl)
  | exact np_bind' _ _ (parseOffsetTime_np _ _) (fun _ => rfl)
  | exact np_bind' _ _ (parseGPSAlt_np _ _) (fun _ => rfl)
  | exact np_bind' _ _ (parseGPSCoord_np _ _) (fun _ => rfl)
  | exact np_bind' _ _ (parseGPSTime_np _ _) (fun _ => rfl)
  | exact np_bind' _ _ (parseGPSDate_np _ _) (fun _ => rfl))

/-- walks an if-chain -/
macro "np_chain" : tactic => `(tactic| repeat (first | np_step | apply np_ite))

theorem parseGpsIfd_np (r : R) (t : Tag) : NP (parseGpsIfd r t) := by
  delta parseGpsIfd
  np_chain

theorem focal_np (r : R) (t : Tag) :
    NP ((if t.typ = tShort ∨ t.typ = tLong then do let v ← parseUint32 t; .ok (r, (v, 1), true)
         else if isRat t then do let (r1, n, d) ← parseRationalU r t; .ok (r1, (n, d), true)
         else .ok (r, (0, 0), false) : Outcome (R × (Nat × Nat) × Bool))) := by
  np_chain

theorem parseExifIfd_np (r : R) (t : Tag) : NP (parseExifIfd r t) := by
  delta parseExifIfd
  repeat (first
    | np_step
    | apply np_ite
    | (refine np_bind' _ _ (focal_np r t) (fun a => ?_)))

theorem parseIfd0_np (tb : Tables) (r : R) (t : Tag) : NP (parseIfd0 tb r t) := by
  delta parseIfd0
  apply np_ite
  · refine np_bind' _ _ (parseBytes_np r t true) (fun a => ?_)
    obtain ⟨r1, s⟩ := a
    simp only
    cases tb.makeOfString s <;> rfl
  · apply np_ite
    · refine np_bind' _ _ (parseBytes_np r t true) (fun a => ?_)
      obtain ⟨r1, s⟩ := a
      simp only
      generalize (if r1.ex.cameraMake = canonMake then tb.canonModel s else if r1.ex.cameraMake = appleMake then tb.appleModel s else none) = hit
      cases hit <;> rfl
    · np_chain

theorem parseTag0_np (tb : Tables) (r : R) (t : Tag) : NP (parseTag0 tb r t) := by
  delta parseTag0
  exact np_ite _ _ _ (parseIfd0_np tb r t) (np_ite _ _ _ (parseExifIfd_np r t) (np_ite _ _ _ (parseGpsIfd_np r t) rfl))

theorem parseTag_np (tb : Tables) (r : R) (t : Tag) : NP (parseTag tb r t) := by
  unfold parseTag
  exact np_bind' _ _ (parseTag0_np tb r t) (fun _ => rfl)

end Imeta.Exif
