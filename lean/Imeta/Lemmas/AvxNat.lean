/-
  Naturality of the polymorphic AVX interpreter and of the portable-kernel model: evaluating the symbolic result under
  an assignment of the inputs gives the result of running the same program in the target arithmetic.
-/
import Imeta.Model.AvxSem
namespace Imeta.AvxSem

variable {α : Type} [Alg α]

def eval (env : Nat → α) : Expr → α
  | .inp k => env k
  | .cst b => Alg.lit b
  | .zero => Alg.zero
  | .add a b => Alg.add (eval env a) (eval env b)
  | .sub a b => Alg.sub (eval env a) (eval env b)
  | .div a b => Alg.div (eval env a) (eval env b)

def evalL (env : Nat → α) : Lane Expr → Lane α
  | .v e => .v (eval env e)
  | .i n => .i n

def evalS (env : Nat → α) (s : S Expr) : S α :=
  { regs := s.regs.map (·.map (evalL env)), ax := s.ax.map (evalL env), sp := s.sp.map (evalL env), cx := evalL env s.cx }

variable (env : Nat → α)

@[simp] theorem eval_add (a b : Expr) : eval env (Alg.add a b : Expr) = Alg.add (eval env a) (eval env b) := rfl
@[simp] theorem eval_sub (a b : Expr) : eval env (Alg.sub a b : Expr) = Alg.sub (eval env a) (eval env b) := rfl
@[simp] theorem eval_div (a b : Expr) : eval env (Alg.div a b : Expr) = Alg.div (eval env a) (eval env b) := rfl
@[simp] theorem eval_lit (b : Nat) : eval env (Alg.lit b : Expr) = (Alg.lit b : α) := rfl
@[simp] theorem eval_zero' : eval env (Alg.zero : Expr) = (Alg.zero : α) := rfl
@[simp] theorem evalL_z : evalL env (z : Lane Expr) = (z : Lane α) := rfl
@[simp] theorem map_zero4 : (zero4 : List (Lane Expr)).map (evalL env) = (zero4 : List (Lane α)) := rfl
@[simp] theorem map_zero8 : (zero8 : List (Lane Expr)).map (evalL env) = (zero8 : List (Lane α)) := rfl

@[simp] theorem getReg_evalS (s : S Expr) (n : Nat) : getReg (evalS env s) n = (getReg s n).map (evalL env) := by
  unfold getReg evalS
  simp only [List.getD_eq_getElem?_getD, List.getElem?_map]
  cases s.regs[n]? <;> simp

@[simp] theorem nth_map (l : List (Lane Expr)) (k : Nat) : nth (l.map (evalL env)) k = evalL env (nth l k) := by
  unfold nth
  simp only [List.getD_eq_getElem?_getD, List.getElem?_map]
  cases l[k]? <;> simp

theorem setReg_evalS (s : S Expr) (n : Nat) (l : List (Lane Expr)) :
    setReg (evalS env s) n (l.map (evalL env)) = evalS env (setReg s n l) := by
  unfold setReg evalS
  simp [List.map_set]

@[simp] theorem lo_map (l : List (Lane Expr)) : lo (l.map (evalL env)) = (lo l).map (evalL env) := by unfold lo; simp [List.map_take]
@[simp] theorem hi_map (l : List (Lane Expr)) : hi (l.map (evalL env)) = (hi l).map (evalL env) := by unfold hi; simp [List.map_drop]

theorem lift2_add (x y : Lane Expr) : evalL env (lift2 Alg.add x y) = lift2 Alg.add (evalL env x) (evalL env y) := by
  cases x <;> cases y <;> rfl
theorem lift2_sub (x y : Lane Expr) : evalL env (lift2 Alg.sub x y) = lift2 Alg.sub (evalL env x) (evalL env y) := by
  cases x <;> cases y <;> rfl
theorem lift2_div (x y : Lane Expr) : evalL env (lift2 Alg.div x y) = lift2 Alg.div (evalL env x) (evalL env y) := by
  cases x <;> cases y <;> rfl

theorem zipWith_lift2 (f : Expr → Expr → Expr) (g : α → α → α)
    (h : ∀ x y, evalL env (lift2 f x y) = lift2 g (evalL env x) (evalL env y)) (a b : List (Lane Expr)) :
    List.zipWith (lift2 g) (a.map (evalL env)) (b.map (evalL env)) = (List.zipWith (lift2 f) a b).map (evalL env) := by
  induction a generalizing b with
  | nil => simp
  | cons x t ih =>
    cases b with
    | nil => simp
    | cons y u => simp [ih, h]

theorem writeLanes_map (m l : List (Lane Expr)) (k : Nat) :
    writeLanes (m.map (evalL env)) k (l.map (evalL env)) = (writeLanes m k l).map (evalL env) := by
  unfold writeLanes
  simp [List.map_take, List.map_drop]

theorem src_evalS (table : String → List Nat × Nat) (s : S Expr) (a : Arg) (n : Nat) :
    src table (evalS env s) a n = (src table s a n).map (·.map (evalL env)) := by
  unfold src
  split
  · simp [List.map_take]
  · simp only [evalS, List.length_map]
    split <;> simp [List.map_take, List.map_drop]
  · simp only [evalS, List.length_map]
    split <;> simp [List.map_take, List.map_drop]
  · simp only []
    split
    · split <;> simp [Function.comp_def, evalL, eval]
    · split <;> simp [Function.comp_def, evalL]
  · rfl

theorem store_evalS (s : S Expr) (a : Arg) (l : List (Lane Expr)) :
    store (evalS env s) a (l.map (evalL env)) = (store s a l).map (evalS env) := by
  unfold store
  split
  · simp only [evalS, List.length_map]
    split
    · simp [writeLanes_map, evalS]
    · rfl
  · simp only [evalS, List.length_map]
    split
    · simp [writeLanes_map, evalS]
    · rfl
  · rfl

end Imeta.AvxSem

namespace Imeta.AvxSem
variable {α : Type} [Alg α] (env : Nat → α)

theorem vex_map (l : List (Lane Expr)) : vex (l.map (evalL env)) = (vex l).map (evalL env) := by
  unfold vex; simp only [List.length_map]; split <;> simp

theorem shuf4_map (v : Nat) (l : List (Lane Expr)) : shuf4 v (l.map (evalL env)) = (shuf4 v l).map (evalL env) := by
  unfold shuf4; simp

theorem perHalf_map (w : Nat) (f : List (Lane Expr) → List (Lane Expr) → List (Lane Expr)) (g : List (Lane α) → List (Lane α) → List (Lane α))
    (h : ∀ a b, g (a.map (evalL env)) (b.map (evalL env)) = (f a b).map (evalL env)) (a b : List (Lane Expr)) :
    perHalf w g (a.map (evalL env)) (b.map (evalL env)) = (perHalf w f a b).map (evalL env) := by
  unfold perHalf; split <;> simp [h]

theorem evalS_regs_map (s : S Expr) (f : List (Lane Expr) → List (Lane Expr)) (g : List (Lane α) → List (Lane α))
    (h : ∀ r, g (r.map (evalL env)) = (f r).map (evalL env)) :
    { evalS env s with regs := (evalS env s).regs.map g } = evalS env { s with regs := s.regs.map f } := by
  unfold evalS
  simp [List.map_map, Function.comp_def, h]

theorem setReg_app (s : S Expr) (d : Nat) (a b : List (Lane Expr)) :
    setReg (evalS env s) d (a.map (evalL env) ++ b.map (evalL env)) = evalS env (setReg s d (a ++ b)) := by
  rw [← List.map_append]; exact setReg_evalS env s d _

theorem bin3_natural (table : String → List Nat × Nat) (f : Expr → Expr → Expr) (g : α → α → α)
    (h : ∀ x y, evalL env (lift2 f x y) = lift2 g (evalL env x) (evalL env y)) (n : Nat) (s : S Expr) (a : Arg) (b d : Nat) :
    bin3 table g n (evalS env s) a b d = (bin3 table f n s a b d).map (evalS env) := by
  unfold bin3
  simp only [src_evalS, getReg_evalS, ← List.map_take]
  cases src table s a n with
  | none => rfl
  | some x =>
    simp only [Option.map_some, Option.bind_eq_bind, Option.bind_some, Option.pure_def]
    rw [zipWith_lift2 env f g h, vex_map, setReg_evalS]

theorem bin2_natural (table : String → List Nat × Nat) (f : Expr → Expr → Expr) (g : α → α → α)
    (h : ∀ x y, evalL env (lift2 f x y) = lift2 g (evalL env x) (evalL env y)) (s : S Expr) (a : Arg) (d : Nat) :
    bin2 table g (evalS env s) a d = (bin2 table f s a d).map (evalS env) := by
  unfold bin2
  simp only [src_evalS, getReg_evalS, ← List.map_take, hi_map]
  cases src table s a 4 with
  | none => rfl
  | some x =>
    simp only [Option.map_some, Option.bind_eq_bind, Option.bind_some, Option.pure_def]
    rw [zipWith_lift2 env f g h, setReg_app]

theorem unpck_natural (table : String → List Nat × Nat) (high : Bool) (n : Nat) (s : S Expr) (a : Arg) (b d : Nat) :
    unpck table high n (evalS env s) a b d = (unpck table high n s a b d).map (evalS env) := by
  unfold unpck
  simp only [src_evalS, getReg_evalS, ← List.map_take]
  cases src table s a n with
  | none => rfl
  | some x =>
    simp only [Option.map_some, Option.bind_eq_bind, Option.bind_some, Option.pure_def]
    cases high
    · simp only [Bool.false_eq_true, if_false]
      rw [perHalf_map env n (fun a b => [nth b 0, nth a 0, nth b 1, nth a 1]) _ (by intro a b; simp), vex_map, setReg_evalS]
    · simp only [if_true]
      rw [perHalf_map env n (fun a b => [nth b 2, nth a 2, nth b 3, nth a 3]) _ (by intro a b; simp), vex_map, setReg_evalS]

@[simp] theorem nth_take_map (n k : Nat) (l : List (Lane Expr)) :
    nth (List.take n (List.map (evalL env) l)) k = evalL env (nth (List.take n l) k) := by
  rw [← List.map_take]; exact nth_map env _ _

theorem range_map_nat (c : Nat → Bool) (f : Nat → Nat) (x : List (Lane Expr)) :
    (List.range 4).map (fun i => if c i then nth (x.map (evalL env)) (f i) else (z : Lane α)) =
    ((List.range 4).map (fun i => if c i then nth x (f i) else (z : Lane Expr))).map (evalL env) := by
  simp only [List.map_map]
  apply List.map_congr_left
  intro i _
  simp only [Function.comp, nth_map]
  split <;> simp

theorem exec_natural (table : String → List Nat × Nat) (ins : VIns) (s : S Expr) :
    exec table ins (evalS env s) = (exec table ins s).map (evalS env) := by
  unfold exec
  split
  case h_1 => rfl
  case h_2 => rfl
  case h_3 =>
    simp only [Option.map_some, Option.some.injEq]
    exact evalS_regs_map env s (fun r => lo r ++ zero4) (fun r => lo r ++ zero4) (by intro r; simp)
  case h_4 =>
    simp only [Option.map_some, Option.some.injEq]
    exact evalS_regs_map env s (fun _ => zero8) (fun _ => zero8) (by intro r; simp)
  case h_5 =>
    simp only [src_evalS]
    cases src table s _ _ <;> simp [vex_map, setReg_evalS]
  case h_6 =>
    simp only [getReg_evalS, ← List.map_take]
    exact store_evalS env s _ _
  case h_7 =>
    simp only [src_evalS, getReg_evalS, hi_map]
    cases src table s _ _ <;> simp [setReg_app]
  case h_8 =>
    simp only [getReg_evalS, ← List.map_take]
    exact store_evalS env s _ _
  case h_9 =>
    show store (evalS env s) _ ([s.cx].map (evalL env)) = _
    exact store_evalS env s _ _
  case h_10 =>
    simp only [src_evalS]
    cases src table s _ _ <;> simp [evalS, nth_map]
  case h_11 =>
    simp only [src_evalS]
    cases src table s _ _ <;> simp [setReg_evalS]
  case h_12 =>
    simp only [src_evalS, getReg_evalS]
    cases src table s _ _ with
    | none => rfl
    | some data =>
      simp only [Option.map_some, Option.bind_eq_bind, Option.bind_some, Option.pure_def, Option.some.injEq]
      rw [← setReg_evalS]
      congr 1
      simp only [List.map_map]
      apply List.map_congr_left
      intro l _
      cases l <;> simp [evalL, nth_map]
  case h_13 => exact bin3_natural env table _ _ (lift2_add env) 8 s _ _ _
  case h_14 => exact bin3_natural env table _ _ (lift2_sub env) 8 s _ _ _
  case h_15 => exact bin3_natural env table _ _ (lift2_div env) 8 s _ _ _
  case h_16 => exact bin3_natural env table _ _ (lift2_add env) 4 s _ _ _
  case h_17 => exact bin3_natural env table _ _ (lift2_sub env) 4 s _ _ _
  case h_18 => exact bin3_natural env table _ _ (lift2_div env) 4 s _ _ _
  case h_19 => exact unpck_natural env table false 8 s _ _ _
  case h_20 => exact unpck_natural env table true 8 s _ _ _
  case h_21 => exact unpck_natural env table false 4 s _ _ _
  case h_22 => exact unpck_natural env table true 4 s _ _ _
  case h_23 => exact bin2_natural env table _ _ (lift2_add env) s _ _
  case h_24 => exact bin2_natural env table _ _ (lift2_div env) s _ _
  case h_25 =>
    simp only [src_evalS, getReg_evalS, hi_map]
    cases src table s _ _ <;> simp [shuf4_map, setReg_app]
  case h_26 =>
    simp only [getReg_evalS, ← List.map_take]
    split
    · simp only [Option.map_some, Option.some.injEq]
      rw [← setReg_app]
      congr 2
      simp only [List.map_map]
      apply List.map_congr_left
      intro i _
      simp only [Function.comp]
      split <;> simp [nth_take_map]
    · rfl
  case h_27 =>
    simp only [getReg_evalS, ← List.map_take]
    split
    · simp only [Option.map_some, Option.some.injEq]
      rw [← setReg_app]
      congr 2
      simp only [List.map_map]
      apply List.map_congr_left
      intro i _
      simp only [Function.comp]
      split <;> simp [nth_take_map]
    · rfl
  case h_28 =>
    simp only [src_evalS, getReg_evalS, ← List.map_take]
    cases src table s _ _ with
    | none => rfl
    | some x =>
      simp only [Option.map_some, Option.bind_eq_bind, Option.bind_some, Option.pure_def, Option.some.injEq]
      rw [← setReg_app]
      simp [nth_take_map]
  case h_29 =>
    simp only [src_evalS, getReg_evalS, ← List.map_take]
    cases src table s _ _ with
    | none => rfl
    | some x =>
      simp only [Option.map_some, Option.bind_eq_bind, Option.bind_some, Option.pure_def, Option.some.injEq]
      rw [← setReg_app]
      congr 2
      simp only [List.map_map]
      apply List.map_congr_left
      intro i _
      simp only [Function.comp]
      split <;> simp [nth_take_map]
  case h_30 =>
    simp only [src_evalS, getReg_evalS]
    cases src table s _ _ with
    | none => rfl
    | some x =>
      simp only [Option.map_some, Option.bind_eq_bind, Option.bind_some, Option.pure_def, Option.some.injEq]
      rw [← setReg_app]
      congr 2
      · split
        · simp
        · split <;> simp
      · split
        · simp
        · split <;> simp
  case h_31 => rfl

theorem run_natural (table : String → List Nat × Nat) (prog : List VIns) (s : S Expr) :
    run table prog (evalS env s) = (run table prog s).map (evalS env) := by
  induction prog generalizing s with
  | nil => rfl
  | cons i t ih =>
    simp only [run]
    rw [exec_natural]
    cases exec table i s with
    | none => rfl
    | some s' => simp only [Option.map_some]; exact ih s'

theorem init_natural (xs : List Expr) (frame : Nat) : S.init (xs.map (eval env)) frame = evalS env (S.init xs frame) := by
  unfold S.init evalS
  simp only [List.map_replicate, map_zero8, evalL_z, List.map_map]
  congr 1

/-- **Naturality of the assembly semantics**: running a program in any arithmetic on the values of symbolic inputs is
evaluating the symbolic result. -/
theorem kernel_natural (table : String → List Nat × Nat) (prog : List VIns) (frame : Nat) (xs : List Expr) :
    kernel table prog frame (xs.map (eval env)) = (kernel table prog frame xs).map (·.map (evalL env)) := by
  unfold kernel
  rw [init_natural, run_natural]
  cases run table prog (S.init xs frame) <;> simp [evalS]

/-! ### the portable kernels are natural too -/

theorem getA_map (l : List Expr) (k : Nat) : getA (l.map (eval env)) k = eval env (getA l k) := by
  unfold getA
  simp only [List.getD_eq_getElem?_getD, List.getElem?_map]
  cases l[k]? <;> simp

theorem goStep_natural (half : List Expr → List Expr) (half' : List α → List α)
    (hh : ∀ l, half' (l.map (eval env)) = (half l).map (eval env)) (tab : List Nat) (x : List Expr) :
    goStep half' tab (x.map (eval env)) = (goStep half tab x).map (eval env) := by
  unfold goStep
  simp only [List.length_map, getA_map]
  have h1 : (List.range (x.length / 2)).map (fun i => Alg.add (eval env (getA x i)) (eval env (getA x (x.length - 1 - i)))) =
      ((List.range (x.length / 2)).map (fun i => Alg.add (getA x i) (getA x (x.length - 1 - i)))).map (eval env) := by
    simp [List.map_map, Function.comp_def, eval]
  have h2 : (List.range (x.length / 2)).map (fun i => Alg.div (Alg.sub (eval env (getA x i)) (eval env (getA x (x.length - 1 - i)))) (Alg.lit (tab.getD i 0))) =
      ((List.range (x.length / 2)).map (fun i => Alg.div (Alg.sub (getA x i) (getA x (x.length - 1 - i))) (Alg.lit (tab.getD i 0)))).map (eval env) := by
    simp [List.map_map, Function.comp_def, eval]
  rw [h1, h2, hh, hh]
  simp only [getA_map, List.map_append, List.map_flatten, List.map_map, List.map_cons, List.map_nil]
  congr 1

theorem goDct2_natural (c : Nat) (x : List Expr) : goDct2 c (x.map (eval env)) = (goDct2 c x).map (eval env) := by
  unfold goDct2; simp [getA_map, eval]

theorem goDct4_natural (g : GoTabs) (x : List Expr) : goDct4 g (x.map (eval env)) = (goDct4 g x).map (eval env) := by
  unfold goDct4
  simp only [getA_map]
  have e1 : [Alg.add (eval env (getA x 0)) (eval env (getA x 3)), Alg.add (eval env (getA x 1)) (eval env (getA x 2))] =
      [Alg.add (getA x 0) (getA x 3), Alg.add (getA x 1) (getA x 2)].map (eval env) := by simp [eval]
  have e2 : [Alg.div (Alg.sub (eval env (getA x 0)) (eval env (getA x 3))) (Alg.lit (g.t4.getD 0 0)), Alg.div (Alg.sub (eval env (getA x 1)) (eval env (getA x 2))) (Alg.lit (g.t4.getD 1 0))] =
      [Alg.div (Alg.sub (getA x 0) (getA x 3)) (Alg.lit (g.t4.getD 0 0)), Alg.div (Alg.sub (getA x 1) (getA x 2)) (Alg.lit (g.t4.getD 1 0))].map (eval env) := by simp [eval]
  rw [e1, e2, goDct2_natural, goDct2_natural]
  simp [getA_map, eval]

theorem goDct8_natural (g : GoTabs) (x : List Expr) : goDct8 g (x.map (eval env)) = (goDct8 g x).map (eval env) :=
  goStep_natural env _ _ (goDct4_natural env g) _ x
theorem goDct16_natural (g : GoTabs) (x : List Expr) : goDct16 g (x.map (eval env)) = (goDct16 g x).map (eval env) :=
  goStep_natural env _ _ (goDct8_natural env g) _ x
theorem goDct32_natural (g : GoTabs) (x : List Expr) : goDct32 g (x.map (eval env)) = (goDct32 g x).map (eval env) :=
  goStep_natural env _ _ (goDct16_natural env g) _ x
theorem goDct64_natural (g : GoTabs) (x : List Expr) : goDct64 g (x.map (eval env)) = (goDct64 g x).map (eval env) :=
  goStep_natural env _ _ (goDct32_natural env g) _ x
theorem goDct128_natural (g : GoTabs) (x : List Expr) : goDct128 g (x.map (eval env)) = (goDct128 g x).map (eval env) :=
  goStep_natural env _ _ (goDct64_natural env g) _ x
theorem goDct256_natural (g : GoTabs) (x : List Expr) : goDct256 g (x.map (eval env)) = (goDct256 g x).map (eval env) :=
  goStep_natural env _ _ (goDct128_natural env g) _ x

end Imeta.AvxSem
