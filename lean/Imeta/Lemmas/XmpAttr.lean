/-
  C13: attribute form, names and all.  One attribute `ns:name=q v q` at the head of the stream (after any amount of white
  space) is reported with the property `identify ns name` and exactly the value v, and exactly its bytes are consumed.
-/
import Imeta.Props.C13
namespace Imeta.Xmp
open Imeta Imeta.Props.C13

theorem idxFrom_skip (p : UInt8 → Bool) (pre v w : Bytes) (hv : ∀ x ∈ v, p x = false) :
    idxFrom p (pre ++ v ++ w) pre.length = pre.length + v.length + w.findIdx p := by
  unfold idxFrom
  have : (pre ++ v ++ w).drop pre.length = v ++ w := by simp
  rw [this, findIdx_skip p v w hv]; omega

/-- the name of an attribute: a first byte that is not white space, no ':' among the following bytes of the prefix, ':',
one byte, then no '=' and no white space up to the '=' -/
theorem parseAttrName_exact (n0 : UInt8) (ns : Bytes) (m0 : UInt8) (name w : Bytes)
    (h0 : isWs n0 = false) (hns : ∀ x ∈ ns, (x == 58) = false) (hname : ∀ x ∈ name, (x == 61 || isWs x) = false) :
    parseAttrName ((n0 :: ns) ++ [58] ++ (m0 :: name) ++ 61 :: w) =
      some (identify (n0 :: ns) (m0 :: name), ns.length + name.length + 3) := by
  unfold parseAttrName
  have ha : idxFrom (fun b => !isWs b) ((n0 :: ns) ++ [58] ++ (m0 :: name) ++ 61 :: w) 0 = 0 := by
    unfold idxFrom; simp [List.findIdx_cons, h0]
  simp only [ha]
  have hb : idxFrom (fun x => x == 58) ((n0 :: ns) ++ [58] ++ (m0 :: name) ++ 61 :: w) (0 + 1) = ns.length + 1 := by
    have e : ((n0 :: ns) ++ [58] ++ (m0 :: name) ++ 61 :: w : Bytes) = [n0] ++ ns ++ ([58] ++ (m0 :: name) ++ 61 :: w) := by simp
    rw [e]
    have := idxFrom_skip (fun x => x == 58) [n0] ns ([58] ++ (m0 :: name) ++ 61 :: w) hns
    simp only [List.length_singleton] at this
    rw [this]; simp [List.findIdx_cons]; omega
  simp only [hb]
  have hc : idxFrom (fun x => x == 61 || isWs x) ((n0 :: ns) ++ [58] ++ (m0 :: name) ++ 61 :: w) (ns.length + 1 + 2) = ns.length + name.length + 3 := by
    have e : ((n0 :: ns) ++ [58] ++ (m0 :: name) ++ 61 :: w : Bytes) = ((n0 :: ns) ++ [58, m0]) ++ name ++ (61 :: w) := by simp
    rw [e]
    have := idxFrom_skip (fun x => x == 61 || isWs x) ((n0 :: ns) ++ [58, m0]) name (61 :: w) hname
    have hl : ((n0 :: ns) ++ [58, m0] : Bytes).length = ns.length + 1 + 2 := by simp
    rw [hl] at this
    rw [this]; simp [List.findIdx_cons]; omega
  simp only [hc]
  have hlt : ns.length + name.length + 3 < ((n0 :: ns) ++ [58] ++ (m0 :: name) ++ 61 :: w : Bytes).length := by simp; omega
  rw [if_pos hlt]
  congr 2
  · congr 1
    · simp
    · have e : ((n0 :: ns) ++ [58] ++ (m0 :: name) ++ 61 :: w : Bytes) = ((n0 :: ns) ++ [58]) ++ ((m0 :: name) ++ 61 :: w) := by simp
      rw [e]
      have hl : ((n0 :: ns) ++ [58] : Bytes).length = ns.length + 1 + 1 := by simp
      rw [← hl, List.drop_left]
      have : ns.length + name.length + 3 - (ns.length + 1 + 1) = (m0 :: name).length := by simp; omega
      rw [hl, this, List.take_left]

theorem peek_take (n : Nat) (st : St) (hn : n ≤ W) (h4 : 4 < st.rest.length) : peek n st = (.ok (st.rest.take n), st) := by
  unfold peek
  rw [if_neg (by omega)]
  split
  · rw [List.take_of_length_le (by omega)]
  · rfl

/-- white space in front of an attribute name is consumed, however long it is -/
theorem skipAttrWs_exact : ∀ (k : Nat) (ws z : Bytes) (c : UInt8) (z' : Bytes) (f : Nat) (st : St),
    ws.length = k → (∀ x ∈ ws, isWs x = true) → z = c :: z' → isWs c = false → 4 < z.length → st.rest = ws ++ z → k < f →
    skipAttrWs f st = (.ok (z.take 128), { st with rest := z }) := by
  intro k
  induction k using Nat.strongRecOn with
  | _ k ih =>
    intro ws z c z' f st hk hws hz hc h4 hrest hf
    cases f with
    | zero => omega
    | succ f =>
      unfold skipAttrWs
      have hl : 4 < st.rest.length := by rw [hrest]; simp; omega
      rw [bindOk _ _ _ _ _ (peek_take 128 st (by unfold W; omega) hl)]
      by_cases hk0 : k = 0
      · have : ws = [] := List.eq_nil_of_length_eq_zero (by omega)
        subst this
        simp only [List.nil_append] at hrest
        have hfi : (st.rest.take 128).findIdx (fun b => !isWs b) = 0 := by
          rw [hrest, hz]; simp [List.findIdx_cons, hc]
        simp only [hfi, beq_self_eq_true, if_true]
        show (Except.ok (st.rest.take 128), st) = _
        rw [hrest]
        cases st; simp_all
      · -- some white space: n > 0 bytes go, the rest is handled by the induction hypothesis
        have hn : (st.rest.take 128).findIdx (fun b => !isWs b) = min k 128 := by
          rw [hrest]
          by_cases hk128 : k < 128
          · have e : (ws ++ z).take 128 = ws ++ z.take (128 - k) := by
              rw [List.take_append, List.take_of_length_le (by omega), hk]
            rw [e, findIdx_skip _ _ _ (by intro x hx; simp [hws x hx])]
            have : (z.take (128 - k)).findIdx (fun b => !isWs b) = 0 := by
              rw [hz]
              have : 128 - k = (128 - k - 1) + 1 := by omega
              rw [this, List.take_succ_cons]; simp [List.findIdx_cons, hc]
            rw [this, hk]; omega
          · have e : (ws ++ z).take 128 = ws.take 128 := by
              exact List.take_append_of_le_length (by omega)
            rw [e]
            have hall : ∀ x ∈ ws.take 128, (fun b => !isWs b) x = false := by
              intro x hx; simp [hws x (List.mem_of_mem_take hx)]
            have := findIdx_skip (fun b => !isWs b) (ws.take 128) [] hall
            simp only [List.append_nil, List.findIdx_nil, Nat.add_zero] at this
            rw [this, List.length_take]; omega
        have hne : ((st.rest.take 128).findIdx (fun b => !isWs b) == 0) = false := by rw [hn]; simp; omega
        simp only [hne, Bool.false_eq_true, if_false]
        rw [hn]
        show (discard (min k 128) >>= fun _ => skipAttrWs f) st = _
        show skipAttrWs f { st with rest := st.rest.drop (min k 128) } = _
        have hdrop : st.rest.drop (min k 128) = ws.drop (min k 128) ++ z := by
          rw [hrest]; exact List.drop_append_of_le_length (by omega)
        have := ih (k - min k 128) (by omega) (ws.drop (min k 128)) z c z' f { st with rest := st.rest.drop (min k 128) }
          (by rw [List.length_drop]; omega) (fun x hx => hws x (List.mem_of_mem_drop hx)) hz hc h4 hdrop (by omega)
        rw [this]

/-- the name part of an attribute: white space, then `ns:name` and `=` within the 128-byte look-ahead; the reader goes on
with the value from the `=` on -/
theorem readAttribute_name (tag : Tag) (st : St) (ws : Bytes) (n0 : UInt8) (ns : Bytes) (m0 : UInt8) (name R2 : Bytes)
    (hws : ∀ x ∈ ws, isWs x = true) (h0 : isWs n0 = false) (hst : (n0 == 62) = false ∧ (n0 == 47) = false) (hns : ∀ x ∈ ns, (x == 58) = false)
    (hname : ∀ x ∈ name, (x == 61 || isWs x) = false) (hwin : ns.length + name.length + 4 ≤ 128) (hR2 : 4 ≤ R2.length)
    (hrest : st.rest = ws ++ (((n0 :: ns) ++ [58] ++ (m0 :: name)) ++ 61 :: R2)) :
    readAttribute tag st = (readAttrValue tag 8 256 >>= fun x => match x with
      | (v, tag') => pure ({ pt := 1, parent := tag.self, self := identify (n0 :: ns) (m0 :: name), val := v }, tag'))
      { st with rest := 61 :: R2 } := by
  unfold readAttribute
  rw [bindOk (fun st => ((Except.ok st.rest.length : Except XErr Nat), st)) _ st st st.rest.length rfl]
  have hz : (((n0 :: ns) ++ [58] ++ (m0 :: name)) ++ 61 :: R2 : Bytes) = n0 :: (ns ++ [58] ++ (m0 :: name) ++ 61 :: R2) := by simp
  have hzl : 4 < (((n0 :: ns) ++ [58] ++ (m0 :: name)) ++ 61 :: R2 : Bytes).length := by simp; omega
  rw [bindOk _ _ _ _ _ (skipAttrWs_exact ws.length ws _ n0 _ (st.rest.length + 2) st rfl hws hz h0 hzl hrest (by rw [hrest]; simp; omega))]
  have htake : ((((n0 :: ns) ++ [58] ++ (m0 :: name)) ++ 61 :: R2 : Bytes)).take 128 =
      (n0 :: ns) ++ [58] ++ (m0 :: name) ++ 61 :: (R2.take (128 - (ns.length + name.length + 4))) := by
    have e : (((n0 :: ns) ++ [58] ++ (m0 :: name)) ++ 61 :: R2 : Bytes) = ((n0 :: ns) ++ [58] ++ (m0 :: name) ++ [61]) ++ R2 := by simp
    rw [e, List.take_append, List.take_of_length_le (by simp; omega)]
    have : ((n0 :: ns) ++ [58] ++ (m0 :: name) ++ [61] : Bytes).length = ns.length + name.length + 4 := by simp; omega
    rw [this]; simp
  rw [htake, parseAttrName_exact n0 ns m0 name _ h0 hns hname]
  dsimp only
  have hn62 : n0 ≠ 62 := by have := hst.1; simpa using this
  have hn47 : n0 ≠ 47 := by have := hst.2; simpa using this
  rw [if_neg (by simp [hn62]), if_neg (by simp [hn47])]
  have hdrop : (((n0 :: ns) ++ [58] ++ (m0 :: name)) ++ 61 :: R2 : Bytes).drop (ns.length + name.length + 3) = 61 :: R2 := by
    have : ((n0 :: ns) ++ [58] ++ (m0 :: name) : Bytes).length = ns.length + name.length + 3 := by simp; omega
    rw [← this, List.drop_left]
  show (discard (ns.length + name.length + 3) >>= fun _ => _) _ = _
  show (skipAttrWs (st.rest.length + 2) >>= fun _ => _) { st with rest := (((n0 :: ns) ++ [58] ++ (m0 :: name)) ++ 61 :: R2 : Bytes).drop (ns.length + name.length + 3) } = _
  rw [hdrop]
  -- the '=' follows the name directly: the second white-space skip changes nothing
  rw [bindOk _ _ _ _ _ (skipAttrWs_exact 0 [] (61 :: R2) 61 R2 (st.rest.length + 2) { st with rest := 61 :: R2 } rfl (by intro x hx; cases hx) rfl (by decide)
    (by simp only [List.length_cons]; omega) rfl (by omega))]

theorem peek256 (st : St) (v t'' : Bytes) (q a b : UInt8) (hvwin : v.length + 5 ≤ 256) :
    peek 256 { st with rest := [61, q] ++ v ++ [q, a, b] ++ t'' } =
      (.ok ([61, q] ++ v ++ [q, a, b] ++ t''.take (256 - (v.length + 5))), { st with rest := [61, q] ++ v ++ [q, a, b] ++ t'' }) := by
  rw [peek_take 256 _ (by unfold W; omega) (by simp; omega)]
  congr 2
  show (([61, q] ++ v ++ [q, a, b]) ++ t'' : Bytes).take 256 = _
  rw [List.take_append, List.take_of_length_le (by simp; omega)]
  have : ([61, q] ++ v ++ [q, a, b] : Bytes).length = v.length + 5 := by simp
  rw [this]

/-- **One attribute, name and value.**  After any amount of white space, `ns:name=q v q` (name within the 128-byte
look-ahead, value and the two bytes after its closing quote within the first 256-byte window, the byte after the quote
neither '>' nor '/') is reported as the property `identify ns name` with exactly the value v; the white space, the name,
`=`, both quotes and v are consumed and nothing else. -/
theorem readAttribute_exact (tag : Tag) (st : St) (ws : Bytes) (n0 : UInt8) (ns : Bytes) (m0 : UInt8) (name v t'' : Bytes) (q c1 c2 : UInt8)
    (hws : ∀ x ∈ ws, isWs x = true) (h0 : isWs n0 = false) (hst : (n0 == 62) = false ∧ (n0 == 47) = false) (hns : ∀ x ∈ ns, (x == 58) = false)
    (hname : ∀ x ∈ name, (x == 61 || isWs x) = false) (hq : q = 34 ∨ q = 39) (hv : ∀ x ∈ v, (x == q) = false)
    (h62 : c1 ≠ 62) (h47 : c1 ≠ 47) (hwin : ns.length + name.length + 4 ≤ 128) (hvwin : v.length + 5 ≤ 256)
    (hrest : st.rest = ws ++ (((n0 :: ns) ++ [58] ++ (m0 :: name)) ++ ([61, q] ++ v ++ [q, c1, c2] ++ t''))) :
    readAttribute tag st = (.ok ({ pt := 1, parent := tag.self, self := identify (n0 :: ns) (m0 :: name), val := v }, tag),
      { st with rest := [c1, c2] ++ t'' }) := by
  have e : ([61, q] ++ v ++ [q, c1, c2] ++ t'' : Bytes) = 61 :: (q :: (v ++ [q, c1, c2] ++ t'')) := by simp
  rw [e] at hrest
  rw [readAttribute_name tag st ws n0 ns m0 name _ hws h0 hst hns hname hwin (by simp; omega) hrest, ← e]
  rw [bindOk _ _ _ _ _ (attr_value_exact tag 7 256 _ v _ q c1 c2 hq hv (peek256 st v t'' q c1 c2 hvwin) h62 h47)]
  have hfin : ([61, q] ++ v ++ [q, c1, c2] ++ t'' : Bytes).drop (v.length + 3) = [c1, c2] ++ t'' := by
    have e : ([61, q] ++ v ++ [q, c1, c2] ++ t'' : Bytes) = ([61, q] ++ v ++ [q]) ++ ([c1, c2] ++ t'') := by simp
    have : ([61, q] ++ v ++ [q] : Bytes).length = v.length + 3 := by simp
    rw [e, ← this, List.drop_left]
  show (Except.ok _, _) = _
  simp only [hfin]

/-- the last attribute of a tag: the closing quote is followed by '>', which is consumed and ends the attribute list -/
theorem attr_value_close (tag : Tag) (f sz : Nat) (st : St) (v t' : Bytes) (q c2 : UInt8)
    (hq : q = 34 ∨ q = 39) (hv : ∀ x ∈ v, (x == q) = false)
    (hbuf : peek sz st = (.ok ([61, q] ++ v ++ [q, 62, c2] ++ t'), st)) :
    readAttrValue tag (f + 1) sz st = (.ok (v, tag), { st with rest := st.rest.drop (v.length + 4), a := false }) := by
  unfold readAttrValue
  rw [bindOk _ _ _ _ _ hbuf]
  have h0 : ([61, q] ++ v ++ [q, 62, c2] ++ t' : Bytes)[0]? = some 61 := by simp
  rw [bindOk _ _ _ _ _ (at_ok _ 0 61 st h0)]
  have hq1 : idxFrom (fun b => !isWs b) ([61, q] ++ v ++ [q, 62, c2] ++ t') 1 = 1 := by
    unfold idxFrom
    rcases hq with h | h <;> subst h <;> simp [List.findIdx_cons, isWs]
  have hb1 : ([61, q] ++ v ++ [q, 62, c2] ++ t' : Bytes).getD (1 + 1 - 1) 0 = q := by simp
  simp only [hq1, hb1, Nat.reduceAdd]
  have hcond : ((61 : UInt8) == 61 && (q == 34 || q == 39)) = true := by rcases hq with h | h <;> subst h <;> decide
  rw [if_pos hcond]
  have hk : (List.drop 2 ([61, q] ++ v ++ [q, 62, c2] ++ t' : Bytes)).findIdx (fun x => x == q) = v.length := by
    have : List.drop 2 ([61, q] ++ v ++ [q, 62, c2] ++ t' : Bytes) = v ++ ([q, 62, c2] ++ t') := by simp
    rw [this, findIdx_skip _ _ _ hv]
    simp [List.findIdx_cons]
  simp only [hk]
  have hlen : 2 + v.length + 2 < ([61, q] ++ v ++ [q, 62, c2] ++ t' : Bytes).length := by simp; omega
  rw [if_pos hlen]
  have hc1 : ([61, q] ++ v ++ [q, 62, c2] ++ t' : Bytes)[2 + v.length + 1]? = some 62 := by
    have e : ([61, q] ++ v ++ [q, 62, c2] ++ t' : Bytes) = ([61, q] ++ v ++ [q]) ++ (62 :: (c2 :: t')) := by simp
    rw [e, List.getElem?_append_right (by simp; omega)]
    simp
    have : 2 + v.length - (v.length + 2) = 0 := by omega
    rw [this]; rfl
  rw [bindOk _ _ _ _ _ (at_ok _ _ 62 st hc1)]
  simp only [beq_self_eq_true, if_true]
  have hval : List.take (2 + v.length - 2) (List.drop 2 ([61, q] ++ v ++ [q, 62, c2] ++ t' : Bytes)) = v := by
    have : List.drop 2 ([61, q] ++ v ++ [q, 62, c2] ++ t' : Bytes) = v ++ ([q, 62, c2] ++ t') := by simp
    rw [this]
    have : 2 + v.length - 2 = v.length := by omega
    rw [this]; simp
  show (setA false >>= fun _ => discard (2 + v.length + 2) >>= fun _ => pure (List.take (2 + v.length - 2) (List.drop 2 _), tag)) st = _
  rw [hval]
  have : 2 + v.length + 2 = v.length + 4 := by omega
  rw [this]
  rfl

/-- **The last attribute of a tag**: the same, the closing quote followed by '>', which is consumed; the attribute list
is over (`a := false`) -/
theorem readAttribute_last (tag : Tag) (st : St) (ws : Bytes) (n0 : UInt8) (ns : Bytes) (m0 : UInt8) (name v t'' : Bytes) (q c2 : UInt8)
    (hws : ∀ x ∈ ws, isWs x = true) (h0 : isWs n0 = false) (hst : (n0 == 62) = false ∧ (n0 == 47) = false) (hns : ∀ x ∈ ns, (x == 58) = false)
    (hname : ∀ x ∈ name, (x == 61 || isWs x) = false) (hq : q = 34 ∨ q = 39) (hv : ∀ x ∈ v, (x == q) = false)
    (hwin : ns.length + name.length + 4 ≤ 128) (hvwin : v.length + 5 ≤ 256)
    (hrest : st.rest = ws ++ (((n0 :: ns) ++ [58] ++ (m0 :: name)) ++ ([61, q] ++ v ++ [q, 62, c2] ++ t''))) :
    readAttribute tag st = (.ok ({ pt := 1, parent := tag.self, self := identify (n0 :: ns) (m0 :: name), val := v }, tag),
      { st with rest := c2 :: t'', a := false }) := by
  have e : ([61, q] ++ v ++ [q, 62, c2] ++ t'' : Bytes) = 61 :: (q :: (v ++ [q, 62, c2] ++ t'')) := by simp
  rw [e] at hrest
  rw [readAttribute_name tag st ws n0 ns m0 name _ hws h0 hst hns hname hwin (by simp; omega) hrest, ← e]
  rw [bindOk _ _ _ _ _ (attr_value_close tag 7 256 _ v _ q c2 hq hv (peek256 st v t'' q 62 c2 hvwin))]
  have hfin : ([61, q] ++ v ++ [q, 62, c2] ++ t'' : Bytes).drop (v.length + 4) = c2 :: t'' := by
    have e : ([61, q] ++ v ++ [q, 62, c2] ++ t'' : Bytes) = ([61, q] ++ v ++ [q, 62]) ++ (c2 :: t'') := by simp
    have : ([61, q] ++ v ++ [q, 62] : Bytes).length = v.length + 4 := by simp
    rw [e, ← this, List.drop_left]
  show (Except.ok _, _) = _
  simp only [hfin]

/-! ### a whole attribute list -/

structure Attr where
  n0 : UInt8
  ns : Bytes
  m0 : UInt8
  name : Bytes
  q : UInt8
  v : Bytes

def Attr.bytes (a : Attr) : Bytes := ((a.n0 :: a.ns) ++ [58] ++ (a.m0 :: a.name)) ++ ([61, a.q] ++ a.v ++ [a.q])
def Attr.prop (a : Attr) : Prop2 := identify (a.n0 :: a.ns) (a.m0 :: a.name)

/-- what the theorem asks of an attribute: the prefix starts with a non-blank byte other than '>' and '/' (those end the tag) and has no further ':', the local name
has no '=' or white space after its first byte, the value does not contain its quote character, name and value fit the
reader's first look-ahead windows -/
structure Attr.OK (a : Attr) : Prop where
  h0 : isWs a.n0 = false
  hstart : (a.n0 == 62) = false ∧ (a.n0 == 47) = false
  hns : ∀ x ∈ a.ns, (x == 58) = false
  hname : ∀ x ∈ a.name, (x == 61 || isWs x) = false
  hq : a.q = 34 ∨ a.q = 39
  hv : ∀ x ∈ a.v, (x == a.q) = false
  hwin : a.ns.length + a.name.length + 4 ≤ 128
  hvwin : a.v.length + 5 ≤ 256

/-- the attributes as written: each preceded by its white space -/
def ser : List (Bytes × Attr) → Bytes
  | [] => []
  | (ws, a) :: l => ws ++ a.bytes ++ ser l

/-- the tokens the parser layer receives (newest first): attributes with an empty value are not reported -/
def pushAll (parent : Prop2) : List (Bytes × Attr) → List Tok → List Tok
  | [], acc => acc
  | (_, a) :: l, acc => pushAll parent l (if a.v.isEmpty then acc else { pt := 1, parent := parent, self := a.prop, val := a.v } :: acc)

theorem attrLoop_exact (tag : Tag) (c2 : UInt8) (t : Bytes) : ∀ (l : List (Bytes × Attr)) (f : Nat) (st : St),
    l ≠ [] → l.length < f → st.a = true → st.rest = ser l ++ 62 :: c2 :: t →
    (∀ p ∈ l, (∀ x ∈ p.1, isWs x = true) ∧ p.2.OK) → (∀ p ∈ l.tail, p.1 ≠ []) →
    attrLoop none f tag st = (.ok tag, { rest := c2 :: t, a := false, toks := pushAll tag.self l st.toks }) := by
  intro l
  induction l with
  | nil => intro f st h; exact absurd rfl h
  | cons p l ih =>
    intro f st _ hf ha hrest hok hsep
    obtain ⟨ws, a⟩ := p
    have hpa := hok (ws, a) (by simp)
    cases f with
    | zero => simp at hf
    | succ f =>
      unfold attrLoop
      rw [bindOk getA _ st st true (by unfold getA; rw [ha])]
      simp only [if_true]
      cases l with
      | nil =>
        -- the last attribute
        have hr : st.rest = ws ++ (((a.n0 :: a.ns) ++ [58] ++ (a.m0 :: a.name)) ++ ([61, a.q] ++ a.v ++ [a.q, 62, c2] ++ t)) := by
          rw [hrest]; simp [ser, Attr.bytes]
        rw [bindOk _ _ _ _ _ (readAttribute_last tag st ws a.n0 a.ns a.m0 a.name a.v t a.q c2 hpa.1 hpa.2.h0 hpa.2.hstart hpa.2.hns hpa.2.hname hpa.2.hq hpa.2.hv hpa.2.hwin hpa.2.hvwin hr)]
        dsimp only
        show (emit _ >>= fun _ => attrLoop none f tag) _ = _
        rw [bindOk (emit _) _ _ _ () rfl]
        cases f with
        | zero => simp at hf
        | succ f =>
          unfold attrLoop
          by_cases hv : a.v.isEmpty = true
          · simp only [hv, if_true]
            rw [bindOk getA _ _ _ false rfl]
            simp only [Bool.false_eq_true, if_false, pushAll, hv, if_true]
            rfl
          · simp only [hv, Bool.false_eq_true, if_false]
            rw [bindOk getA _ _ _ false rfl]
            simp only [Bool.false_eq_true, if_false, pushAll, hv]
            rfl
      | cons p2 l' =>
        obtain ⟨ws2, a2⟩ := p2
        have hws2 : ws2 ≠ [] := hsep (ws2, a2) (by simp)
        have hpa2 := hok (ws2, a2) (by simp)
        obtain ⟨w, ws2', rfl⟩ := List.exists_cons_of_ne_nil hws2
        have hw : isWs w = true := hpa2.1 w (by simp)
        -- the two bytes after the closing quote
        have hne : (ws2' ++ a2.bytes ++ ser l' ++ 62 :: c2 :: t : Bytes) ≠ [] := by simp [Attr.bytes]
        obtain ⟨d2, t'', ht''⟩ := List.exists_cons_of_ne_nil hne
        have hr : st.rest = ws ++ (((a.n0 :: a.ns) ++ [58] ++ (a.m0 :: a.name)) ++ ([61, a.q] ++ a.v ++ [a.q, w, d2] ++ t'')) := by
          rw [hrest]
          have : ser ((ws, a) :: (w :: ws2', a2) :: l') ++ 62 :: c2 :: t =
              ws ++ (((a.n0 :: a.ns) ++ [58] ++ (a.m0 :: a.name)) ++ ([61, a.q] ++ a.v ++ [a.q] ++ (w :: (ws2' ++ a2.bytes ++ ser l' ++ 62 :: c2 :: t)))) := by
            simp [ser, Attr.bytes]
          rw [this, ht'']; simp
        have hw62 : w ≠ 62 := by intro h; rw [h] at hw; revert hw; decide
        have hw47 : w ≠ 47 := by intro h; rw [h] at hw; revert hw; decide
        rw [bindOk _ _ _ _ _ (readAttribute_exact tag st ws a.n0 a.ns a.m0 a.name a.v t'' a.q w d2 hpa.1 hpa.2.h0 hpa.2.hstart hpa.2.hns hpa.2.hname hpa.2.hq hpa.2.hv hw62 hw47 hpa.2.hwin hpa.2.hvwin hr)]
        dsimp only
        show (emit _ >>= fun _ => attrLoop none f tag) _ = _
        rw [bindOk (emit _) _ _ _ () rfl]
        have hrest2 : ([w, d2] ++ t'' : Bytes) = ser ((w :: ws2', a2) :: l') ++ 62 :: c2 :: t := by
          show w :: (d2 :: t'') = _
          rw [← ht'']; simp [ser]
        by_cases hv : a.v.isEmpty = true
        · simp only [hv, if_true]
          rw [ih f { st with rest := [w, d2] ++ t'' } (by simp) (by simp at hf ⊢; omega) ha hrest2
            (fun p hp => hok p (List.mem_cons_of_mem _ hp)) (fun p hp => hsep p (by simp at hp ⊢; exact Or.inr hp))]
          simp only [pushAll, hv, if_true]
        · simp only [hv, Bool.false_eq_true, if_false]
          rw [ih f { rest := [w, d2] ++ t'', a := st.a, toks := { pt := 1, parent := tag.self, self := identify (a.n0 :: a.ns) (a.m0 :: a.name), val := a.v } :: st.toks }
            (by simp) (by simp at hf ⊢; omega) ha hrest2
            (fun p hp => hok p (List.mem_cons_of_mem _ hp)) (fun p hp => hsep p (by simp at hp ⊢; exact Or.inr hp))]
          simp only [pushAll, hv]
          rfl

end Imeta.Xmp
