/-
  No-panic lemmas for the directory walk of the Exif reader model (C01).
-/
import Imeta.Lemmas.ExifNoPanic
namespace Imeta.Exif
open Imeta

theorem fastRead_len (r : R) (n : Nat) (h : (fastRead r n).err = none) : (fastRead r n).buf.length = n := by
  unfold fastRead at *
  split at h
  · simp at h
  · split at h
    · split at h
      · simp at h
      · split at h
        · simp at h
        · rename_i h1 h2 h3 h4
          rw [if_neg h1, if_pos h2, if_neg h3, if_neg h4]
          simp only [List.length_take]; omega
    · split at h
      · simp at h
      · split at h
        · simp at h
        · rename_i h1 h2 h3 h4
          rw [if_neg h1, if_neg h2, if_neg h3, if_neg h4]
          simp only [List.length_take]; omega

theorem tagFromBuffer_np (ifd : Ifd) (e : Bytes) (h : 12 ≤ e.length) : NP (tagFromBuffer ifd e) := by
  unfold tagFromBuffer
  simp only [bind, Outcome.bind, rd16_ok _ e 0 (by omega), rd16_ok _ e 2 (by omega), rd32_ok _ e 4 (by omega), rd32_ok _ e 8 (by omega)]
  split <;> rfl

theorem entriesLoop_np (tb : Tables) (ifd : Ifd) (buf : Bytes) (n i : Nat) (r : R) (h : (i + n) * 12 ≤ buf.length) :
    NP (entriesLoop tb ifd buf n i r) := by
  induction n generalizing i r with
  | zero => rfl
  | succ k ih =>
    unfold entriesLoop
    have hs : i * 12 ≤ buf.length := by
      have : i * 12 ≤ (i + (k + 1)) * 12 := Nat.mul_le_mul_right 12 (by omega)
      omega
    simp only [bind, slc_ok buf (i * 12) buf.length hs (Nat.le_refl _), Outcome.bind]
    have hl : 12 ≤ (List.take (buf.length - i * 12) (List.drop (i * 12) buf)).length := by
      simp only [List.length_take, List.length_drop]
      have : (i + (k + 1)) * 12 = i * 12 + k * 12 + 12 := by
        rw [Nat.add_mul, Nat.add_mul]; omega
      omega
    refine np_bind' _ _ (tagFromBuffer_np ifd _ hl) (fun ot => ?_)
    have hnext : (i + 1 + k) * 12 ≤ buf.length := by
      have : i + 1 + k = i + (k + 1) := by omega
      rw [this]; exact h
    cases ot with
    | none => exact ih (i + 1) r hnext
    | some t =>
      simp only
      split
      · exact np_bind' _ _ (parseTag_np tb r t) (fun r1 => ih (i + 1) r1 hnext)
      · exact ih (i + 1) _ hnext

theorem readNextIfdTag_np (r : R) (ifd : Ifd) : NP (readNextIfdTag r ifd) := by
  unfold readNextIfdTag
  split
  · simp only
    cases he : (fastRead r 4).err with
    | some e => rfl
    | none =>
      simp only
      have hl := fastRead_len r 4 he
      simp only [bind, u32_ok _ _ (by omega : 4 ≤ (fastRead r 4).buf.length), Outcome.bind]
      split <;> rfl
  · rfl

theorem readIfdHeader_np (tb : Tables) (r : R) (ifd : Ifd) : NP (readIfdHeader tb r ifd) := by
  unfold readIfdHeader
  simp only
  cases he : (fastRead r 2).err with
  | some e => rfl
  | none =>
    simp only
    have hl := fastRead_len r 2 he
    simp only [bind, u16_ok _ _ (by omega : 2 ≤ (fastRead r 2).buf.length), Outcome.bind]
    split
    · rfl
    · cases he2 : (fastRead (fastRead r 2).r (ifd.order.uint (List.take 2 (fastRead r 2).buf) * 12)).err with
      | some e => rfl
      | none =>
        simp only
        have hl2 := fastRead_len _ _ he2
        refine np_bind' _ _ (entriesLoop_np tb ifd _ _ 0 _ (by rw [hl2]; omega)) (fun r3 => readNextIfdTag_np r3 ifd)

theorem subIfdsLoop_np (t : Tag) (buf : Bytes) (n i : Nat) (r : R) : NP (subIfdsLoop t buf n i r) := by
  induction n generalizing i r with
  | zero => rfl
  | succ k ih =>
    unfold subIfdsLoop
    split
    · rename_i h
      simp only [bind, slc_ok buf (4 * i) buf.length (by omega) (Nat.le_refl _), Outcome.bind]
      rw [u32_ok _ _ (by simp only [List.length_take, List.length_drop]; omega)]
      exact ih _ _
    · rfl

theorem readSubIfds_np (r : R) (t : Tag) : NP (readSubIfds r t) := by
  unfold readSubIfds
  split
  · simp only; split
    · rfl
    · exact subIfdsLoop_np _ _ _ _ _
  · rfl

theorem readMakerNotes_np (tb : Tables) (r : R) (t : Tag) : NP (readMakerNotes tb r t) := by
  unfold readMakerNotes
  split
  · exact np_bind' _ _ (readIfdHeader_np tb r _) (fun _ => rfl)
  · split
    · split
      · simp only
        cases he : (fastRead r 18).err with
        | some e => rfl
        | none =>
          simp only [Option.isSome_none, Bool.false_eq_true, if_false]
          have hl := fastRead_len r 18 he
          simp only [bind, slc_ok _ 0 5 (by omega) (by omega : 5 ≤ (fastRead r 18).buf.length), Outcome.bind]
          split
          · simp only [slc_ok _ 10 14 (by omega) (by omega : 14 ≤ (fastRead r 18).buf.length), Outcome.bind]
            split
            · simp only [slc_ok _ 14 18 (by omega) (by omega : 18 ≤ (fastRead r 18).buf.length), Outcome.bind]
              rw [u32_ok _ _ (by simp only [List.length_take, List.length_drop]; omega)]
              exact np_bind' _ _ (readIfdHeader_np tb _ _) (fun _ => rfl)
            · rfl
          · rfl
      · rfl
    · rfl

theorem ifdLoop_np (tb : Tables) (fuel : Nat) (r : R) : NP (ifdLoop tb fuel r) := by
  induction fuel generalizing r with
  | zero => rfl
  | succ f ih =>
    unfold ifdLoop
    split
    · cases ht : r.tags[r.pos]? with
      | none => rfl
      | some t =>
        simp only
        split
        · simp only [bind]
          refine np_bind' _ _ ?_ (fun r3 => ih _)
          unfold ifdChild
          split
          · split
            · exact np_bind' _ _ (readIfdHeader_np tb _ _) (fun _ => rfl)
            · rfl
          · split
            · exact np_bind' _ _ (readIfdHeader_np tb _ _) (fun _ => rfl)
            · split
              · split
                · exact readMakerNotes_np tb _ t
                · rfl
              · rfl
        · split
          · exact np_bind' _ _ (readSubIfds_np r t) (fun r1 => ih _)
          · exact np_bind' _ _ (parseTag_np tb r t) (fun r1 => ih _)
    · rfl

theorem readIfd_np (tb : Tables) (fuel : Nat) (r : R) (ifd : Ifd) : NP (readIfd tb fuel r ifd) := by
  unfold readIfd
  refine np_bind' _ _ (readIfdHeader_np tb r ifd) (fun a => ?_)
  obtain ⟨r1, e⟩ := a
  cases e with
  | some k => rfl
  | none => exact np_bind' _ _ (ifdLoop_np tb fuel r1) (fun _ => rfl)

end Imeta.Exif
