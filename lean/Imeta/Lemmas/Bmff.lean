/-
  Invariants of the ISOBMFF reader model: every stream operation of a box keeps each open box inside its declared end.
-/
import Imeta.Model.Bmff
namespace Imeta.Bmff
open Imeta

/-- the reader has not passed the end of `b`, and what `b` still allows does not pass it either -/
def WFb (pos : Nat) (b : Box) : Prop := (pos : Int) ≤ b.lim ∧ (pos : Int) + b.remain ≤ b.lim

def WF (s : St) : Prop := ∀ b ∈ s.chain, WFb s.pos b

def lims (s : St) : List Int := s.chain.map (·.lim)

/-- the outermost open box is accounted for exactly and lies inside the stream -/
def Tight (s : St) : Prop :=
  ∀ b, s.chain.getLast? = some b → (s.pos : Int) + b.remain = b.lim ∧ b.lim ≤ (s.pos : Int) + s.rest.length

structure Rel (s s' : St) : Prop where
  wf : WF s → WF s'
  lims : lims s' = lims s
  mono : s.pos ≤ s'.pos
  cons : s'.pos + s'.rest.length = s.pos + s.rest.length
  tight : WF s → Tight s → Tight s'
  cfg : s'.cfg = s.cfg

theorem Rel.refl (s : St) : Rel s s := ⟨id, rfl, Nat.le_refl _, rfl, fun _ h => h, rfl⟩

theorem Rel.trans {a b c : St} (h1 : Rel a b) (h2 : Rel b c) : Rel a c :=
  ⟨fun h => h2.wf (h1.wf h), h2.lims.trans h1.lims, Nat.le_trans h1.mono h2.mono, h2.cons.trans h1.cons,
   fun hw ht => h2.tight (h1.wf hw) (h1.tight hw ht), h2.cfg.trans h1.cfg⟩

/-- `m` keeps the invariants whatever it returns -/
def Pres {α} (m : M α) : Prop := ∀ s, s.chain ≠ [] → Rel s (m s).2

theorem chain_ne_of_rel {s s' : St} (h : Rel s s') (hn : s.chain ≠ []) : s'.chain ≠ [] := by
  have := h.lims
  unfold Bmff.lims at this
  intro h0
  rw [h0] at this
  cases hc : s.chain with
  | nil => exact hn hc
  | cons a t => rw [hc] at this; simp at this

theorem Pres.pure {α} (a : α) : Pres (pure a : M α) := fun s _ => Rel.refl s
theorem Pres.fail {α} (k : ErrKind) : Pres (fail k : M α) := fun s _ => Rel.refl s
theorem Pres.get : Pres get := fun s _ => Rel.refl s
theorem Pres.head : Pres head := by
  intro s _; unfold Bmff.head; split <;> exact Rel.refl s
theorem Pres.loopFuel : Pres loopFuel := fun s _ => Rel.refl s

theorem Pres.bind {α β} {m : M α} {f : α → M β} (hm : Pres m) (hf : ∀ a, Pres (f a)) : Pres (m >>= f) := by
  intro s hn
  show Rel s (M.bind m f s).2
  unfold M.bind
  have h1 := hm s hn
  split
  · next a s' heq =>
    have : (m s).2 = s' := by rw [heq]
    rw [this] at h1
    exact Rel.trans h1 (hf a s' (chain_ne_of_rel h1 hn))
  · next k s' heq =>
    have : (m s).2 = s' := by rw [heq]
    rw [this] at h1; exact h1
  · next k s' heq =>
    have : (m s).2 = s' := by rw [heq]
    rw [this] at h1; exact h1

theorem Pres.attempt {α} {m : M α} (hm : Pres m) : Pres (attempt m) := by
  intro s hn
  have h1 := hm s hn
  unfold Bmff.attempt
  split <;> (next _ s' heq => have : (m s).2 = s' := by rw [heq]
                              rw [this] at h1; exact h1)

theorem Pres.peek (n : Int) : Pres (peek n) := by
  intro s _; unfold Bmff.peek
  repeat' split
  all_goals exact Rel.refl s

/-! ### state changes that do not touch the stream or the boxes' accounts -/

theorem Rel.of_same {s s' : St} (hc : s'.chain.map (fun b => (b.lim, b.remain)) = s.chain.map (fun b => (b.lim, b.remain)))
    (hp : s'.pos = s.pos) (hr : s'.rest = s.rest) (hcfg : s'.cfg = s.cfg) : Rel s s' := by
  have hl : s'.chain.map (·.lim) = s.chain.map (·.lim) := by
    have := congrArg (List.map Prod.fst) hc
    simpa [List.map_map, Function.comp_def] using this
  have hmem : ∀ b' ∈ s'.chain, ∃ b ∈ s.chain, b'.lim = b.lim ∧ b'.remain = b.remain := by
    intro b' hb'
    have : (b'.lim, b'.remain) ∈ s'.chain.map (fun b => (b.lim, b.remain)) := List.mem_map.mpr ⟨b', hb', rfl⟩
    rw [hc] at this
    obtain ⟨b, hb, he⟩ := List.mem_map.mp this
    exact ⟨b, hb, by simpa using (congrArg Prod.fst he).symm, by simpa using (congrArg Prod.snd he).symm⟩
  have hlast : ∀ b', s'.chain.getLast? = some b' → ∃ b, s.chain.getLast? = some b ∧ b'.lim = b.lim ∧ b'.remain = b.remain := by
    intro b' hb'
    have h1 : (s'.chain.map (fun b => (b.lim, b.remain))).getLast? = some (b'.lim, b'.remain) := by
      rw [List.getLast?_map, hb']; rfl
    rw [hc, List.getLast?_map] at h1
    cases hx : s.chain.getLast? with
    | none => rw [hx] at h1; simp at h1
    | some b =>
      rw [hx] at h1
      simp at h1
      exact ⟨b, rfl, h1.1.symm, h1.2.symm⟩
  refine ⟨?_, hl, by omega, by rw [hp, hr], ?_, hcfg⟩
  · intro hw b' hb'
    obtain ⟨b, hb, h1, h2⟩ := hmem b' hb'
    have := hw b hb
    unfold WFb at *
    rw [hp, h1, h2]; exact this
  · intro _ ht b' hb'
    obtain ⟨b, hb, h1, h2⟩ := hlast b' hb'
    have := ht b hb
    rw [hp, hr, h1, h2]; exact this

theorem Pres.modify (f : St → St) (hc : ∀ s, (f s).chain = s.chain) (hp : ∀ s, (f s).pos = s.pos) (hr : ∀ s, (f s).rest = s.rest)
    (hcfg : ∀ s, (f s).cfg = s.cfg) : Pres (modify f) := by
  intro s _
  exact Rel.of_same (by show (f s).chain.map _ = _; rw [hc]) (hp s) (hr s) (hcfg s)

theorem Pres.emit (e : Ev) : Pres (emit e) := Pres.modify _ (fun _ => rfl) (fun _ => rfl) (fun _ => rfl) (fun _ => rfl)

theorem Pres.setHead (f : Box → Box) (hf : ∀ b, (f b).lim = b.lim ∧ (f b).remain = b.remain) : Pres (setHead f) := by
  intro s _
  show Rel s (match s.chain with | b :: t => { s with chain := f b :: t } | [] => s)
  cases hc : s.chain with
  | nil => exact Rel.refl s
  | cons b t =>
    refine Rel.of_same ?_ rfl rfl rfl
    simp [hc, hf b]

/-! ### Discard -/

theorem decChain_lims (c : List Box) (n : Int) : (decChain c n).1.map (·.lim) = c.map (·.lim) := by
  induction c with
  | nil => rfl
  | cons b t ih =>
    unfold decChain
    split
    · simp [ih]
    · rfl

theorem decChain_wf (c : List Box) (n : Int) (hn : 0 ≤ n) (p m : Nat) (hm : (m : Int) ≤ n)
    (hflag : (decChain c n).2 = true ∨ m = 0) (hw : ∀ b ∈ c, WFb p b) : ∀ b ∈ (decChain c n).1, WFb (p + m) b := by
  induction c with
  | nil => intro b hb; simp [decChain] at hb
  | cons b t ih =>
    unfold decChain at hflag ⊢
    split
    · next hle =>
      rw [if_pos hle] at hflag
      intro x hx
      simp only [List.mem_cons] at hx
      have hb := hw b (List.mem_cons_self)
      rcases hx with hx | hx
      · subst hx
        unfold WFb at *
        simp only
        constructor <;> omega
      · exact ih hflag (fun y hy => hw y (List.mem_cons_of_mem _ hy)) x hx
    · next hle =>
      rw [if_neg hle] at hflag
      have hm0 : m = 0 := by rcases hflag with h | h; exact absurd h (by simp); exact h
      subst hm0
      intro x hx
      exact hw x hx

theorem decChain_last_false (c : List Box) (n : Int) (h : (decChain c n).2 = false) : (decChain c n).1.getLast? = c.getLast? := by
  induction c with
  | nil => rfl
  | cons b t ih =>
    unfold decChain at h ⊢
    split
    · next hle =>
      rw [if_pos hle] at h
      have := ih h
      cases t with
      | nil => simp [decChain] at h
      | cons b2 t2 =>
        cases hd : (decChain (b2 :: t2) n).1 with
        | nil =>
          have := congrArg List.length (decChain_lims (b2 :: t2) n)
          simp [hd] at this
        | cons x xs =>
          rw [hd] at this
          simp only [List.getLast?_cons_cons, hd]
          exact this
    · rfl

theorem decChain_last_true (c : List Box) (n : Int) (h : (decChain c n).2 = true) :
    ∀ b', (decChain c n).1.getLast? = some b' → ∃ b, c.getLast? = some b ∧ n ≤ b.remain ∧ b'.lim = b.lim ∧ b'.remain = b.remain - n := by
  induction c with
  | nil => intro b' hb'; simp [decChain] at hb'
  | cons b t ih =>
    unfold decChain at h ⊢
    split
    · next hle =>
      rw [if_pos hle] at h
      intro b' hb'
      cases t with
      | nil =>
        simp [decChain] at hb'
        exact ⟨b, rfl, hle, by rw [← hb'], by rw [← hb']⟩
      | cons b2 t2 =>
        cases hd : (decChain (b2 :: t2) n).1 with
        | nil =>
          have := congrArg List.length (decChain_lims (b2 :: t2) n)
          simp [hd] at this
        | cons x xs =>
          simp only [hd, List.getLast?_cons_cons] at hb'
          rw [hd] at ih
          obtain ⟨b0, h0, h1, h2, h3⟩ := ih h b' hb'
          exact ⟨b0, by simpa [List.getLast?_cons_cons] using h0, h1, h2, h3⟩
    · next hle => rw [if_neg hle] at h; simp at h

theorem Pres.discard (n : Int) : Pres (discard n) := by
  intro s _
  unfold Bmff.discard
  by_cases hneg : n < 0
  · rw [if_pos hneg]; split <;> exact Rel.refl s
  rw [if_neg hneg]
  have hn : 0 ≤ n := by omega
  generalize hr : decChain s.chain n = r
  have hl := decChain_lims s.chain n
  rw [hr] at hl
  simp only []
  by_cases hflag : r.2 = true
  · -- every level agreed: m bytes are consumed
    simp only [hflag, Bool.not_true, Bool.false_eq_true, if_false]
    have key : Rel s { s with chain := r.1, rest := s.rest.drop (min n.toNat s.rest.length), pos := s.pos + min n.toNat s.rest.length } := by
      refine ⟨?_, hl, by simp, ?_, ?_, rfl⟩
      · intro hw b hb
        have := decChain_wf s.chain n hn s.pos (min n.toNat s.rest.length) (by omega) (by rw [hr]; exact Or.inl hflag) hw
        rw [hr] at this
        exact this b hb
      · simp only [List.length_drop]; omega
      · intro _ ht b' hb'
        have h1 := decChain_last_true s.chain n (by rw [hr]; exact hflag)
        rw [hr] at h1
        obtain ⟨b, hb, hle, hlim, hrem⟩ := h1 b' hb'
        have := ht b hb
        simp only [List.length_drop]
        rw [hlim, hrem]
        omega
    split <;> exact key
  · have hf : r.2 = false := by simpa using hflag
    simp only [hf, Bool.not_false, if_true]
    refine ⟨?_, hl, Nat.le_refl _, rfl, ?_, rfl⟩
    · intro hw b hb
      have := decChain_wf s.chain n hn s.pos 0 (by omega) (Or.inr rfl) hw
      rw [hr] at this
      exact this b hb
    · intro _ ht b' hb'
      have h1 := decChain_last_false s.chain n (by rw [hr]; exact hf)
      rw [hr] at h1
      exact ht b' (by rw [← h1]; exact hb')

/-! ### Read -/

theorem limit_le (c : List Box) : ∀ b ∈ c, limit c ≤ b.remain := by
  induction c with
  | nil => intro b hb; cases hb
  | cons a t ih =>
    intro b hb
    cases t with
    | nil => simp at hb; subst hb; simp [limit]
    | cons a2 t2 =>
      simp only [limit]
      rcases List.mem_cons.mp hb with h | h
      · subst h; exact Int.min_le_left _ _
      · exact Int.le_trans (Int.min_le_right _ _) (ih b h)

theorem subAll_last (c : List Box) (m : Int) : (subAll c m).getLast? = c.getLast?.map (fun b => { b with remain := b.remain - m }) := by
  unfold subAll; rw [List.getLast?_map]

theorem Pres.readUpTo (k : Nat) : Pres (readUpTo k) := by
  intro s _
  unfold Bmff.readUpTo
  simp only []
  generalize hm : min (min k (limit s.chain).toNat) s.rest.length = m
  have hmr : m ≤ s.rest.length := by omega
  have hle : ∀ b ∈ s.chain, (m : Int) ≤ b.remain ∨ m = 0 := by
    intro b hb
    have := limit_le s.chain b hb
    by_cases h0 : 0 ≤ limit s.chain
    · left; omega
    · right; omega
  refine ⟨?_, ?_, by simp, ?_, ?_, rfl⟩
  · intro hw b' hb'
    simp only [subAll, List.mem_map] at hb'
    obtain ⟨b, hb, rfl⟩ := hb'
    have h1 := hw b hb
    have h2 := hle b hb
    unfold WFb at *
    simp only
    constructor <;> omega
  · unfold Bmff.lims subAll; simp [List.map_map, Function.comp_def]
  · simp only [List.length_drop]; omega
  · intro _ ht b' hb'
    simp only [subAll_last] at hb'
    cases hl : s.chain.getLast? with
    | none => rw [hl] at hb'; simp at hb'
    | some b =>
      rw [hl] at hb'
      simp at hb'
      subst hb'
      have := ht b hl
      simp only [List.length_drop]
      omega

/-! ### opening a box -/

theorem Pres.openBox {α} (size remain offset : Int) (typ : Bytes) {body : M α} (hb : Pres body) :
    Pres (openBox size remain offset typ body) := by
  intro s hn
  unfold Bmff.openBox
  simp only []
  generalize hbx : ({ size := size, remain := remain, offset := offset, flags := 0, typ := typ, lim := (s.pos : Int) + max remain 0 } : Box) = b
  have hblim : b.lim = (s.pos : Int) + max b.remain 0 := by subst hbx; rfl
  generalize hs1 : ({ s with chain := b :: s.chain } : St) = s1
  have h1 : Rel s1 (body s1).2 := hb s1 (by subst hs1; simp)
  have hc1 : s1.chain = b :: s.chain := by subst hs1; rfl
  have hp1 : s1.pos = s.pos := by subst hs1; rfl
  have hr1 : s1.rest = s.rest := by subst hs1; rfl
  have hcf1 : s1.cfg = s.cfg := by subst hs1; rfl
  generalize (body s1).2 = s2 at h1
  have hl2 : Bmff.lims s2 = b.lim :: Bmff.lims s := by rw [h1.lims]; unfold Bmff.lims; rw [hc1]; rfl
  -- shape of the final chain
  obtain ⟨x, t, hx, ht⟩ : ∃ x t, s2.chain = x :: t ∧ t.map (·.lim) = Bmff.lims s := by
    unfold Bmff.lims at hl2
    cases hc2 : s2.chain with
    | nil => rw [hc2] at hl2; simp at hl2
    | cons x t => rw [hc2] at hl2; simp at hl2; exact ⟨x, t, rfl, hl2.2⟩
  have htne : t ≠ [] := by
    intro h0; rw [h0] at ht
    unfold Bmff.lims at ht
    cases hc : s.chain with
    | nil => exact hn hc
    | cons a r => rw [hc] at ht; simp at ht
  have hwf1 : WF s → WF s1 := by
    intro hw y hy
    rw [hc1] at hy
    rcases List.mem_cons.mp hy with h | h
    · subst h; unfold WFb; rw [hp1, hblim]; constructor <;> omega
    · have := hw y h; unfold WFb at *; rw [hp1]; exact this
  refine ⟨?_, ?_, by rw [← hp1]; exact h1.mono, by have := h1.cons; rw [hp1, hr1] at this; exact this, ?_, by rw [← hcf1]; exact h1.cfg⟩
  · intro hw y hy
    have h2 := h1.wf (hwf1 hw)
    simp only [hx, List.tail_cons] at hy
    exact h2 y (by rw [hx]; exact List.mem_cons_of_mem _ hy)
  · unfold Bmff.lims; simp only [hx, List.tail_cons]; exact ht
  · intro hw htt y hy
    have ht1 : Tight s1 := by
      intro z hz
      rw [hc1] at hz
      cases hc : s.chain with
      | nil => exact absurd hc hn
      | cons a r =>
        rw [hc, List.getLast?_cons_cons] at hz
        have := htt z (by rw [hc]; exact hz)
        rw [hp1, hr1]; exact this
    have h2 := h1.tight (hwf1 hw) ht1
    simp only [hx, List.tail_cons] at hy
    cases t with
    | nil => exact absurd rfl htne
    | cons a r =>
      have := h2 y (by rw [hx, List.getLast?_cons_cons]; exact hy)
      exact this

theorem Pres.close : Pres close := by
  unfold Bmff.close
  apply Pres.bind Pres.head
  intro b
  split
  · exact Pres.pure ()
  · exact Pres.discard _

/-! ### the handlers, by structural decomposition -/

theorem Pres.setFlags (v : Nat) : Pres (Bmff.setHead fun b => { b with flags := v }) := Pres.setHead _ (fun _ => ⟨rfl, rfl⟩)

theorem Pres.modifyIds (f : St → St) (hc : ∀ s, (f s).chain = s.chain) (hp : ∀ s, (f s).pos = s.pos) (hr : ∀ s, (f s).rest = s.rest)
    (hcfg : ∀ s, (f s).cfg = s.cfg) : Pres (Bmff.modify f) := Pres.modify f hc hp hr hcfg

attribute [irreducible] Pres

macro "pres_step" : tactic => `(tactic| first
  | with_reducible exact Pres.pure _ | with_reducible exact Pres.fail _ | with_reducible exact Pres.get
  | with_reducible exact Pres.head | with_reducible exact Pres.loopFuel
  | with_reducible exact Pres.peek _ | with_reducible exact Pres.discard _ | with_reducible exact Pres.readUpTo _
  | with_reducible exact Pres.close | with_reducible exact Pres.emit _
  | with_reducible exact Pres.setFlags _
  | with_reducible assumption
  | with_reducible apply Pres.attempt
  | with_reducible apply Pres.openBox
  | with_reducible apply Pres.bind
  | intro _
  | split
  | dsimp only)
macro "pres" : tactic => `(tactic| repeat' pres_step)

theorem Pres.readFlags : Pres readFlags := by unfold Bmff.readFlags; pres
theorem Pres.readUint16 : Pres readUint16 := by unfold Bmff.readUint16; pres
theorem Pres.callback (k : String) (n : List Nat) : Pres (callback k n) := by unfold Bmff.callback; pres
theorem Pres.readExifHeader (f : Nat) : Pres (readExifHeader f) := by unfold Bmff.readExifHeader; pres


theorem Pres.readCMT (f : Nat) : Pres (readCMT f) := by
  unfold Bmff.readCMT
  pres
  all_goals first | exact Pres.readExifHeader _ | exact Pres.callback _ _
theorem Pres.readCNCV : Pres readCNCV := by unfold Bmff.readCNCV; pres
theorem Pres.readCTBO : Pres readCTBO := by unfold Bmff.readCTBO; pres

theorem Pres.innerStep {h : Bytes → M Unit} (hh : ∀ t, Pres (h t)) (oe : OnErr) : Pres (innerStep h oe) := by
  unfold Bmff.innerStep
  pres
  all_goals exact hh _

theorem Pres.innerLoop {h : Bytes → M Unit} (hh : ∀ t, Pres (h t)) (oe : OnErr) (f : Nat) : Pres (innerLoop h oe f) := by
  induction f with
  | zero =>
    unfold Bmff.innerLoop
    unfold Pres
    intro s _; exact Rel.refl s
  | succ f ih =>
    unfold Bmff.innerLoop
    have := Pres.innerStep hh oe
    pres
    all_goals exact ih

theorem Pres.crxHandler (t : Bytes) : Pres (crxHandler t) := by
  unfold Bmff.crxHandler
  have := Pres.readCNCV
  have := Pres.readCTBO
  pres
  all_goals exact Pres.readCMT _

theorem Pres.readCrxMoov : Pres readCrxMoov := by
  unfold Bmff.readCrxMoov
  pres
  all_goals exact Pres.innerLoop Pres.crxHandler .ret _

theorem Pres.prvwBody (t : Bytes) : Pres (prvwBody t) := by
  unfold Bmff.prvwBody
  pres
  all_goals exact Pres.callback _ _

theorem Pres.readPreview : Pres readPreview := by
  unfold Bmff.readPreview
  have := Pres.prvwBody
  pres
  all_goals exact Pres.prvwBody _

theorem Pres.readUUIDBox : Pres readUUIDBox := by
  unfold Bmff.readUUIDBox
  have := Pres.readCrxMoov
  have := Pres.readPreview
  pres
  all_goals exact Pres.callback _ _

theorem Pres.readHdlr : Pres readHdlr := by unfold Bmff.readHdlr; have := Pres.readFlags; pres
theorem Pres.readPitm : Pres readPitm := by unfold Bmff.readPitm; pres
theorem Pres.readIdat : Pres readIdat := by unfold Bmff.readIdat; pres
theorem Pres.readIpma : Pres readIpma := by unfold Bmff.readIpma; pres
theorem Pres.iprpHandler (t : Bytes) : Pres (iprpHandler t) := by unfold Bmff.iprpHandler; have := Pres.readIpma; pres
theorem Pres.readIprp : Pres readIprp := by
  unfold Bmff.readIprp
  pres
  all_goals exact Pres.innerLoop Pres.iprpHandler .cont _
theorem Pres.readIref : Pres readIref := by
  unfold Bmff.readIref
  have := Pres.readFlags
  pres
  all_goals exact Pres.innerLoop (h := fun _ => (Pure.pure () : M Unit)) (fun _ => Pres.pure ()) .brk _
theorem Pres.readInfe : Pres readInfe := by
  unfold Bmff.readInfe
  pres
  exact Pres.modifyIds _ (fun _ => rfl) (fun _ => rfl) (fun _ => rfl) (fun _ => rfl)
theorem Pres.readIinf : Pres readIinf := by
  unfold Bmff.readIinf
  have := Pres.readFlags
  have := Pres.readUint16
  have := Pres.readInfe
  pres
theorem Pres.readIloc : Pres readIloc := by
  unfold Bmff.readIloc
  pres
  exact Pres.modifyIds _ (fun _ => rfl) (fun _ => rfl) (fun _ => rfl) (fun _ => rfl)
theorem Pres.metaHandler (t : Bytes) : Pres (metaHandler t) := by
  unfold Bmff.metaHandler
  have := Pres.readUUIDBox
  have := Pres.readHdlr
  have := Pres.readPitm
  have := Pres.readIinf
  have := Pres.readIref
  have := Pres.readIprp
  have := Pres.readIdat
  have := Pres.readIloc
  pres
theorem Pres.readMeta : Pres readMeta := by
  unfold Bmff.readMeta
  have := Pres.readFlags
  pres
  all_goals exact Pres.innerLoop Pres.metaHandler .brk _
theorem Pres.moovHandler (t : Bytes) : Pres (moovHandler t) := by
  unfold Bmff.moovHandler
  have := Pres.readUUIDBox
  pres
theorem Pres.readMoov : Pres readMoov := by
  unfold Bmff.readMoov
  pres
  all_goals exact Pres.innerLoop Pres.moovHandler .brk _
theorem Pres.readMdat : Pres readMdat := by
  unfold Bmff.readMdat Bmff.mdatExifBody
  pres
  all_goals first | exact Pres.readExifHeader _ | exact Pres.callback _ _
theorem Pres.dispatch (t : Bytes) : Pres (dispatch t) := by
  unfold Bmff.dispatch
  have := Pres.readMdat
  have := Pres.readMeta
  have := Pres.readMoov
  have := Pres.readUUIDBox
  pres

end Imeta.Bmff

namespace Imeta.Bmff

/-! ### a handler that reports success has closed its box -/

def isOk {α} : Res α → Prop
  | .ok _ => True
  | _ => False

instance {α} (r : Res α) : Decidable (isOk r) := by
  cases r <;> unfold isOk <;> infer_instance

/-- when `m` reports no error, the innermost box has nothing left -/
def Closes {α} (m : M α) : Prop := ∀ s, isOk (m s).1 → ∃ b t, (m s).2.chain = b :: t ∧ b.remain = 0

theorem Closes.fail {α} (k : ErrKind) : Closes (fail k : M α) := by
  intro s h; exact absurd h (by simp [Bmff.fail, isOk])

theorem Closes.bind {α β} {m : M α} {f : α → M β} (hf : ∀ a, Closes (f a)) : Closes (m >>= f) := by
  intro s h
  change isOk (M.bind m f s).1 at h
  change ∃ b t, (M.bind m f s).2.chain = b :: t ∧ b.remain = 0
  unfold M.bind at h ⊢
  split at h
  · next a s' heq => exact hf a s' h
  · exact absurd h (by simp [isOk])
  · exact absurd h (by simp [isOk])

theorem decChain_head_zero (b : Box) (t : List Box) (h : (decChain (b :: t) b.remain).2 = true) :
    ∃ b' t', (decChain (b :: t) b.remain).1 = b' :: t' ∧ b'.remain = 0 := by
  unfold decChain at h ⊢
  simp only [Int.le_refl, if_true] at h ⊢
  exact ⟨_, _, rfl, by simp⟩

theorem Closes.close : Closes close := by
  intro s h
  unfold Bmff.close at h ⊢
  change isOk (M.bind head _ s).1 at h
  change ∃ b t, (M.bind head _ s).2.chain = b :: t ∧ b.remain = 0
  unfold M.bind Bmff.head at h ⊢
  cases hc : s.chain with
  | nil => rw [hc] at h; exact absurd h (by simp [isOk])
  | cons b t =>
    rw [hc] at h
    simp only [] at h ⊢
    by_cases h0 : (b.remain == 0) = true
    · rw [if_pos h0]
      refine ⟨b, t, ?_, by simpa using h0⟩
      show s.chain = b :: t
      exact hc
    · rw [if_neg h0] at h ⊢
      unfold Bmff.discard at h ⊢
      by_cases hneg : b.remain < 0
      · rw [if_pos hneg] at h; split at h <;> exact absurd h (by simp [isOk])
      · rw [if_neg hneg] at h ⊢
        rw [hc] at h ⊢
        simp only [] at h ⊢
        by_cases hfl : (decChain (b :: t) b.remain).2 = true
        · obtain ⟨b', t', h1, h2⟩ := decChain_head_zero b t hfl
          simp only [hfl, Bool.not_true, Bool.false_eq_true, if_false] at h ⊢
          split
          · next hlt => rw [if_pos hlt] at h; exact absurd h (by simp [isOk])
          · exact ⟨b', t', h1, h2⟩
        · have : (decChain (b :: t) b.remain).2 = false := by simpa using hfl
          simp only [this, Bool.not_false, if_true] at h
          exact absurd h (by simp [isOk])

/-- closing an already closed box does nothing -/
theorem close_noop (s : St) (b : Box) (t : List Box) (hc : s.chain = b :: t) (h0 : b.remain = 0) : close s = (.ok (), s) := by
  unfold Bmff.close
  change M.bind head _ s = _
  unfold M.bind Bmff.head
  rw [hc]
  simp [h0]
  rfl

theorem bind_ok {α β} {m : M α} {f : α → M β} {s s' : St} {a : α} (h : m s = (.ok a, s')) : (m >>= f) s = f a s' := by
  change M.bind m f s = _; unfold M.bind; rw [h]
theorem bind_err {α β} {m : M α} {f : α → M β} {s s' : St} {k : ErrKind} (h : m s = (.err k, s')) : (m >>= f) s = (.err k, s') := by
  change M.bind m f s = _; unfold M.bind; rw [h]
theorem bind_panic {α β} {m : M α} {f : α → M β} {s s' : St} {p : String} (h : m s = (.panic p, s')) : (m >>= f) s = (.panic p, s') := by
  change M.bind m f s = _; unfold M.bind; rw [h]
theorem attempt_ok {α} {m : M α} {s s' : St} {a : α} (h : m s = (.ok a, s')) : attempt m s = (.ok (.ok a), s') := by
  unfold attempt; rw [h]
theorem attempt_err {α} {m : M α} {s s' : St} {k : ErrKind} (h : m s = (.err k, s')) : attempt m s = (.ok (.error k), s') := by
  unfold attempt; rw [h]
theorem attempt_panic {α} {m : M α} {s s' : St} {p : String} (h : m s = (.panic p, s')) : attempt m s = (.panic p, s') := by
  unfold attempt; rw [h]
theorem pure_run {α} (a : α) (s : St) : (pure a : M α) s = (.ok a, s) := rfl
theorem fail_run {α} (k : ErrKind) (s : St) : (fail k : M α) s = (.err k, s) := rfl

/-- `err = handler(&b); b.close(); return err` -/
theorem Closes.guarded {m : M Unit} (hm : Closes m) :
    Closes (do
      let r ← Bmff.attempt m
      let _ ← Bmff.attempt Bmff.close
      match r with
      | .ok _ => pure ()
      | .error e => Bmff.fail e) := by
  intro s h
  cases hms : m s with
  | mk r s1 =>
    cases r with
    | ok u =>
      obtain ⟨b, t, hc, h0⟩ := hm s (by rw [hms]; trivial)
      rw [hms] at hc
      rw [bind_ok (attempt_ok hms), bind_ok (attempt_ok (close_noop s1 b t hc h0))]
      exact ⟨b, t, hc, h0⟩
    | err k =>
      rw [bind_ok (attempt_err hms)] at h
      cases hcl : Bmff.close s1 with
      | mk r2 s2 =>
        cases r2 with
        | ok u => rw [bind_ok (attempt_ok hcl)] at h; exact absurd h (by simp [isOk, fail_run])
        | err k2 => rw [bind_ok (attempt_err hcl)] at h; exact absurd h (by simp [isOk, fail_run])
        | panic p => rw [bind_panic (attempt_panic hcl)] at h; exact absurd h (by simp [isOk])
    | panic p =>
      rw [bind_panic (attempt_panic hms)] at h
      exact absurd h (by simp [isOk])

/-! every top-level handler closes its box when it reports success -/

macro "closes_step" : tactic => `(tactic| first
  | with_reducible exact Closes.close | with_reducible exact Closes.fail _
  | with_reducible apply Closes.bind
  | intro _
  | split
  | dsimp only)
macro "closes" : tactic => `(tactic| repeat' closes_step)

attribute [irreducible] Closes

theorem Closes.readMeta : Closes readMeta := by unfold Bmff.readMeta; closes
theorem Closes.readMoov : Closes readMoov := by unfold Bmff.readMoov; closes
theorem Closes.readUUIDBox : Closes readUUIDBox := by unfold Bmff.readUUIDBox; closes
theorem Closes.readMdat : Closes readMdat := by unfold Bmff.readMdat Bmff.mdatExifBody; closes
theorem Closes.dispatch (t : Bytes) : Closes (dispatch t) := by
  unfold Bmff.dispatch
  split
  · exact Closes.readMdat
  split
  · exact Closes.guarded Closes.readMeta
  split
  · exact Closes.guarded Closes.readMoov
  split
  · exact Closes.readUUIDBox
  · exact Closes.close

end Imeta.Bmff

namespace Imeta.Bmff

/-! ### exact evaluation of the box operations on a well-nested chain (payload delivery) -/

theorem decChain_all (c : List Box) (n : Int) (h : ∀ b ∈ c, n ≤ b.remain) : decChain c n = (subAll c n, true) := by
  induction c with
  | nil => rfl
  | cons b t ih =>
    unfold decChain
    rw [if_pos (h b List.mem_cons_self), ih (fun x hx => h x (List.mem_cons_of_mem _ hx))]
    rfl

theorem chainOk_all (c : List Box) (n : Int) (h : ∀ b ∈ c, n ≤ b.remain) : chainOk c n = true := by
  unfold chainOk; simp only [List.all_eq_true, decide_eq_true_eq]; exact h

theorem peek_ok (s : St) (n : Nat) (h1 : ∀ b ∈ s.chain, (n : Int) ≤ b.remain) (h2 : n ≤ 4096) (h3 : n ≤ s.rest.length) :
    peek n s = (.ok (s.rest.take n), s) := by
  unfold peek
  rw [chainOk_all s.chain n h1]
  simp only [Bool.not_true, Bool.false_eq_true, if_false, Int.toNat_natCast]
  rw [if_neg (by omega), if_neg (by omega), if_neg (by omega)]

theorem discard_ok (s : St) (n : Nat) (h1 : ∀ b ∈ s.chain, (n : Int) ≤ b.remain) (h3 : n ≤ s.rest.length) :
    discard n s = (.ok (), { s with chain := subAll s.chain n, rest := s.rest.drop n, pos := s.pos + n }) := by
  unfold discard
  rw [if_neg (by omega), decChain_all s.chain n h1]
  simp only [Bool.not_true, Bool.false_eq_true, if_false, Int.toNat_natCast]
  rw [Nat.min_eq_left h3, if_neg (by omega)]

theorem le_limit (t : List Box) (x : Int) (hne : t ≠ []) (h : ∀ o ∈ t, x ≤ o.remain) : x ≤ limit t := by
  induction t with
  | nil => exact absurd rfl hne
  | cons a r ih =>
    cases r with
    | nil => simp [limit]; exact h a List.mem_cons_self
    | cons a2 r2 =>
      simp only [limit]
      exact Int.le_min.mpr ⟨h a List.mem_cons_self, ih (by simp) (fun o ho => h o (List.mem_cons_of_mem _ ho))⟩

theorem limit_head (b : Box) (t : List Box) (h : ∀ o ∈ t, b.remain ≤ o.remain) : limit (b :: t) = b.remain := by
  cases t with
  | nil => rfl
  | cons a r =>
    simp only [limit]
    exact Int.min_eq_left (le_limit (a :: r) _ (by simp) h)

/-- a draining callback obtains exactly the `remain` bytes of the innermost box when the boxes are well nested and the
stream holds them -/
theorem callback_drain (kind : String) (nums : List Nat) (s : St) (b : Box) (t : List Box) (n : Nat)
    (hc : s.chain = b :: t) (hn : b.remain = n) (hnest : ∀ o ∈ t, b.remain ≤ o.remain) (hlen : n ≤ s.rest.length)
    (hcb : s.cfg.cb = .drain) :
    callback kind nums s = (.ok (), { s with rest := s.rest.drop n, pos := s.pos + n, chain := subAll s.chain n,
                                             events := { kind := kind, nums := nums, data := s.rest.take n } :: s.events }) := by
  unfold callback
  rw [bind_ok (show get s = (.ok s, s) from rfl)]
  simp only [hcb]
  have hlim : limit s.chain = n := by rw [hc, limit_head b t hnest, hn]
  have hr : readUpTo s.rest.length s = (.ok (s.rest.take n), { s with rest := s.rest.drop n, pos := s.pos + n, chain := subAll s.chain n }) := by
    unfold readUpTo
    simp only [hlim, Int.toNat_natCast]
    have : min (min s.rest.length n) s.rest.length = n := by omega
    rw [this]
  rw [bind_ok hr]
  rfl

end Imeta.Bmff
