/-
  C02 for the two item walks of the ISOBMFF reader that run over a peeked buffer (readInfe, readIloc): the model gives
  them |buf|/12+1 resp. |buf|/6+1 rounds and returns what it has when the rounds are used up.  These lemmas show that
  the rounds are never used up: every round that continues has advanced the cursor by at least 12 resp. 6 bytes, so the
  result is the same for every larger number of rounds (the loop of the code, which has no counter, ends by itself).
-/
import Imeta.Model.Bmff
namespace Imeta.Bmff
open Imeta

theorem infeWalk_fuel (buf : Bytes) : ∀ (f g i : Nat) (ids : Nat × Nat), buf.length < i + 12 * f → f ≤ g →
    infeWalk buf g i ids = infeWalk buf f i ids := by
  intro f
  induction f with
  | zero =>
    intro g i ids h _
    cases g with
    | zero => rfl
    | succ g =>
      unfold infeWalk
      rw [if_neg (by omega)]
  | succ f ih =>
    intro g i ids h hg
    cases g with
    | zero => omega
    | succ g =>
      have hg' : f ≤ g := by omega
      conv => lhs; unfold infeWalk
      conv => rhs; unfold infeWalk
      split
      · dsimp only
        split
        · rfl
        · rename_i hs
          have hs12 : 12 ≤ be32 (buf.drop i) := by
            simp only [Bool.or_eq_true, decide_eq_true_eq, not_or, Nat.not_lt] at hs; exact hs.1
          have hstep : buf.length < i + be32 (buf.drop i) + 12 * f := by omega
          repeat' split
          all_goals exact ih g _ _ hstep hg'
      · rfl

theorem ilocWalk_fuel (c : IlocCfg) (exifId xmlId : Nat) (buf : Bytes) : ∀ (f g i : Nat) (ol : Nat × Nat),
    buf.length < i + 6 * f → f ≤ g → ilocWalk c exifId xmlId buf g i ol = ilocWalk c exifId xmlId buf f i ol := by
  intro f
  induction f with
  | zero =>
    intro g i ol h _
    cases g with
    | zero => rfl
    | succ g =>
      unfold ilocWalk
      dsimp only
      have h6 : 6 ≤ 6 + c.baseOffsetSize + (if c.version > 0 then 2 else 0) :=
        Nat.le_trans (Nat.le_add_right 6 _) (Nat.le_add_right _ _)
      generalize (6 + c.baseOffsetSize + (if c.version > 0 then 2 else 0)) = es at h6 ⊢
      rw [if_neg (by omega)]
  | succ f ih =>
    intro g i ol h hg
    cases g with
    | zero => omega
    | succ g =>
      have hg' : f ≤ g := by omega
      conv => lhs; unfold ilocWalk
      conv => rhs; unfold ilocWalk
      dsimp only
      have h6 : 6 ≤ 6 + c.baseOffsetSize + (if c.version > 0 then 2 else 0) :=
        Nat.le_trans (Nat.le_add_right 6 _) (Nat.le_add_right _ _)
      generalize (6 + c.baseOffsetSize + (if c.version > 0 then 2 else 0)) = es at h6 ⊢
      split
      · split
        · exact ih g _ _ (by omega) hg'
        · split
          · rfl
          · exact ih g _ _ (by omega) hg'
      · rfl

/-- readInfe's walk with the rounds the model gives it is the walk with any larger number of rounds -/
theorem infeWalk_total (buf : Bytes) (ids : Nat × Nat) (g : Nat) (hg : buf.length / 12 + 1 ≤ g) :
    infeWalk buf g 0 ids = infeWalk buf (buf.length / 12 + 1) 0 ids :=
  infeWalk_fuel buf _ g 0 ids (by omega) hg

/-- readIloc's walk with the rounds the model gives it is the walk with any larger number of rounds -/
theorem ilocWalk_total (c : IlocCfg) (exifId xmlId : Nat) (buf : Bytes) (ol : Nat × Nat) (g : Nat) (hg : buf.length / 6 + 1 ≤ g) :
    ilocWalk c exifId xmlId buf g 0 ol = ilocWalk c exifId xmlId buf (buf.length / 6 + 1) 0 ol :=
  ilocWalk_fuel c exifId xmlId buf _ g 0 ol (by omega) hg

end Imeta.Bmff
