/-
  C03, part 7b: a field of the Exif directory, end to end: LensModel (ExifIFD, 0xa434).
-/
import Imeta.Lemmas.ExifField
namespace Imeta.Exif
open Imeta

set_option maxRecDepth 100000 in
theorem lensModel_exif (ex : Rec) (t : Tag) (buf : Bytes) (err : Option ErrKind)
    (hk : ¬(t.id = 0xa434)) : KF (fun e => e.lensModel) ex (parseExifIfdV ex t buf err) := by
  have hk : ¬(True ∧ t.id = 0xa434) := fun h => hk h.2
  unfold parseExifIfdV
  kf_walk

set_option maxRecDepth 100000 in
theorem lensModel_ifd0 (tb : Tables) (ex : Rec) (t : Tag) (buf : Bytes) (err : Option ErrKind) :
    KF (fun e => e.lensModel) ex (parseIfd0V tb ex t buf err) := by
  unfold parseIfd0V
  kf_walk0

set_option maxRecDepth 100000 in
theorem lensModel_gps (ex : Rec) (t : Tag) (buf : Bytes) (err : Option ErrKind) :
    KF (fun e => e.lensModel) ex (parseGpsIfdV ex t buf err) := by
  unfold parseGpsIfdV
  kf_walk0

theorem lensModel_other (tb : Tables) (ex : Rec) (t : Tag) (buf : Bytes) (err : Option ErrKind)
    (hk : ¬(t.ifd = exifIFD ∧ t.id = 0xa434)) : KF (fun e => e.lensModel) ex (parseTagV tb ex t buf err) := by
  unfold parseTagV
  apply KF.ite (fun _ => lensModel_ifd0 tb ex t buf err)
  intro _
  apply KF.ite
  · intro h3; exact lensModel_exif ex t buf err (fun e => hk ⟨h3, e⟩)
  · intro _; exact KF.ite (fun _ => lensModel_gps ex t buf err) (fun _ => KF.ok rfl)

theorem lensModel_writer (tb : Tables) (ex ex' : Rec) (t : Tag) (buf : Bytes)
    (h0 : t.ifd = exifIFD) (hid : t.id = 0xa434) (hemb : t.isEmbedded = false) (hasc : isASCII t = true)
    (h : parseTagV tb ex t buf none = .ok ex') : ex'.lensModel = trimNUL buf := by
  unfold parseTagV at h
  rw [if_neg (by rw [h0]; decide), if_pos h0] at h
  unfold parseExifIfdV at h
  have e : t.id = 42036 := hid
  simp only [e] at h
  simp only [show ¬ (42036 = 42035) by decide, if_false, if_true] at h
  obtain ⟨s, hs, h⟩ := bind_ok h
  simp only [Outcome.ok.injEq] at h
  rw [← h]
  show s = trimNUL buf
  unfold parseStringV parseBytesV at hs
  rw [if_neg (by simp [hemb]), if_pos hasc] at hs
  obtain ⟨s', hs', hs⟩ := bind_ok hs
  simp only [Bool.false_and, Bool.false_eq_true, if_false, Outcome.ok.injEq] at hs' hs
  rw [← hs, ← hs']

/-- **LensModel, end to end** (a field of the Exif directory) -/
theorem lensModel_exact {tb : Tables} {ex0 : Rec} {F : Bytes} {r : R} (he : Exact tb ex0 F r) (pre post : List Tag) (a : Tag)
    (hsplit : r.parsed = pre ++ a :: post) (h0 : a.ifd = exifIFD) (hid : a.id = 0xa434) (hemb : a.isEmbedded = false)
    (hasc : isASCII a = true) (hpost : ∀ t ∈ post, ¬(t.ifd = exifIFD ∧ t.id = 0xa434)) :
    r.ex.lensModel = trimNUL (slice F a) := by
  have href := he.ref
  rw [hsplit] at href
  obtain ⟨exPre, exA, _, hA, hf⟩ := idealRun_last tb F (fun e => e.lensModel) (fun t => t.ifd = exifIFD ∧ t.id = 0xa434)
    (fun ex t hk => lensModel_other tb ex t (slice F t) none hk) pre a post ex0 r.ex hpost href
  rw [hf]
  exact lensModel_writer tb exPre exA a (slice F a) h0 hid hemb hasc hA

end Imeta.Exif
