/-
  C17 specification: documented names of enumeration values, written by hand from
  the doc comments in /repo (canon types, ImageType), the Exif 2.32 / TIFF 6.0
  tables and ExifTool's tag tables (Flash, MeteringMode, ExposureProgram,
  Orientation, tag types) — independent of the string/index tables in the code.
-/
import Imeta.Go.Basic
namespace Imeta.EnumSpec

/-- ASCII bytes of a string literal -/
def asc (s : String) : Bytes := s.toList.map (fun c => UInt8.ofNat c.toNat)

structure Doc where
  /-- documented value ↦ documented name -/
  names : List (Int × String)
  /-- what every other value formats as -/
  fallback : String

/-- the documented formatting function -/
def Doc.name (d : Doc) (v : Int) : Bytes := asc ((d.names.lookup v).getD d.fallback)

def imageType : Doc :=
  { names := [(0, "application/octet-stream"), (1, "image/jpeg"), (2, "image/png"), (3, "image/gif"),
      (4, "image/bmp"), (5, "image/webp"), (6, "image/heif"), (7, "image/raw"), (8, "image/tiff"),
      (9, "image/x-adobe-dng"), (10, "image/x-nikon-nef"), (11, "image/x-panasonic-raw"),
      (12, "image/x-sony-arw"), (13, "image/x-canon-crw"), (14, "image/x-gopro-gpr"),
      (15, "image/x-canon-cr3"), (16, "image/x-canon-cr2"), (17, "image/vnd.adobe.photoshop"),
      (18, "application/rdf+xml"), (19, "image/avif"), (20, "image/x-portable-pixmap"),
      (21, "image/jp2"), (22, "image/svg+xml"), (23, "image/magick")]
    fallback := "application/octet-stream" }

def imageTypeExt : Doc :=
  { names := [(1, "jpg"), (2, "png"), (3, "gif"), (4, "bmp"), (5, "webp"), (6, "heif"), (7, "RAW"),
      (8, "TIFF"), (9, "DNG"), (10, "NEF"), (11, "RW2"), (12, "ARW"), (13, "CRW"), (14, "GPR"),
      (15, "CR3"), (16, "CR2"), (17, "PSD"), (18, "XMP"), (19, "avif"), (20, "ppm"), (21, "jp2"),
      (22, "svg"), (23, "magick")]
    fallback := "" }

def ifdType : Doc :=
  { names := [(1, "Ifd"), (2, "Ifd/SubIfd"), (3, "Ifd/Exif"), (4, "Ifd/GPS"), (5, "Ifd/Iop"),
      (6, "Ifd/Exif/Makernote"), (7, "Ifd/DNGAdobeData"), (8, "Ifd/Exif/Makernote"),
      (9, "Ifd/Exif/Makernote"), (10, "Ifd/Exif/Makernote"), (11, "Ifd/Exif/Makernote"),
      (12, "Ifd/SubIfd0"), (13, "Ifd/SubIfd1"), (14, "Ifd/SubIfd2"), (15, "Ifd/SubIfd3"),
      (16, "Ifd/SubIfd4"), (17, "Ifd/SubIfd5"), (18, "Ifd/SubIfd6"), (19, "Ifd/SubIfd7")]
    fallback := "UnknownIfd" }

/-- TIFF 6.0 field types (plus the library's two private types 0xf0, 0xf1) -/
def tagType : Doc :=
  { names := [(1, "BYTE"), (2, "ASCII"), (3, "SHORT"), (4, "LONG"), (5, "RATIONAL"), (7, "UNDEFINED"),
      (8, "SSHORT"), (9, "SLONG"), (10, "SRATIONAL"), (11, "FLOAT"), (12, "DOUBLE"),
      (0xf0, "_ASCII_NO_NUL"), (0xf1, "IFD")]
    fallback := "Unknown" }

/-- Exif MeteringMode -/
def meteringMode : Doc :=
  { names := [(0, "Unknown"), (1, "Average"), (2, "Center-weighted average"), (3, "Spot"),
      (4, "Multi-spot"), (5, "Multi-segment"), (6, "Partial"), (255, "Other")]
    fallback := "Unknown" }

def exposureMode : Doc :=
  { names := [(0, "Auto"), (1, "Manual"), (2, "Auto bracket")], fallback := "Unknown" }

def exposureProgram : Doc :=
  { names := [(0, "Not Defined"), (1, "Manual"), (2, "Program AE"), (3, "Aperture-priority AE"),
      (4, "Shutter speed priority AE"), (5, "Creative (Slow speed)"), (6, "Action (High speed)"),
      (7, "Portrait"), (8, "Landscape"), (9, "Bulb")]
    fallback := "Not Defined" }

def orientation : Doc :=
  { names := [(1, "Horizontal"), (2, "Mirror horizontal"), (3, "Rotate 180"), (4, "Mirror vertical"),
      (5, "Mirror horizontal and rotate 270 CW"), (6, "Rotate 90 CW"),
      (7, "Mirror horizontal and rotate 90 CW"), (8, "Rotate 270 CW")]
    fallback := "Unknown" }

/-- Exif Flash (ExifTool EXIF:Flash table) -/
def flash : Doc :=
  { names := [(0x0, "No Flash"), (0x1, "Fired"), (0x5, "Fired, Return not detected"),
      (0x7, "Fired, Return detected"), (0x8, "On, Did not fire"), (0x9, "On, Fired"),
      (0xd, "On, Return not detected"), (0xf, "On, Return detected"), (0x10, "Off, Did not fire"),
      (0x14, "Off, Did not fire, Return not detected"), (0x18, "Auto, Did not fire"),
      (0x19, "Auto, Fired"), (0x1d, "Auto, Fired, Return not detected"),
      (0x1f, "Auto, Fired, Return detected"), (0x20, "No flash function"),
      (0x30, "Off, No flash function"), (0x41, "Fired, Red-eye reduction"),
      (0x45, "Fired, Red-eye reduction, Return not detected"),
      (0x47, "Fired, Red-eye reduction, Return detected"), (0x49, "On, Red-eye reduction"),
      (0x4d, "On, Red-eye reduction, Return not detected"),
      (0x4f, "On, Red-eye reduction, Return detected"), (0x50, "Off, Red-eye reduction"),
      (0x58, "Auto, Did not fire, Red-eye reduction"), (0x59, "Auto, Fired, Red-eye reduction"),
      (0x5d, "Auto, Fired, Red-eye reduction, Return not detected"),
      (0x5f, "Auto, Fired, Red-eye reduction, Return detected")]
    fallback := "No Flash" }

def byteOrder : Doc :=
  { names := [(1, "LittleEndian"), (2, "BigEndian")], fallback := "UnknownEndian" }

/-! Canon maker-note enumerations: doc comments in meta/canon/canon.go -/

def canonContinuousDrive : Doc :=
  { names := [(0, "Single"), (1, "Continuous"), (2, "Movie"), (3, "Continuous, Speed Priority"),
      (4, "Continuous, Low"), (5, "Continuous, High"), (6, "Silent Single"), (7, "Unknown"),
      (8, "Unknown"), (9, "Single, Silent"), (10, "Continuous, Silent")]
    fallback := "Unknown" }

def canonFocusMode : Doc :=
  { names := [(0, "One-shot AF"), (1, "AI Servo AF"), (2, "AI Focus AF"), (3, "Manual Focus"),
      (4, "Single"), (5, "Continuous"), (6, "Manual Focus"), (16, "Pan Focus"), (256, "AF + MF"),
      (512, "Movie Snap Focus"), (519, "Movie Servo AF")]
    fallback := "Unknown" }

def canonMeteringMode : Doc :=
  { names := [(0, "Default"), (1, "Spot"), (2, "Average"), (3, "Evaluative"), (4, "Partial"),
      (5, "Center-weighted average")]
    fallback := "" }

def canonFocusRange : Doc :=
  { names := [(0, "Manual"), (1, "Auto"), (2, "Not Known"), (3, "Macro"), (4, "Very Close"),
      (5, "Close"), (6, "Middle Range"), (7, "Far Range"), (8, "Pan Focus"), (9, "Super Macro"),
      (10, "Infinity")]
    fallback := "" }

def canonExposureMode : Doc :=
  { names := [(0, "Easy"), (1, "Program AE"), (2, "Shutter speed priority AE"),
      (3, "Aperture-priority AE"), (4, "Manual"), (5, "Depth-of-field AE"), (6, "M-Dep"), (7, "Bulb"),
      (8, "Flexible-priority AE")]
    fallback := "" }

def canonBracketMode : Doc :=
  { names := [(0, "Off"), (1, "AEB"), (2, "FEB"), (3, "ISO"), (4, "WB")], fallback := "" }

def canonAESetting : Doc :=
  { names := [(0, "Normal AE"), (1, "Exposure Compensation"), (2, "AE Lock"),
      (3, "AE Lock + Exposure Compensation"), (4, "No AE")]
    fallback := "" }

def canonAFAreaMode : Doc :=
  { names := [(0, "Off (Manual Focus)"), (1, "AF Point Expansion (surround)"), (2, "Single-point AF"),
      (4, "Auto"), (5, "Face Detect AF"), (6, "Face + Tracking"), (7, "Zone AF"),
      (8, "AF Point Expansion (4 point)"), (9, "Spot AF"), (10, "AF Point Expansion (8 point)"),
      (11, "Flexizone Multi (49 point)"), (12, "Flexizone Multi (9 point)"), (13, "Flexizone Single"),
      (14, "Large Zone AF")]
    fallback := "" }

/-- XMP namespace prefixes (the xmlns: declarations quoted in xmp/xmpns/xmpns.go) -/
def xmpNamespace : Doc :=
  { names := [(0, "Unknown"), (1, "aux"), (2, "crs"), (3, "darktable"), (4, "dc"), (5, "exif"),
      (6, "exifEX"), (7, "lr"), (8, "photoshop"), (9, "pmi"), (10, "rdf"), (11, "stDim"),
      (12, "stEvt"), (13, "stRef"), (14, "tiff"), (15, "x"), (16, "xap"), (17, "xapMM"), (18, "xml"),
      (19, "xmlns"), (20, "xmp"), (21, "xmpDM"), (22, "xmpMM")]
    fallback := "" }

def hdlrType : Doc :=
  { names := [(1, "pict"), (2, "vide"), (3, "meta")], fallback := "nnnn" }

end Imeta.EnumSpec
