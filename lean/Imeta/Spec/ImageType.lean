/-
  C09 specification: the signature table, written from the format specifications
  and the property statement — independent of imagetype/*.go.  A header is the
  first 24 bytes of a stream.  Types are named through the generated constants
  (so a harmless renumbering of the Go constants does not matter here).
-/
import Imeta.Gen.ImageType
namespace Imeta.ImageTypeSpec
open Imeta Imeta.Gen.ImageType

/-- `h` carries the byte pattern `p` at offset `off` -/
def hasAt (h : Bytes) (off : Nat) (p : Bytes) : Bool := (h.drop off).take p.length == p

/-- JPEG: SOI marker FF D8 -/
def sigJPEG (h : Bytes) : Bool := hasAt h 0 [0xff, 0xd8]
/-- JPEG 2000 signature box: 00 00 00 0C 'jP  ' 0D 0A 87 0A (reported as JPEG by the library) -/
def sigJP2 (h : Bytes) : Bool :=
  hasAt h 0 [0x00, 0x00, 0x00, 0x0c, 0x6a, 0x50, 0x20, 0x20, 0x0d, 0x0a, 0x87, 0x0a]
/-- Canon CRW: 'II' byte order, 'HEAPCCDR' at offset 6 -/
def sigCRW (h : Bytes) : Bool :=
  hasAt h 0 [0x49, 0x49] && hasAt h 6 [0x48, 0x45, 0x41, 0x50, 0x43, 0x43, 0x44, 0x52]
/-- TIFF: 'II*\0' or 'MM\0*' -/
def sigTIFF (h : Bytes) : Bool := hasAt h 0 [0x49, 0x49, 0x2a, 0x00] || hasAt h 0 [0x4d, 0x4d, 0x00, 0x2a]
/-- Canon CR2: TIFF header and 'CR' 02 00 at offset 8 -/
def sigCR2 (h : Bytes) : Bool := sigTIFF h && hasAt h 8 [0x43, 0x52, 0x02, 0x00]
/-- ISOBMFF ftyp box: size < 65536 and 'ftyp' at offset 4 -/
def sigFtyp (h : Bytes) : Bool := hasAt h 0 [0x00, 0x00] && hasAt h 4 [0x66, 0x74, 0x79, 0x70]
def crx_ : Bytes := [0x63, 0x72, 0x78, 0x20]
def avif : Bytes := [0x61, 0x76, 0x69, 0x66]
def mif1 : Bytes := [0x6d, 0x69, 0x66, 0x31]
def msf1 : Bytes := [0x6d, 0x73, 0x66, 0x31]
def heic : Bytes := [0x68, 0x65, 0x69, 0x63]
def heix : Bytes := [0x68, 0x65, 0x69, 0x78]
def hevc : Bytes := [0x68, 0x65, 0x76, 0x63]
/-- Canon CR3: major brand 'crx ' -/
def sigCR3 (h : Bytes) : Bool := sigFtyp h && hasAt h 8 crx_
/-- AVIF: major brand 'avif', or 'mif1' with compatible brand 'avif' in the second slot -/
def sigAVIF (h : Bytes) : Bool := sigFtyp h && (hasAt h 8 avif || (hasAt h 8 mif1 && hasAt h 20 avif))
/-- HEIF: major brand 'heic'/'heix', or 'mif1' with 'heic' among the first two compatible
brands, or 'msf1' with 'hevc' in the second slot -/
def sigHEIF (h : Bytes) : Bool :=
  sigFtyp h && (hasAt h 8 heic || hasAt h 8 heix || (hasAt h 8 mif1 && hasAt h 16 heic) ||
    (hasAt h 8 mif1 && hasAt h 20 heic) || (hasAt h 8 msf1 && hasAt h 20 hevc))
/-- Panasonic RW2: 'IIU\0' and 88 E7 74 D8 at offset 8 -/
def sigRW2 (h : Bytes) : Bool := hasAt h 0 [0x49, 0x49, 0x55, 0x00] && hasAt h 8 [0x88, 0xe7, 0x74, 0xd8]
def sigPNG (h : Bytes) : Bool := hasAt h 0 [0x89, 0x50, 0x4e, 0x47]
/-- Photoshop: '8BPS' -/
def sigPSD (h : Bytes) : Bool := hasAt h 0 [0x38, 0x42, 0x50, 0x53]
/-- BMP: 'BM' -/
def sigBMP (h : Bytes) : Bool := hasAt h 0 [0x42, 0x4d]
/-- WebP: 'RIFF' .... 'WEBP' -/
def sigWebP (h : Bytes) : Bool := hasAt h 0 [0x52, 0x49, 0x46, 0x46] && hasAt h 8 [0x57, 0x45, 0x42, 0x50]
/-- XMP sidecar: `<x:xmpmeta` -/
def sigXMP (h : Bytes) : Bool := hasAt h 0 [0x3c, 0x78, 0x3a, 0x78, 0x6d, 0x70, 0x6d, 0x65, 0x74, 0x61]
/-- GIF87a / GIF89a -/
def sigGIF (h : Bytes) : Bool :=
  hasAt h 0 [0x47, 0x49, 0x46, 0x38, 0x37, 0x61] || hasAt h 0 [0x47, 0x49, 0x46, 0x38, 0x39, 0x61]
/-- PPM: 'P3' or 'P6' followed by white space -/
def sigPPM (h : Bytes) : Bool :=
  (hasAt h 0 [0x50, 0x33] || hasAt h 0 [0x50, 0x36]) &&
  (hasAt h 2 [0x0a] || hasAt h 2 [0x0d] || hasAt h 2 [0x09] || hasAt h 2 [0x20])

/-- The signature table in priority order: the more specific format first (CRW, CR2 before
TIFF; the ftyp brands CR3, AVIF, HEIF; RW2 before TIFF). -/
def table : List (Nat × (Bytes → Bool)) :=
  [ (ImageJPEG, sigJPEG), (ImageJPEG, sigJP2), (ImageCRW, sigCRW), (ImageCR2, sigCR2),
    (ImageCR3, sigCR3), (ImageAVIF, sigAVIF), (ImageHEIF, sigHEIF), (ImagePanaRAW, sigRW2),
    (ImageTiff, sigTIFF), (ImagePNG, sigPNG), (ImagePSD, sigPSD), (ImageBMP, sigBMP),
    (ImageWebP, sigWebP), (ImageXMP, sigXMP), (ImageGIF, sigGIF), (ImagePPM, sigPPM) ]

/-- first entry of a decision table whose signature matches -/
def firstMatch : List (Nat × (Bytes → Bool)) → Bytes → Option Nat
  | [], _ => none
  | (t, p) :: rest, h => if p h then some t else firstMatch rest h

/-- the specified classification of a 24-byte header -/
def classify (h : Bytes) : Nat := (firstMatch table h).getD ImageUnknown

/-- F's signature(s): a header "carries F's signature" when some table row for F matches -/
def Sig (F : Nat) (h : Bytes) : Bool := table.any fun e => e.1 == F && e.2 h

/-- what every sniffing entry point must return for a stream `b` -/
def sniff (b : Bytes) : Outcome Nat :=
  if b.length < 24 then .err .dataLength
  else if classify (b.take 24) == ImageUnknown then .err .typeNotFound
  else .ok (classify (b.take 24))

end Imeta.ImageTypeSpec
