/-
  C10 — specification side: a grammar of well-formed JPEG marker segments, their encoding, and the
  callback invocations the property demands. Written independently of the scanner's control flow.
-/
import Imeta.Model.Jpeg
namespace Imeta.Jpeg
open Imeta

inductive Seg where
  /-- a segment the scanner must skip by its length: APPn, COM, SOFn, DHT, unknown markers -/
  | skip (mk : UInt8) (payload : Bytes)
  /-- DRI: FF DD 00 04 a b -/
  | dri (a b : UInt8)
  /-- APP1 "Exif\0\0" + TIFF payload -/
  | exif (tiff : Bytes)
  /-- APP1 "http://ns.adobe.com/xap/1.0/\0" + packet -/
  | xmp (packet : Bytes)
  deriving Repr, DecidableEq

def be16 (n : Nat) : Bytes := [UInt8.ofNat (n / 256), UInt8.ofNat (n % 256)]

def Seg.encode : Seg → Bytes
  | .skip mk p => 0xFF :: mk :: (be16 (p.length + 2) ++ p)
  | .dri a b => [0xFF, 0xDD, 0, 4, a, b]
  | .exif t => 0xFF :: 0xE1 :: (be16 (t.length + 8) ++ (exifPrefix ++ t))
  | .xmp k => 0xFF :: 0xE1 :: (be16 (k.length + 31) ++ (xmpPrefix ++ k))

/-- well-formedness: the length fits its 16-bit field; a skipped marker is none of SOI/EOI/DQT/DRI and not 0xFF (a fill byte, no marker code); a skipped
APP1 segment is long enough for the prefix recognisers to look only at its own payload and carries neither
metadata prefix -/
def Seg.wf : Seg → Prop
  | .skip mk p => p.length + 2 < 65536 ∧ mk ≠ 0xD8 ∧ mk ≠ 0xD9 ∧ mk ≠ 0xDB ∧ mk ≠ 0xDD ∧
      (mk = 0xE1 → 29 ≤ p.length ∧ p.take 6 ≠ exifPrefix ∧ p.take 29 ≠ xmpPrefix) ∧ mk ≠ 0xFF
  | .dri _ _ => True
  | .exif t => 8 ≤ t.length ∧ t.length + 8 < 65536
  | .xmp k => k.length + 31 < 65536

/-- the callback invocations the property demands for a segment that starts at absolute offset `d` -/
def Seg.events (cb : Cbs) (d : Nat) : Seg → List Ev
  | .exif t =>
    if cb.hasExif then
      [.exif { order := Tiff.binaryOrder (t.take 8), firstIfd := (Tiff.binaryOrder (t.take 8)).uint ((t.drop 4).take 4),
               tiffOffset := d + 10, exifLength := t.length } t]
    else []
  | .xmp k => if cb.hasXmp then [.xmp k] else []
  | _ => []

def encodeAll : List Seg → Bytes
  | [] => []
  | s :: t => s.encode ++ encodeAll t

def eventsAll (cb : Cbs) : Nat → List Seg → List Ev
  | _, [] => []
  | d, s :: t => s.events cb d ++ eventsAll cb (d + s.encode.length) t

/-- the contract of the callbacks in the property: the Exif callback consumes its declared length and succeeds
(as the library's own reader does); the XMP callback may consume anything and succeeds -/
def Cbs.wellBehaved (cb : Cbs) : Prop :=
  (∀ h rest, cb.exif h rest = (h.exifLength, false)) ∧ (∀ v, (cb.xmp v).2 = false)

end Imeta.Jpeg
