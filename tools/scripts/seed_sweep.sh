#!/bin/bash
# seed_sweep.sh <seed-id>... : to be run through `vp run --with-repo -- tools/scripts/seed_sweep.sh ids...`
# (a snapshot of /verif with its own build output, and a snapshot of /repo in $VP_RUN_REPO), or directly with
# VP_RUN_REPO pointing at a scratch worktree. Applies each seeded patch to the scratch repository, runs the quick
# check of the seed's property (plus any extra properties listed in seeded/<id>/also.txt) and prints one line per run.
set -u
cd "$(dirname "$0")/../.."
R=${VP_RUN_REPO:?need VP_RUN_REPO}
export VERIF_REPO=$R
[ -x lean/.lake/build/bin/imeta-driver ] || ./setup.sh >/dev/null 2>&1
for ID in "$@"; do
  D=seeded/$ID
  P=$(python3 -c "import json;print(json.load(open('$D/meta.json'))['property'])")
  PROPS="$P $(cat $D/also.txt 2>/dev/null)"
  git -C $R checkout -q -- . ; git -C $R apply "$(pwd)/$D/patch.diff" || { echo "$ID: patch does not apply"; continue; }
  for q in $PROPS; do
    OUT=$(./check $q --tier quick 2>&1); RC=$?
    echo "SEED $ID vs $q: exit=$RC $(echo "$OUT" | grep '^VIOLATION' | head -1)"
  done
  git -C $R checkout -q -- .
done
