#!/bin/bash
# seed_run.sh <seed-id> [props...] : apply seeded/<id>/patch.diff to /repo, run the quick checks of the named
# properties (default: the seed's own property), undo the patch, and record the outcome in seeded/<id>/detection.json.
set -u
ID=$1; shift
D=/verif/seeded/$ID
P=$(python3 -c "import json;print(json.load(open('$D/meta.json'))['property'])")
PROPS="${@:-$P}"
cd /repo
if [ -n "$(git status --short)" ]; then echo "/repo not clean"; exit 9; fi
git apply $D/patch.diff || { echo "patch does not apply"; exit 2; }
OUT="{"
for q in $PROPS; do
  R=$(cd /verif && ./check $q --tier quick 2>&1); RC=$?
  V=$(echo "$R" | grep '^VIOLATION' | head -1)
  echo "$ID vs $q: exit=$RC $V"
  OUT="$OUT\"$q\": {\"exit\": $RC, \"line\": $(python3 -c "import json,sys;print(json.dumps(sys.argv[1]))" "$V")},"
done
git -C /repo checkout -- .
OUT="${OUT%,}}"
echo "$OUT" > $D/detection.json
(cd /verif && ./check --regen-all >/dev/null)
