#!/bin/bash
# thorough_all.sh [seed] [ids...] : run the thorough tier of every (or the given) property on the unchanged snapshot
# (through `vp run --with-repo -- tools/scripts/thorough_all.sh`), one line per property.
set -u
cd "$(dirname "$0")/../.."
R=${VP_RUN_REPO:?need VP_RUN_REPO}
export VERIF_REPO=$R
SEED=${1:-1}; shift || true
IDS=${*:-C01 C02 C03 C04 C05 C06 C07 C08 C09 C10 C11 C12 C13 C14 C15 C16 C17 C18 C19 C20}
[ -x lean/.lake/build/bin/imeta-driver ] || ./setup.sh >/dev/null 2>&1
for q in $IDS; do
  T0=$(date +%s)
  OUT=$(./check $q --tier thorough --seed $SEED 2>&1); RC=$?
  echo "THOROUGH $q seed=$SEED exit=$RC secs=$(( $(date +%s) - T0 )) $(echo "$OUT" | grep '^VIOLATION\|^KNOWN' | head -3 | cut -c1-160 | tr '\n' ' ')"
done
