#!/bin/bash
# seed_confirm.sh <prop> <mi> <pkgdir> : confirm a sub-agent mutation in a scratch worktree of /repo's HEAD and
# store it under /verif/seeded/<prop>-<mi>/ (patch.diff, demo_test.go, notes.md, meta.json).
set -u
P=$1; M=$2; DIR=$3
SRC=/tmp/mut/$P.out/$M
export GOFLAGS=-mod=mod GOPROXY=off GOSUMDB=off GOTOOLCHAIN=local
W=/tmp/seedwt.$$
git -C /repo worktree add --detach $W HEAD >/dev/null 2>&1 || exit 9
cleanup() { git -C /repo worktree remove --force $W >/dev/null 2>&1; }
trap cleanup EXIT
cd $W
if ! git apply --check $SRC/patch.diff 2>/dev/null; then echo "$P $M: patch does not apply to HEAD"; exit 2; fi
DEMO=$DIR/zz_seed_demo_test.go
cp $SRC/demo_test.go $DEMO
go test ${SEED_TESTFLAGS:-} -vet=off -count=1 ./$DIR/ >/tmp/seed.$$.clean 2>&1; CLEAN=$?
git apply $SRC/patch.diff
go test ${SEED_TESTFLAGS:-} -vet=off -count=1 -timeout 300s ./$DIR/ >/tmp/seed.$$.mut 2>&1; MUT=$?
rm $DEMO
go build ./... >/tmp/seed.$$.build 2>&1; BUILD=$?
go test -vet=off -count=1 ./... >/tmp/seed.$$.suite 2>&1; SUITE=$?
echo "$P $M: demo-on-clean=$CLEAN demo-with-patch=$MUT build=$BUILD suite-with-patch=$SUITE"
if [ $CLEAN -eq 0 ] && [ $MUT -ne 0 ] && [ $BUILD -eq 0 ] && [ $SUITE -eq 0 ]; then
  D=/verif/seeded/$P-$M; mkdir -p $D
  cp $SRC/patch.diff $SRC/demo_test.go $SRC/notes.md $D/
  python3 - "$P" "$M" "$DIR" "$D" <<'PY'
import json,sys,subprocess
P,M,DIR,D=sys.argv[1:5]
notes=open(D+'/notes.md').read()
head=subprocess.run(['git','-C','/repo','rev-parse','--short','HEAD'],capture_output=True,text=True).stdout.strip()
json.dump({"property":P,"id":P+"-"+M,"demo_package_dir":DIR,"confirmed_at_repo_commit":head,
 "needs":notes[:1500],
 "confirmed":["patch applies to /repo HEAD","go build ./... succeeds with patch","go test -vet=off -count=1 ./... passes with patch",
   "demo test passes on clean checkout","demo test fails with patch"],
 "ran":"tools/scripts/seed_confirm.sh %s %s %s"%(P,M,DIR)},open(D+'/meta.json','w'),indent=1)
PY
  echo "  kept as $D"
else
  tail -5 /tmp/seed.$$.clean /tmp/seed.$$.suite | head -30
fi
rm -f /tmp/seed.$$.*
