#!/bin/bash
# seed_take.sh <prop> <srcdir> <pkgdir> <newid> [check-prop...] : confirm a sub-agent mutation found in <srcdir>
# (patch.diff, demo_test.go, notes.md), keep it as seeded/<prop>-<newid>, then run the quick harness of <prop> (and of the
# extra properties) against it in place and print what they report. /repo is restored afterwards.
set -u
P=$1; SRC=$2; DIR=$3; ID=$4; shift 4
mkdir -p /tmp/mut/$P.out/$ID && cp $SRC/patch.diff $SRC/demo_test.go $SRC/notes.md /tmp/mut/$P.out/$ID/ || exit 2
cd /verif
tools/scripts/seed_confirm.sh $P $ID $DIR || true
[ -d seeded/$P-$ID ] || { echo "$P-$ID: not kept"; exit 1; }
export GOFLAGS=-mod=mod GOPROXY=off GOSUMDB=off GOTOOLCHAIN=local
git -C /repo apply /verif/seeded/$P-$ID/patch.diff || exit 3
(cd harness && go build -tags verif -o /verif/bin/vh ./cmd/vh)
for q in $P "$@"; do
  bin/vh run $q --tier quick --out /tmp/seed_take.json >/dev/null 2>/tmp/seed_take.err
  python3 - "$P-$ID" "$q" <<'PY'
import json,sys
try:
    d=json.load(open('/tmp/seed_take.json'))
    print(f"TAKE {sys.argv[1]} vs {sys.argv[2]}: violations={len(d['violations'])} disagreements={len(d['disagreements'])}", [v.get('class','')[:50] for v in d['violations'][:2]])
except Exception as e:
    print(f"TAKE {sys.argv[1]} vs {sys.argv[2]}: harness failed", open('/tmp/seed_take.err').read()[:300])
PY
done
git -C /repo checkout -- .
(cd harness && go build -tags verif -o /verif/bin/vh ./cmd/vh)
