#!/bin/bash
# confirm.sh <P> : confirm m8a and m8b of property P, log to /tmp/mut/<P>.confirm.log
P=$1
cd /verif
for M in ${MS:-m8a m8b}; do
  DIR=$(head -1 /tmp/mut/$P.out/$M/notes.md | sed 's/^pkgdir: *//')
  tools/scripts/seed_confirm.sh $P $M "$DIR"
done > /tmp/mut/$P.confirm.log 2>&1
git -C /repo worktree remove --force /tmp/mut/$P.wt >/dev/null 2>&1
