package main

import (
	"fmt"
	"math/big"
	"go/ast"
	"go/constant"
	"go/token"
	"go/types"
	"strconv"
	"strings"
)

func (c *fctx) typeOf(e ast.Expr) types.Type {
	if tv, ok := c.info.Types[e]; ok {
		return tv.Type
	}
	if id, ok := e.(*ast.Ident); ok {
		if o := c.info.ObjectOf(id); o != nil {
			return o.Type()
		}
	}
	return nil
}

func (c *fctx) wrapTo(tp types.Type, s string) string {
	k, ok := ikind(tp)
	if !ok {
		return s
	}
	return "(wrap " + k + " " + s + ")"
}

// fits reports whether every value of integer type src is a value of dst
func fits(src, dst types.Type) bool {
	ks, ok1 := ikind(src)
	kd, ok2 := ikind(dst)
	if !ok1 || !ok2 {
		return false
	}
	bs, ss := kindRange(ks)
	bd, sd := kindRange(kd)
	if ss == sd {
		return bs <= bd
	}
	if !ss && sd {
		return bs < bd
	}
	return false
}

func (c *fctx) expr(e ast.Expr) (term, error) {
	// constants first: go/types has already folded them
	if tv, ok := c.info.Types[e]; ok && tv.Value != nil {
		// named long string constants become shared definitions
		var id *ast.Ident
		switch x := e.(type) {
		case *ast.Ident:
			id = x
		case *ast.SelectorExpr:
			id = x.Sel
		}
		if id != nil {
			if co, ok := c.info.Uses[id].(*types.Const); ok && co.Val().Kind() == constant.String && len(constant.StringVal(co.Val())) > 24 {
				return term{s: c.t.useStringConst(co), pure: true}, nil
			}
		}
		s, err := constTerm(tv.Value, tv.Type)
		if err != nil {
			return term{}, c.errf(e, "%v", err)
		}
		if tv.Value.Kind() == constant.Int {
			if bi, ok := new(big.Int).SetString(tv.Value.ExactString(), 10); ok {
				return term{s, true, bi}, nil
			}
		}
		return term{s: s, pure: true}, nil
	}
	switch x := e.(type) {
	case *ast.ParenExpr:
		return c.expr(x.X)
	case *ast.Ident:
		if x.Name == "nil" {
			tp := c.typeOf(e)
			if tp != nil && isError(tp) {
				return term{s: "false", pure: true}, nil
			}
			return term{s: "[]", pure: true}, nil
		}
		o := c.info.ObjectOf(x)
		switch v := o.(type) {
		case *types.Var:
			if v.Pkg() != nil && v.Parent() == v.Pkg().Scope() {
				if isError(v.Type()) {
					return term{s: "true", pure: true}, nil // a package-level error value: non-nil
				}
				n, err := c.t.useVar(v, c.pos(e))
				if err != nil {
					return term{}, err
				}
				return term{s: n, pure: true}, nil
			}
			return term{s: lname(v.Name()), pure: true}, nil
		}
		return term{}, c.errf(e, "unsupported identifier %s", x.Name)
	case *ast.SelectorExpr:
		if o, ok := c.info.Uses[x.Sel].(*types.Var); ok && o.Pkg() != nil && o.Parent() == o.Pkg().Scope() {
			if isError(o.Type()) {
				return term{s: "true", pure: true}, nil
			}
			n, err := c.t.useVar(o, c.pos(e))
			if err != nil {
				return term{}, err
			}
			return term{s: n, pure: true}, nil
		}
		return term{}, c.errf(e, "unsupported selector %s", x.Sel.Name)
	case *ast.StarExpr:
		if id, ok := x.X.(*ast.Ident); ok && c.ptrRecv != nil && c.info.ObjectOf(id) == c.ptrRecv {
			return term{s: lname(id.Name), pure: true}, nil
		}
		return term{}, c.errf(e, "unsupported dereference")
	case *ast.UnaryExpr:
		a, err := c.expr(x.X)
		if err != nil {
			return term{}, err
		}
		tp := c.typeOf(e)
		switch x.Op {
		case token.SUB:
			return c.bindAll([]term{a}, func(v []string) term { return term{s: c.wrapTo(tp, "(-"+v[0]+")"), pure: true} }), nil
		case token.ADD:
			return a, nil
		case token.NOT:
			return c.bindAll([]term{a}, func(v []string) term { return term{s: "(!" + v[0] + ")", pure: true} }), nil
		case token.XOR:
			return c.bindAll([]term{a}, func(v []string) term { return term{s: c.wrapTo(tp, "(-"+v[0]+" - 1)"), pure: true} }), nil
		}
		return term{}, c.errf(e, "unsupported unary operator %s", x.Op)
	case *ast.BinaryExpr:
		return c.binary(x)
	case *ast.IndexExpr:
		base, err := c.expr(x.X)
		if err != nil {
			return term{}, err
		}
		idx, err := c.expr(x.Index)
		if err != nil {
			return term{}, err
		}
		bt := c.typeOf(x.X)
		switch u := bt.Underlying().(type) {
		case *types.Map:
			z, err := zeroOf(u.Elem())
			if err != nil {
				return term{}, c.errf(e, "%v", err)
			}
			return c.bindAll([]term{base, idx}, func(v []string) term {
				return term{s: "((gmapGet " + v[0] + " " + v[1] + ").getD " + z + ")", pure: true}
			}), nil
		case *types.Basic:
			if isString(bt) {
				return c.bindAll([]term{base, idx}, func(v []string) term { return term{s: "(gbyteAt " + v[0] + " " + v[1] + ")", pure: false} }), nil
			}
		case *types.Slice, *types.Array:
			lt, err := leanType(bt)
			if err != nil {
				return term{}, c.errf(e, "%v", err)
			}
			if lt == "Bytes" {
				return c.bindAll([]term{base, idx}, func(v []string) term { return term{s: "(gbyteAt " + v[0] + " " + v[1] + ")", pure: false} }), nil
			}
			if lt == "List Int" {
				return c.bindAll([]term{base, idx}, func(v []string) term { return term{s: "(glistAt " + v[0] + " " + v[1] + ")", pure: false} }), nil
			}
		}
		return term{}, c.errf(e, "unsupported index expression on %s", bt)
	case *ast.SliceExpr:
		if x.Slice3 {
			return term{}, c.errf(e, "3-index slice")
		}
		bt := c.typeOf(x.X)
		if !(isString(bt) || isByteSlice(bt)) {
			if lt, err := leanType(bt); err != nil || lt != "Bytes" {
				return term{}, c.errf(e, "slice of unsupported type %s", bt)
			}
		}
		base, err := c.expr(x.X)
		if err != nil {
			return term{}, err
		}
		lo := term{s: "(0 : Int)", pure: true}
		if x.Low != nil {
			if lo, err = c.expr(x.Low); err != nil {
				return term{}, err
			}
		}
		var hi term
		hasHi := x.High != nil
		if hasHi {
			if hi, err = c.expr(x.High); err != nil {
				return term{}, err
			}
		} else {
			hi = term{s: "", pure: true}
		}
		return c.bindAll([]term{base, lo, hi}, func(v []string) term {
			h := v[2]
			if !hasHi {
				h = "(Int.ofNat " + v[0] + ".length)"
			}
			return term{s: "(gsliceI " + v[0] + " " + v[1] + " " + h + ")", pure: false}
		}), nil
	case *ast.CallExpr:
		return c.call(x)
	}
	return term{}, c.errf(e, "unsupported expression %T", e)
}

func (c *fctx) binary(x *ast.BinaryExpr) (term, error) {
	a, err := c.expr(x.X)
	if err != nil {
		return term{}, err
	}
	b, err := c.expr(x.Y)
	if err != nil {
		return term{}, err
	}
	tp := c.typeOf(x)
	ot := c.typeOf(x.X)
	switch x.Op {
	case token.LAND, token.LOR:
		op, g := "&&", "gand"
		if x.Op == token.LOR {
			op, g = "||", "gor"
		}
		if b.pure {
			return c.bindAll([]term{a}, func(v []string) term { return term{s: "(" + v[0] + " " + op + " " + b.s + ")", pure: true} }), nil
		}
		return term{s: "(" + g + " " + c.asG(a) + " fun _ => " + b.s + ")", pure: false}, nil
	case token.EQL, token.NEQ:
		op := "=="
		if x.Op == token.NEQ {
			op = "!="
		}
		if isError(ot) || isError(c.typeOf(x.Y)) {
			// err == nil / err != nil: errors are modelled as Bool (true = non-nil)
			return c.bindAll([]term{a, b}, func(v []string) term { return term{s: "(" + v[0] + " " + op + " " + v[1] + ")", pure: true} }), nil
		}
		if !(isInt(ot) || isString(ot) || isBool(ot)) {
			return term{}, c.errf(x, "comparison of unsupported type %s", ot)
		}
		return c.bindAll([]term{a, b}, func(v []string) term { return term{s: "(" + v[0] + " " + op + " " + v[1] + ")", pure: true} }), nil
	case token.LSS, token.GTR, token.LEQ, token.GEQ:
		if !isInt(ot) {
			return term{}, c.errf(x, "ordering of unsupported type %s", ot)
		}
		op := map[token.Token]string{token.LSS: "<", token.GTR: ">", token.LEQ: "≤", token.GEQ: "≥"}[x.Op]
		return c.bindAll([]term{a, b}, func(v []string) term { return term{s: "(decide (" + v[0] + " " + op + " " + v[1] + "))", pure: true} }), nil
	case token.ADD:
		if isString(tp) {
			return c.bindAll([]term{a, b}, func(v []string) term { return term{s: "(" + v[0] + " ++ " + v[1] + ")", pure: true} }), nil
		}
		fallthrough
	case token.SUB, token.MUL:
		if !isInt(tp) {
			return term{}, c.errf(x, "arithmetic on unsupported type %s", tp)
		}
		op := map[token.Token]string{token.ADD: "+", token.SUB: "-", token.MUL: "*"}[x.Op]
		if a.k != nil && b.k != nil {
			r := new(big.Int)
			switch x.Op {
			case token.ADD:
				r.Add(a.k, b.k)
			case token.SUB:
				r.Sub(a.k, b.k)
			case token.MUL:
				r.Mul(a.k, b.k)
			}
			if k, ok := ikind(tp); ok {
				r = wrapBig(k, r)
			}
			return intLit(r), nil
		}
		return c.bindAll([]term{a, b}, func(v []string) term { return term{s: c.wrapTo(tp, "("+v[0]+" "+op+" "+v[1]+")"), pure: true} }), nil
	case token.QUO, token.REM:
		if !isInt(tp) {
			return term{}, c.errf(x, "division on unsupported type %s", tp)
		}
		k, _ := ikind(tp)
		g := "gdiv"
		if x.Op == token.REM {
			g = "gmod"
		}
		// constant non-zero divisor: pure
		if tv, ok := c.info.Types[x.Y]; ok && tv.Value != nil && constant.Sign(tv.Value) != 0 {
			f := "Int.tdiv"
			if x.Op == token.REM {
				f = "Int.tmod"
			}
			return c.bindAll([]term{a, b}, func(v []string) term { return term{s: c.wrapTo(tp, "("+f+" "+v[0]+" "+v[1]+")"), pure: true} }), nil
		}
		return c.bindAll([]term{a, b}, func(v []string) term { return term{s: "(" + g + " " + k + " " + v[0] + " " + v[1] + ")", pure: false} }), nil
	case token.AND, token.OR, token.XOR, token.AND_NOT:
		if !isInt(tp) {
			return term{}, c.errf(x, "bit operation on unsupported type %s", tp)
		}
		k, _ := ikind(tp)
		g := map[token.Token]string{token.AND: "gand2", token.OR: "gor2", token.XOR: "gxor2", token.AND_NOT: "gandnot2"}[x.Op]
		return c.bindAll([]term{a, b}, func(v []string) term { return term{s: "(" + g + " " + k + " " + v[0] + " " + v[1] + ")", pure: true} }), nil
	case token.SHL, token.SHR:
		if !isInt(tp) {
			return term{}, c.errf(x, "shift of unsupported type %s", tp)
		}
		k, _ := ikind(tp)
		if tv, ok := c.info.Types[x.Y]; ok && tv.Value != nil && constant.Sign(tv.Value) >= 0 {
			n, _ := constant.Int64Val(tv.Value)
			if x.Op == token.SHL {
				return c.bindAll([]term{a}, func(v []string) term { return term{s: c.wrapTo(tp, fmt.Sprintf("(%s * %d)", v[0], int64(1)<<uint(n))), pure: true} }), nil
			}
			return c.bindAll([]term{a}, func(v []string) term { return term{s: fmt.Sprintf("(%s / %d)", v[0], int64(1)<<uint(n)), pure: true} }), nil
		}
		if x.Op == token.SHL {
			return c.bindAll([]term{a, b}, func(v []string) term { return term{s: "(gshl " + k + " " + v[0] + " " + v[1] + ")", pure: false} }), nil
		}
		return c.bindAll([]term{a, b}, func(v []string) term { return term{s: "(gshr " + v[0] + " " + v[1] + ")", pure: false} }), nil
	}
	return term{}, c.errf(x, "unsupported binary operator %s", x.Op)
}

func (c *fctx) call(x *ast.CallExpr) (term, error) {
	// conversion?
	if tv, ok := c.info.Types[x.Fun]; ok && tv.IsType() {
		if len(x.Args) != 1 {
			return term{}, c.errf(x, "conversion with %d arguments", len(x.Args))
		}
		a, err := c.expr(x.Args[0])
		if err != nil {
			return term{}, err
		}
		dst, src := tv.Type, c.typeOf(x.Args[0])
		switch {
		case isInt(dst) && isInt(src):
			if fits(src, dst) {
				return a, nil
			}
			return c.bindAll([]term{a}, func(v []string) term { return term{s: c.wrapTo(dst, v[0]), pure: true} }), nil
		case (isString(dst) || isByteSlice(dst)) && (isString(src) || isByteSlice(src)):
			return a, nil
		}
		if lt, err := leanType(src); err == nil && lt == "Bytes" && (isString(dst) || isByteSlice(dst)) {
			return a, nil
		}
		return term{}, c.errf(x, "unsupported conversion %s -> %s", src, dst)
	}
	// builtins and library functions
	var callee types.Object
	switch f := x.Fun.(type) {
	case *ast.Ident:
		callee = c.info.Uses[f]
	case *ast.SelectorExpr:
		callee = c.info.Uses[f.Sel]
	}
	if b, ok := callee.(*types.Builtin); ok {
		switch b.Name() {
		case "len":
			a, err := c.expr(x.Args[0])
			if err != nil {
				return term{}, err
			}
			// len of an immutable package-level table: a literal (the table is never written, see useVar)
			var aid *ast.Ident
			switch y := x.Args[0].(type) {
			case *ast.Ident:
				aid = y
			case *ast.SelectorExpr:
				aid = y.Sel
			}
			if aid != nil {
				if n, ok := c.t.dataLen[c.info.ObjectOf(aid)]; ok {
					if _, isMap := c.typeOf(x.Args[0]).Underlying().(*types.Map); !isMap {
						return intLit(big.NewInt(int64(n))), nil
					}
				}
			}
			return c.bindAll([]term{a}, func(v []string) term { return term{s: "(Int.ofNat " + v[0] + ".length)", pure: true} }), nil
		}
		return term{}, c.errf(x, "unsupported builtin %s", b.Name())
	}
	fo, ok := callee.(*types.Func)
	if !ok {
		return term{}, c.errf(x, "unsupported call")
	}
	full := fo.FullName()
	args := func() ([]term, error) {
		var ts []term
		for _, a := range x.Args {
			t, err := c.expr(a)
			if err != nil {
				return nil, err
			}
			ts = append(ts, t)
		}
		return ts, nil
	}
	switch full {
	case "fmt.Sprintf":
		return c.sprintf(x)
	case "strings.ToLower":
		ts, err := args()
		if err != nil {
			return term{}, err
		}
		return c.bindAll(ts, func(v []string) term { return term{s: "(gtoLowerASCII " + v[0] + ")", pure: true} }), nil
	case "strconv.Itoa":
		ts, err := args()
		if err != nil {
			return term{}, err
		}
		return c.bindAll(ts, func(v []string) term { return term{s: "(gitoa " + v[0] + ")", pure: true} }), nil
	case "strconv.AppendInt", "strconv.AppendUint":
		ts, err := args()
		if err != nil {
			return term{}, err
		}
		if tv := c.info.Types[x.Args[2]]; tv.Value == nil || tv.Value.ExactString() != "10" {
			return term{}, c.errf(x, "AppendInt with base other than 10")
		}
		return c.bindAll(ts[:2], func(v []string) term { return term{s: "(" + v[0] + " ++ gitoa " + v[1] + ")", pure: true} }), nil
	case "errors.New":
		return term{s: "true", pure: true}, nil
	}
	// identity helpers over unsafe (string <-> []byte views)
	if fo.Pkg() != nil && strings.HasPrefix(fo.Pkg().Path(), modPath) && (fo.Name() == "unsafeGetBytes" || fo.Name() == "unsafeGetString") {
		ts, err := args()
		if err != nil {
			return term{}, err
		}
		return ts[0], nil
	}
	if fo.Pkg() == nil || !strings.HasPrefix(fo.Pkg().Path(), modPath) {
		return term{}, c.errf(x, "call of unmodelled library function %s", full)
	}
	// user function or method
	cf, err := c.t.translate(fo)
	if err != nil {
		return term{}, err
	}
	var ts []term
	if sel, ok := x.Fun.(*ast.SelectorExpr); ok {
		if s := c.info.Selections[sel]; s != nil && s.Kind() == types.MethodVal {
			r, err := c.expr(sel.X)
			if err != nil {
				return term{}, err
			}
			ts = append(ts, r)
		}
	}
	as, err := args()
	if err != nil {
		return term{}, err
	}
	ts = append(ts, as...)
	name := cf.name
	self := cf == c.f
	return c.bindAll(ts, func(v []string) term {
		if self {
			c.f.recursive = true
			return term{s: "(" + name + "_rec fuel " + strings.Join(v, " ") + ")", pure: false}
		}
		return term{s: "(" + name + " " + strings.Join(v, " ") + ")", pure: false}
	}), nil
}

// fmt.Sprintf with a constant format made of literal text and %s %d %x %0Nx %v verbs
func (c *fctx) sprintf(x *ast.CallExpr) (term, error) {
	if len(x.Args) == 1 {
		a, err := c.expr(x.Args[0])
		if err != nil {
			return term{}, err
		}
		return c.bindAll([]term{a}, func(v []string) term { return term{s: "(gsprintf0 " + v[0] + ")", pure: false} }), nil
	}
	tv := c.info.Types[x.Args[0]]
	if tv.Value == nil || tv.Value.Kind() != constant.String {
		return term{}, c.errf(x, "Sprintf with non-constant format and operands")
	}
	format := constant.StringVal(tv.Value)
	var ts []term
	for _, a := range x.Args[1:] {
		t, err := c.expr(a)
		if err != nil {
			return term{}, err
		}
		ts = append(ts, t)
	}
	argTypes := make([]types.Type, len(x.Args)-1)
	for i, a := range x.Args[1:] {
		argTypes[i] = c.typeOf(a)
	}
	var perr error
	r := c.bindAll(ts, func(v []string) term {
		var parts []string
		lit := ""
		ai := 0
		flush := func() {
			if lit != "" {
				parts = append(parts, leanBytesLit(lit))
				lit = ""
			}
		}
		for i := 0; i < len(format); i++ {
			if format[i] != '%' {
				lit += string(format[i])
				continue
			}
			i++
			if i < len(format) && format[i] == '%' {
				lit += "%"
				continue
			}
			width := 0
			zero := false
			if i < len(format) && format[i] == '0' {
				zero = true
				i++
			}
			for i < len(format) && format[i] >= '0' && format[i] <= '9' {
				width = width*10 + int(format[i]-'0')
				i++
			}
			if i >= len(format) || ai >= len(v) {
				perr = c.errf(x, "malformed format %q", format)
				return term{s: "[]", pure: true}
			}
			flush()
			switch format[i] {
			case 'x':
				if !isInt(argTypes[ai]) || (width > 0 && !zero) {
					perr = c.errf(x, "unsupported %%x operand")
				}
				if k, ok := ikind(argTypes[ai]); ok {
					if _, signed := kindRange(k); signed {
						perr = c.errf(x, "%%x of a signed operand is not modelled")
					}
				}
				parts = append(parts, "(gfmtHex "+v[ai]+" "+strconv.Itoa(width)+")")
			case 'd':
				if !isInt(argTypes[ai]) || width > 0 {
					perr = c.errf(x, "unsupported %%d operand")
				}
				parts = append(parts, "(gitoa "+v[ai]+")")
			case 's':
				if !(isString(argTypes[ai]) || isByteSlice(argTypes[ai])) || width > 0 {
					perr = c.errf(x, "unsupported %%s operand")
				}
				parts = append(parts, v[ai])
			default:
				perr = c.errf(x, "unsupported verb %%%c", format[i])
			}
			ai++
		}
		flush()
		if ai != len(v) {
			perr = c.errf(x, "operand count does not match format %q", format)
		}
		if len(parts) == 0 {
			return term{s: "([] : Bytes)", pure: true}
		}
		return term{s: "(" + strings.Join(parts, " ++ ") + ")", pure: true}
	})
	return r, perr
}
