package main

import (
	"fmt"
	"math/big"
	"go/ast"
	"go/constant"
	"go/token"
	"go/types"
	"path"
	"sort"
	"strings"

	"golang.org/x/tools/go/packages"
)

type term struct {
	s    string
	pure bool     // pure: s has the Lean value type; otherwise s : G T
	k    *big.Int // known integer value (constant folding), or nil
}

func intLit(v *big.Int) term { return term{"(" + v.String() + " : Int)", true, v} }

// wrapBig reduces v to the range of the integer kind k ("IKind.u8" ...)
func wrapBig(k string, v *big.Int) *big.Int {
	bits, signed := kindRange(k)
	m := new(big.Int).Lsh(big.NewInt(1), uint(bits))
	r := new(big.Int).Mod(v, m)
	if signed {
		h := new(big.Int).Lsh(big.NewInt(1), uint(bits-1))
		if r.Cmp(h) >= 0 {
			r.Sub(r, m)
		}
	}
	return r
}

type fn struct {
	name      string
	obj       *types.Func
	decl      *ast.FuncDecl
	pkg       *packages.Package
	text      string
	state     int // 0 new, 1 in progress, 2 done
	recursive bool
	sig       string // parameter binder text
	ret       string
	params    []string
}

type translator struct {
	pkgs      map[string]*packages.Package
	all       []*packages.Package
	funcs     map[*types.Func]*fn
	data      map[types.Object]string // object -> lean name
	dataLen   map[types.Object]int    // number of elements of a table
	dataText  []string
	order     []string
	fnOrder   []*fn
	mutated   map[types.Object]token.Position
	declOf    map[*types.Func]*ast.FuncDecl
	pkgOfFunc map[*types.Func]*packages.Package
}

func newTranslator(pkgs []*packages.Package) *translator {
	t := &translator{pkgs: map[string]*packages.Package{}, funcs: map[*types.Func]*fn{}, data: map[types.Object]string{}, dataLen: map[types.Object]int{},
		mutated: map[types.Object]token.Position{}, declOf: map[*types.Func]*ast.FuncDecl{}, pkgOfFunc: map[*types.Func]*packages.Package{}}
	seen := map[string]bool{}
	var visit func(p *packages.Package)
	visit = func(p *packages.Package) {
		if seen[p.PkgPath] {
			return
		}
		seen[p.PkgPath] = true
		if strings.HasPrefix(p.PkgPath, modPath) {
			t.pkgs[p.PkgPath] = p
			t.all = append(t.all, p)
		}
		for _, ip := range p.Imports {
			visit(ip)
		}
	}
	for _, p := range pkgs {
		visit(p)
	}
	sort.Slice(t.all, func(i, j int) bool { return t.all[i].PkgPath < t.all[j].PkgPath })
	for _, p := range t.all {
		for _, f := range p.Syntax {
			for _, d := range f.Decls {
				if fd, ok := d.(*ast.FuncDecl); ok {
					if obj, ok := p.TypesInfo.Defs[fd.Name].(*types.Func); ok {
						t.declOf[obj] = fd
						t.pkgOfFunc[obj] = p
					}
				}
			}
			// package-level variables that are written anywhere are not constants
			ast.Inspect(f, func(n ast.Node) bool {
				mark := func(e ast.Expr) {
					for {
						switch x := e.(type) {
						case *ast.IndexExpr:
							e = x.X
							continue
						case *ast.ParenExpr:
							e = x.X
							continue
						case *ast.SelectorExpr:
							if o := p.TypesInfo.Uses[x.Sel]; o != nil {
								if v, ok := o.(*types.Var); ok && v.Parent() == v.Pkg().Scope() {
									t.mutated[o] = p.Fset.Position(x.Pos())
								}
							}
							return
						case *ast.Ident:
							if o := p.TypesInfo.Uses[x]; o != nil {
								if v, ok := o.(*types.Var); ok && v.Pkg() != nil && v.Parent() == v.Pkg().Scope() {
									t.mutated[o] = p.Fset.Position(x.Pos())
								}
							}
							return
						default:
							return
						}
					}
				}
				switch s := n.(type) {
				case *ast.AssignStmt:
					if s.Tok != token.DEFINE {
						for _, l := range s.Lhs {
							mark(l)
						}
					}
				case *ast.IncDecStmt:
					mark(s.X)
				case *ast.UnaryExpr:
					if s.Op == token.AND {
						mark(s.X)
					}
				case *ast.RangeStmt:
					if s.Tok == token.ASSIGN {
						if s.Key != nil {
							mark(s.Key)
						}
						if s.Value != nil {
							mark(s.Value)
						}
					}
				}
				return true
			})
		}
	}
	return t
}

func relPkg(p string) string {
	r := strings.TrimPrefix(strings.TrimPrefix(p, modPath), "/")
	if r == "" {
		return "imagemeta"
	}
	return r
}

func mangle(s string) string {
	s = strings.NewReplacer("/", "_", ".", "_", "-", "_").Replace(s)
	return s
}

func (t *translator) fnName(obj *types.Func) string {
	n := mangle(relPkg(obj.Pkg().Path()))
	sig := obj.Type().(*types.Signature)
	if sig.Recv() != nil {
		rt := sig.Recv().Type()
		if p, ok := rt.(*types.Pointer); ok {
			rt = p.Elem()
		}
		if nt, ok := rt.(*types.Named); ok {
			n += "_" + nt.Obj().Name()
		}
	}
	return n + "_" + obj.Name()
}

// match "pkgrel:Recv.Method", "pkgrel:Func", with * wildcards on each part
func matchRoot(pat string, obj *types.Func) bool {
	parts := strings.SplitN(pat, ":", 2)
	if len(parts) != 2 {
		return false
	}
	if ok, _ := path.Match(parts[0], relPkg(obj.Pkg().Path())); !ok {
		return false
	}
	sig := obj.Type().(*types.Signature)
	name := obj.Name()
	if sig.Recv() != nil {
		rt := sig.Recv().Type()
		if p, ok := rt.(*types.Pointer); ok {
			rt = p.Elem()
		}
		if nt, ok := rt.(*types.Named); ok {
			name = nt.Obj().Name() + "." + name
		}
	} else if strings.Contains(parts[1], ".") {
		return false
	}
	ok, _ := path.Match(parts[1], name)
	return ok
}

func (t *translator) run(roots []string) error {
	var objs []*types.Func
	for o := range t.declOf {
		objs = append(objs, o)
	}
	sort.Slice(objs, func(i, j int) bool { return t.fnName(objs[i]) < t.fnName(objs[j]) })
	for _, pat := range roots {
		optional := strings.HasPrefix(pat, "?")
		pat = strings.TrimPrefix(pat, "?")
		n := 0
		// "pkg:$Var": a package-level table on its own
		if parts := strings.SplitN(pat, ":", 2); len(parts) == 2 && strings.HasPrefix(parts[1], "$") {
			for _, p := range t.all {
				if ok, _ := path.Match(parts[0], relPkg(p.PkgPath)); !ok {
					continue
				}
				names := p.Types.Scope().Names()
				for _, nm := range names {
					if ok, _ := path.Match(parts[1][1:], nm); !ok {
						continue
					}
					if v, ok := p.Types.Scope().Lookup(nm).(*types.Var); ok {
						n++
						if _, err := t.useVar(v, token.Position{Filename: pat}); err != nil && !optional {
							return err
						}
					}
				}
			}
			if n == 0 {
				return fmt.Errorf("root pattern %q matches nothing", pat)
			}
			continue
		}
		for _, o := range objs {
			if matchRoot(pat, o) {
				n++
				if _, err := t.translate(o); err != nil {
					if optional {
						continue
					}
					return err
				}
			}
		}
		if n == 0 {
			return fmt.Errorf("root pattern %q matches nothing", pat)
		}
	}
	return nil
}

func (t *translator) emit() string {
	var sb strings.Builder
	for _, d := range t.dataText {
		sb.WriteString(d)
		sb.WriteString("\n")
	}
	sb.WriteString("\n")
	for _, f := range t.fnOrder {
		sb.WriteString(f.text)
		sb.WriteString("\n")
	}
	return sb.String()
}

// ---------- types ----------

func ikind(tp types.Type) (string, bool) {
	b, ok := tp.Underlying().(*types.Basic)
	if !ok {
		return "", false
	}
	switch b.Kind() {
	case types.Int8:
		return "IKind.i8", true
	case types.Int16:
		return "IKind.i16", true
	case types.Int32:
		return "IKind.i32", true
	case types.Int, types.Int64, types.UntypedInt, types.UntypedRune:
		return "IKind.i64", true
	case types.Uint8:
		return "IKind.u8", true
	case types.Uint16:
		return "IKind.u16", true
	case types.Uint32:
		return "IKind.u32", true
	case types.Uint, types.Uint64, types.Uintptr:
		return "IKind.u64", true
	}
	return "", false
}

func kindRange(k string) (bits int, signed bool) {
	signed = strings.Contains(k, ".i")
	fmt.Sscanf(k[len("IKind.")+1:], "%d", &bits)
	return
}

func isInt(tp types.Type) bool { _, ok := ikind(tp); return ok }

func isString(tp types.Type) bool {
	b, ok := tp.Underlying().(*types.Basic)
	return ok && (b.Kind() == types.String || b.Kind() == types.UntypedString)
}

func isBool(tp types.Type) bool {
	b, ok := tp.Underlying().(*types.Basic)
	return ok && (b.Kind() == types.Bool || b.Kind() == types.UntypedBool)
}

func isByteSlice(tp types.Type) bool {
	s, ok := tp.Underlying().(*types.Slice)
	if !ok {
		return false
	}
	b, ok := s.Elem().Underlying().(*types.Basic)
	return ok && b.Kind() == types.Uint8
}

func isError(tp types.Type) bool {
	return types.Identical(tp, types.Universe.Lookup("error").Type())
}

func leanType(tp types.Type) (string, error) {
	switch {
	case isInt(tp):
		return "Int", nil
	case isBool(tp):
		return "Bool", nil
	case isString(tp), isByteSlice(tp):
		return "Bytes", nil
	case isError(tp):
		return "Bool", nil // true = non-nil error
	}
	switch u := tp.Underlying().(type) {
	case *types.Slice:
		e, err := leanType(u.Elem())
		if err != nil {
			return "", err
		}
		return "List " + paren(e), nil
	case *types.Array:
		e, err := leanType(u.Elem())
		if err != nil {
			return "", err
		}
		if b, ok := u.Elem().Underlying().(*types.Basic); ok && b.Kind() == types.Uint8 {
			return "Bytes", nil
		}
		return "List " + paren(e), nil
	case *types.Map:
		k, err := leanType(u.Key())
		if err != nil {
			return "", err
		}
		v, err := leanType(u.Elem())
		if err != nil {
			return "", err
		}
		return "List (" + k + " × " + v + ")", nil
	case *types.Tuple:
		var ps []string
		for i := 0; i < u.Len(); i++ {
			s, err := leanType(u.At(i).Type())
			if err != nil {
				return "", err
			}
			ps = append(ps, s)
		}
		return strings.Join(ps, " × "), nil
	}
	return "", fmt.Errorf("unsupported type %s", tp)
}

func paren(s string) string {
	if strings.ContainsAny(s, " ") {
		return "(" + s + ")"
	}
	return s
}

func zeroOf(tp types.Type) (string, error) {
	switch {
	case isInt(tp):
		return "(0 : Int)", nil
	case isBool(tp), isError(tp):
		return "false", nil
	case isString(tp), isByteSlice(tp):
		return "([] : Bytes)", nil
	}
	switch tp.Underlying().(type) {
	case *types.Slice, *types.Map:
		return "[]", nil
	}
	return "", fmt.Errorf("no zero value for %s", tp)
}

func leanBytesLit(s string) string {
	if len(s) == 0 {
		return "([] : Bytes)"
	}
	var parts []string
	for i := 0; i < len(s); i++ {
		parts = append(parts, fmt.Sprintf("%d", s[i]))
	}
	return "([" + strings.Join(parts, ", ") + "] : Bytes)"
}

func constTerm(v constant.Value, tp types.Type) (string, error) {
	switch v.Kind() {
	case constant.Int:
		s := v.ExactString()
		if strings.HasPrefix(s, "-") {
			return "(" + s + " : Int)", nil
		}
		return "(" + s + " : Int)", nil
	case constant.Bool:
		if constant.BoolVal(v) {
			return "true", nil
		}
		return "false", nil
	case constant.String:
		return leanBytesLit(constant.StringVal(v)), nil
	}
	return "", fmt.Errorf("unsupported constant kind %v", v.Kind())
}

// ---------- data (package-level tables and long string constants) ----------

func (t *translator) dataName(obj types.Object) string {
	return mangle(relPkg(obj.Pkg().Path())) + "_" + strings.TrimLeft(obj.Name(), "_") + "_data"
}

func (t *translator) findVarInit(obj *types.Var) (ast.Expr, *packages.Package) {
	p := t.pkgs[obj.Pkg().Path()]
	if p == nil {
		return nil, nil
	}
	for _, f := range p.Syntax {
		for _, d := range f.Decls {
			gd, ok := d.(*ast.GenDecl)
			if !ok || gd.Tok != token.VAR {
				continue
			}
			for _, sp := range gd.Specs {
				vs := sp.(*ast.ValueSpec)
				for i, n := range vs.Names {
					if p.TypesInfo.Defs[n] == obj && i < len(vs.Values) && len(vs.Values) == len(vs.Names) {
						return vs.Values[i], p
					}
				}
			}
		}
	}
	return nil, nil
}

func (t *translator) constElem(p *packages.Package, e ast.Expr, want types.Type) (string, error) {
	tv, ok := p.TypesInfo.Types[e]
	if !ok || tv.Value == nil {
		return "", fmt.Errorf("%s: table element is not a constant", p.Fset.Position(e.Pos()))
	}
	return constTerm(tv.Value, want)
}

func (t *translator) useVar(obj *types.Var, at token.Position) (string, error) {
	if n, ok := t.data[obj]; ok {
		return n, nil
	}
	if pos, bad := t.mutated[obj]; bad {
		return "", fmt.Errorf("%s: package variable %s is written at %s; it cannot be treated as a table", at, obj.Name(), pos)
	}
	init, p := t.findVarInit(obj)
	if init == nil {
		return "", fmt.Errorf("%s: no initialiser found for package variable %s", at, obj.Name())
	}
	if tv, ok := p.TypesInfo.Types[init]; ok && tv.Value != nil {
		name := t.dataName(obj)
		t.data[obj] = name
		if tv.Value.Kind() == constant.String {
			t.emitString(name, constant.StringVal(tv.Value))
			return name, nil
		}
		ct, err := constTerm(tv.Value, obj.Type())
		if err != nil {
			return "", fmt.Errorf("%s: %v", at, err)
		}
		lt, err := leanType(obj.Type())
		if err != nil {
			return "", fmt.Errorf("%s: %v", at, err)
		}
		t.dataText = append(t.dataText, fmt.Sprintf("def %s : %s := %s", name, lt, ct))
		return name, nil
	}
	cl, ok := init.(*ast.CompositeLit)
	if !ok {
		return "", fmt.Errorf("%s: initialiser of %s is not a composite literal", at, obj.Name())
	}
	lt, err := leanType(obj.Type())
	if err != nil {
		return "", fmt.Errorf("%s: %v", at, err)
	}
	name := t.dataName(obj)
	var elems []string
	switch u := obj.Type().Underlying().(type) {
	case *types.Map:
		for _, el := range cl.Elts {
			kv, ok := el.(*ast.KeyValueExpr)
			if !ok {
				return "", fmt.Errorf("%s: map literal without key", at)
			}
			k, err := t.constElem(p, kv.Key, u.Key())
			if err != nil {
				return "", err
			}
			v, err := t.constElem(p, kv.Value, u.Elem())
			if err != nil {
				return "", err
			}
			elems = append(elems, "("+k+", "+v+")")
		}
	case *types.Slice, *types.Array:
		var et types.Type
		n := int64(-1)
		if a, ok := u.(*types.Array); ok {
			et, n = a.Elem(), a.Len()
		} else {
			et = u.(*types.Slice).Elem()
		}
		z, err := zeroOf(et)
		if err != nil {
			return "", fmt.Errorf("%s: %v", at, err)
		}
		vals := map[int64]string{}
		idx, max := int64(0), int64(-1)
		for _, el := range cl.Elts {
			ve := el
			if kv, ok := el.(*ast.KeyValueExpr); ok {
				tv := p.TypesInfo.Types[kv.Key]
				if tv.Value == nil {
					return "", fmt.Errorf("%s: non-constant array key", at)
				}
				k, _ := constant.Int64Val(tv.Value)
				idx = k
				ve = kv.Value
			}
			v, err := t.constElem(p, ve, et)
			if err != nil {
				return "", err
			}
			vals[idx] = v
			if idx > max {
				max = idx
			}
			idx++
		}
		if n < 0 {
			n = max + 1
		}
		for i := int64(0); i < n; i++ {
			if v, ok := vals[i]; ok {
				elems = append(elems, v)
			} else {
				elems = append(elems, z)
			}
		}
		if lt == "Bytes" {
			// byte arrays: elements were emitted as Int literals; re-emit as bytes
			for i, e := range elems {
				elems[i] = strings.TrimSuffix(strings.TrimPrefix(e, "("), " : Int)")
			}
		}
	default:
		return "", fmt.Errorf("%s: unsupported table type %s", at, obj.Type())
	}
	t.data[obj] = name
	t.dataLen[obj] = len(elems)
	// chunk long literals so elaboration stays fast
	const chunk = 64
	if len(elems) <= chunk {
		t.dataText = append(t.dataText, fmt.Sprintf("def %s : %s := [%s]", name, lt, strings.Join(elems, ", ")))
	} else {
		var parts []string
		for i := 0; i < len(elems); i += chunk {
			j := i + chunk
			if j > len(elems) {
				j = len(elems)
			}
			pn := fmt.Sprintf("%s_%d", name, i/chunk)
			t.dataText = append(t.dataText, fmt.Sprintf("def %s : %s := [%s]", pn, lt, strings.Join(elems[i:j], ", ")))
			parts = append(parts, pn)
		}
		t.dataText = append(t.dataText, fmt.Sprintf("def %s : %s := %s", name, lt, strings.Join(parts, " ++ ")))
	}
	return name, nil
}

func (t *translator) useStringConst(obj *types.Const) string {
	if n, ok := t.data[obj]; ok {
		return n
	}
	name := t.dataName(obj)
	t.data[obj] = name
	t.emitString(name, constant.StringVal(obj.Val()))
	return name
}

func (t *translator) emitString(name, s string) {
	const chunk = 128
	if len(s) <= chunk {
		t.dataText = append(t.dataText, fmt.Sprintf("def %s : Bytes := %s", name, leanBytesLit(s)))
	} else {
		var parts []string
		for i := 0; i < len(s); i += chunk {
			j := i + chunk
			if j > len(s) {
				j = len(s)
			}
			pn := fmt.Sprintf("%s_%d", name, i/chunk)
			t.dataText = append(t.dataText, fmt.Sprintf("def %s : Bytes := %s", pn, leanBytesLit(s[i:j])))
			parts = append(parts, pn)
		}
		t.dataText = append(t.dataText, fmt.Sprintf("def %s : Bytes := %s", name, strings.Join(parts, " ++ ")))
	}
}

// ---------- functions ----------

type fctx struct {
	t       *translator
	f       *fn
	info    *types.Info
	fset    *token.FileSet
	fresh   int
	retType string
	results []*types.Var // named results (or nil)
	nres    int
	// variables assigned by `=` are only supported in the block that declared them
	declBlock map[types.Object]int
	block     int
	ptrRecv   *types.Var // pointer receiver of an integer-like named type: `*r = e` updates the value
}

func (c *fctx) pos(n ast.Node) token.Position { return c.fset.Position(n.Pos()) }

func (c *fctx) errf(n ast.Node, format string, a ...any) error {
	return fmt.Errorf("%s: %s: %s", c.pos(n), c.f.name, fmt.Sprintf(format, a...))
}

func (c *fctx) newVar() string {
	c.fresh++
	return fmt.Sprintf("x%d", c.fresh)
}

func lname(n string) string { return "v_" + n }

func (t *translator) translate(obj *types.Func) (*fn, error) {
	if f, ok := t.funcs[obj]; ok {
		if f.state == 1 {
			f.recursive = true
		}
		return f, nil
	}
	decl := t.declOf[obj]
	if decl == nil || decl.Body == nil {
		return nil, fmt.Errorf("no body for %s", obj.FullName())
	}
	p := t.pkgOfFunc[obj]
	f := &fn{name: t.fnName(obj), obj: obj, decl: decl, pkg: p, state: 1}
	t.funcs[obj] = f
	c := &fctx{t: t, f: f, info: p.TypesInfo, fset: p.Fset, declBlock: map[types.Object]int{}}
	sig := obj.Type().(*types.Signature)
	var binders []string
	addParam := func(v *types.Var) error {
		lt, err := leanType(v.Type())
		if err != nil {
			return fmt.Errorf("%s: %s: parameter %s: %v", p.Fset.Position(decl.Pos()), f.name, v.Name(), err)
		}
		n := v.Name()
		if n == "" || n == "_" {
			n = c.newVar()
		}
		binders = append(binders, "("+lname(n)+" : "+lt+")")
		f.params = append(f.params, lname(n))
		c.declBlock[v] = 0
		return nil
	}
	if r := sig.Recv(); r != nil {
		if pt, ok := r.Type().(*types.Pointer); ok {
			if !isInt(pt.Elem()) {
				delete(t.funcs, obj)
				return nil, fmt.Errorf("%s: %s: pointer receiver of non-integer type", p.Fset.Position(decl.Pos()), f.name)
			}
			c.ptrRecv = r
			n := r.Name()
			binders = append(binders, "("+lname(n)+" : Int)")
			f.params = append(f.params, lname(n))
			c.declBlock[r] = 0
		} else if err := addParam(r); err != nil {
			delete(t.funcs, obj)
			return nil, err
		}
	}
	for i := 0; i < sig.Params().Len(); i++ {
		if err := addParam(sig.Params().At(i)); err != nil {
			delete(t.funcs, obj)
			return nil, err
		}
	}
	var rts []string
	for i := 0; i < sig.Results().Len(); i++ {
		lt, err := leanType(sig.Results().At(i).Type())
		if err != nil {
			delete(t.funcs, obj)
			return nil, fmt.Errorf("%s: %s: result: %v", p.Fset.Position(decl.Pos()), f.name, err)
		}
		rts = append(rts, lt)
		if sig.Results().At(i).Name() != "" {
			c.results = append(c.results, sig.Results().At(i))
		}
	}
	c.nres = sig.Results().Len()
	if c.ptrRecv != nil {
		rts = append([]string{"Int"}, rts...)
	}
	if len(rts) == 0 {
		delete(t.funcs, obj)
		return nil, fmt.Errorf("%s: %s: function without results", p.Fset.Position(decl.Pos()), f.name)
	}
	c.retType = strings.Join(rts, " × ")
	f.ret = c.retType
	for _, b := range binders {
		f.sig += strings.TrimSuffix(b[strings.Index(b, ": ")+2:], ")") + "|"
	}
	// named results start as zero values
	pre := ""
	for _, r := range c.results {
		z, err := zeroOf(r.Type())
		if err != nil {
			delete(t.funcs, obj)
			return nil, fmt.Errorf("%s: %s: %v", p.Fset.Position(decl.Pos()), f.name, err)
		}
		lt, _ := leanType(r.Type())
		pre += fmt.Sprintf("let %s : %s := %s\n  ", lname(r.Name()), lt, z)
		c.declBlock[r] = 0
	}
	body, err := c.stmts(decl.Body.List, "")
	if err != nil {
		delete(t.funcs, obj)
		return nil, err
	}
	body = pre + body
	if f.recursive {
		var wild, names []string
		for range f.params {
			wild = append(wild, "_")
		}
		names = append(names, f.params...)
		var ptypes []string
		for _, b := range binders {
			ptypes = append(ptypes, strings.TrimSuffix(b[strings.Index(b, ": ")+2:], ")"))
		}
		f.text = fmt.Sprintf("def %s_rec : Nat → %s → G (%s)\n  | 0, %s => .fuel\n  | fuel+1, %s =>\n  %s\n\ndef %s %s : G (%s) := %s_rec 8 %s\n",
			f.name, strings.Join(ptypes, " → "), c.retType, strings.Join(wild, ", "), strings.Join(names, ", "), body,
			f.name, strings.Join(binders, " "), c.retType, f.name, strings.Join(names, " "))
	} else {
		f.text = fmt.Sprintf("def %s %s : G (%s) :=\n  %s\n", f.name, strings.Join(binders, " "), c.retType, body)
	}
	f.state = 2
	t.fnOrder = append(t.fnOrder, f)
	t.order = append(t.order, f.name)
	return f, nil
}

// bindAll sequences the non-pure terms left to right and builds the result from the values.
func (c *fctx) bindAll(ts []term, build func(vals []string) term) term {
	vals := make([]string, len(ts))
	var binds []string
	for i, x := range ts {
		if x.pure {
			vals[i] = x.s
		} else {
			v := c.newVar()
			vals[i] = v
			binds = append(binds, "(Outcome.bind "+x.s+" fun "+v+" => ")
		}
	}
	r := build(vals)
	if len(binds) == 0 {
		return r
	}
	inner := r.s
	if r.pure {
		inner = "Outcome.ok " + r.s
	}
	return term{s: strings.Join(binds, "") + inner + strings.Repeat(")", len(binds)), pure: false}
}

func (c *fctx) asG(x term) string {
	if x.pure {
		return "(Outcome.ok " + x.s + ")"
	}
	return x.s
}
