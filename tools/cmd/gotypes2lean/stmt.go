package main

import (
	"fmt"
	"go/ast"
	"go/token"
	"go/types"
	"strings"
)

// retTerm builds the return value (G R) from the result expressions.
func (c *fctx) retTerm(n ast.Node, results []ast.Expr) (string, error) {
	var ts []term
	if len(results) == 0 {
		if c.nres != len(c.results) {
			return "", c.errf(n, "bare return without named results")
		}
		for _, r := range c.results {
			ts = append(ts, term{s: lname(r.Name()), pure: true})
		}
	} else {
		if len(results) == 1 && c.nres > 1 {
			return "", c.errf(n, "return of a multi-value call")
		}
		for _, e := range results {
			t, err := c.expr(e)
			if err != nil {
				return "", err
			}
			ts = append(ts, t)
		}
	}
	if c.ptrRecv != nil {
		ts = append([]term{{s: lname(c.ptrRecv.Name()), pure: true}}, ts...)
	}
	r := c.bindAll(ts, func(v []string) term {
		if len(v) == 1 {
			return term{s: v[0], pure: true}
		}
		return term{s: "(" + strings.Join(v, ", ") + ")", pure: true}
	})
	return c.asG(r), nil
}

// define binds a local variable for the rest of the block.
func (c *fctx) define(name string, tp types.Type, val term, rest func() (string, error)) (string, error) {
	lt, err := leanType(tp)
	if err != nil {
		return "", err
	}
	r, err := rest()
	if err != nil {
		return "", err
	}
	if val.pure {
		return fmt.Sprintf("let %s : %s := %s\n  %s", name, lt, val.s, r), nil
	}
	return fmt.Sprintf("Outcome.bind %s fun (%s : %s) =>\n  %s", val.s, name, lt, r), nil
}

// stmts translates a statement list; k is the continuation (a Lean term of type G R)
// for falling off the end of the list ("" = not allowed).
func (c *fctx) stmts(list []ast.Stmt, k string) (string, error) {
	if len(list) == 0 {
		if k == "" {
			if c.nres == len(c.results) && c.nres > 0 {
				return "", fmt.Errorf("%s: falls off the end", c.f.name)
			}
			return "", fmt.Errorf("%s: control reaches the end of the function", c.f.name)
		}
		return k, nil
	}
	rest := func() (string, error) { return c.stmts(list[1:], k) }
	switch s := list[0].(type) {
	case *ast.ReturnStmt:
		return c.retTerm(s, s.Results)
	case *ast.BlockStmt:
		kk, pre, err := c.contFor(list[1:], k)
		if err != nil {
			return "", err
		}
		c.block++
		b, err := c.stmts(s.List, kk)
		c.block--
		return pre + b, err
	case *ast.DeclStmt:
		gd, ok := s.Decl.(*ast.GenDecl)
		if !ok || gd.Tok != token.VAR {
			return "", c.errf(s, "unsupported declaration")
		}
		// var x T [= e], one name per spec
		var build func(i int) (string, error)
		build = func(i int) (string, error) {
			if i == len(gd.Specs) {
				return rest()
			}
			vs := gd.Specs[i].(*ast.ValueSpec)
			if len(vs.Names) != 1 {
				return "", c.errf(s, "multi-name var declaration")
			}
			obj := c.info.Defs[vs.Names[0]]
			c.declBlock[obj] = c.block
			var val term
			if len(vs.Values) == 1 {
				v, err := c.expr(vs.Values[0])
				if err != nil {
					return "", err
				}
				val = v
			} else {
				z, err := zeroOf(obj.Type())
				if err != nil {
					return "", c.errf(s, "%v", err)
				}
				val = term{s: z, pure: true}
			}
			return c.define(lname(vs.Names[0].Name), obj.Type(), val, func() (string, error) { return build(i + 1) })
		}
		return build(0)
	case *ast.AssignStmt:
		return c.assign(s, rest)
	case *ast.IncDecStmt:
		id, ok := s.X.(*ast.Ident)
		if !ok {
			return "", c.errf(s, "unsupported ++/--")
		}
		obj := c.info.ObjectOf(id)
		if c.declBlock[obj] != c.block {
			return "", c.errf(s, "assignment to a variable of an outer block")
		}
		op := "+"
		if s.Tok == token.DEC {
			op = "-"
		}
		return c.define(lname(id.Name), obj.Type(), term{s: c.wrapTo(obj.Type(), "("+lname(id.Name)+" "+op+" 1)"), pure: true}, rest)
	case *ast.IfStmt:
		return c.ifStmt(s, list[1:], k)
	case *ast.SwitchStmt:
		return c.switchStmt(s, list[1:], k)
	}
	return "", c.errf(list[0], "unsupported statement %T", list[0])
}

// contFor names the continuation "rest of the list, then k" so that it is emitted once.
func (c *fctx) contFor(restList []ast.Stmt, k string) (name string, pre string, err error) {
	if len(restList) == 0 {
		return k, "", nil
	}
	r, err := c.stmts(restList, k)
	if err != nil {
		return "", "", err
	}
	c.fresh++
	name = fmt.Sprintf("k%d", c.fresh)
	return name, fmt.Sprintf("let %s : G (%s) := (%s)\n  ", name, c.retType, r), nil
}

func (c *fctx) assign(s *ast.AssignStmt, rest func() (string, error)) (string, error) {
	// v, ok := m[k]
	if len(s.Lhs) == 2 && len(s.Rhs) == 1 {
		ix, ok := s.Rhs[0].(*ast.IndexExpr)
		if !ok {
			return "", c.errf(s, "unsupported two-value assignment")
		}
		mt, ok := c.typeOf(ix.X).Underlying().(*types.Map)
		if !ok {
			return "", c.errf(s, "unsupported two-value assignment")
		}
		m, err := c.expr(ix.X)
		if err != nil {
			return "", err
		}
		key, err := c.expr(ix.Index)
		if err != nil {
			return "", err
		}
		z, err := zeroOf(mt.Elem())
		if err != nil {
			return "", c.errf(s, "%v", err)
		}
		var names [2]string
		for i, l := range s.Lhs {
			id, ok := l.(*ast.Ident)
			if !ok {
				return "", c.errf(s, "unsupported assignment target")
			}
			names[i] = lname(id.Name)
			if id.Name == "_" {
				names[i] = c.newVar()
			}
			if s.Tok == token.DEFINE {
				if o := c.info.Defs[id]; o != nil {
					c.declBlock[o] = c.block
				}
			} else if o := c.info.ObjectOf(id); o != nil && c.declBlock[o] != c.block {
				return "", c.errf(s, "assignment to a variable of an outer block")
			}
		}
		vt, _ := leanType(mt.Elem())
		look := c.bindAll([]term{m, key}, func(v []string) term { return term{s: "(gmapGet " + v[0] + " " + v[1] + ")", pure: true} })
		r, err := rest()
		if err != nil {
			return "", err
		}
		lk := c.newVar()
		body := fmt.Sprintf("let %s : %s := %s.getD %s\n  let %s : Bool := %s.isSome\n  %s", names[0], vt, lk, z, names[1], lk, r)
		if look.pure {
			return fmt.Sprintf("let %s := %s\n  %s", lk, look.s, body), nil
		}
		return fmt.Sprintf("Outcome.bind %s fun %s =>\n  %s", look.s, lk, body), nil
	}
	if len(s.Lhs) != 1 || len(s.Rhs) != 1 {
		return "", c.errf(s, "unsupported multi-assignment")
	}
	val, err := c.expr(s.Rhs[0])
	if err != nil {
		return "", err
	}
	// *recv = e
	if st, ok := s.Lhs[0].(*ast.StarExpr); ok && s.Tok == token.ASSIGN {
		if id, ok := st.X.(*ast.Ident); ok && c.ptrRecv != nil && c.info.ObjectOf(id) == c.ptrRecv {
			if c.block != 0 {
				return "", c.errf(s, "receiver update inside a nested block")
			}
			return c.define(lname(id.Name), c.ptrRecv.Type().(*types.Pointer).Elem(), val, rest)
		}
	}
	id, ok := s.Lhs[0].(*ast.Ident)
	if !ok {
		return "", c.errf(s, "unsupported assignment target")
	}
	var obj types.Object
	if s.Tok == token.DEFINE {
		obj = c.info.Defs[id]
		if obj == nil {
			obj = c.info.ObjectOf(id)
		}
		c.declBlock[obj] = c.block
	} else {
		obj = c.info.ObjectOf(id)
		if c.declBlock[obj] != c.block {
			return "", c.errf(s, "assignment to a variable of an outer block")
		}
	}
	if id.Name == "_" {
		return rest()
	}
	switch s.Tok {
	case token.DEFINE, token.ASSIGN:
	case token.ADD_ASSIGN, token.SUB_ASSIGN, token.MUL_ASSIGN:
		op := map[token.Token]string{token.ADD_ASSIGN: "+", token.SUB_ASSIGN: "-", token.MUL_ASSIGN: "*"}[s.Tok]
		if !isInt(obj.Type()) {
			return "", c.errf(s, "compound assignment on non-integer")
		}
		val = c.bindAll([]term{val}, func(v []string) term {
			return term{s: c.wrapTo(obj.Type(), "("+lname(id.Name)+" "+op+" "+v[0]+")"), pure: true}
		})
	default:
		return "", c.errf(s, "unsupported assignment operator %s", s.Tok)
	}
	return c.define(lname(id.Name), obj.Type(), val, rest)
}

func (c *fctx) ifStmt(s *ast.IfStmt, restList []ast.Stmt, k string) (string, error) {
	kk, pre, err := c.contFor(restList, k)
	if err != nil {
		return "", err
	}
	c.block++
	defer func() { c.block-- }()
	inner := func() (string, error) {
		cond, err := c.expr(s.Cond)
		if err != nil {
			return "", err
		}
		c.block++
		thenT, err := c.stmts(s.Body.List, kk)
		c.block--
		if err != nil {
			return "", err
		}
		elseT := kk
		if s.Else != nil {
			switch e := s.Else.(type) {
			case *ast.BlockStmt:
				c.block++
				elseT, err = c.stmts(e.List, kk)
				c.block--
			case *ast.IfStmt:
				elseT, err = c.ifStmt(e, nil, kk)
			}
			if err != nil {
				return "", err
			}
		}
		if elseT == "" {
			return "", c.errf(s, "if without else at the end of a function")
		}
		if cond.pure {
			return fmt.Sprintf("(if %s then (%s) else (%s))", cond.s, thenT, elseT), nil
		}
		return fmt.Sprintf("(gif %s (%s) (%s))", cond.s, thenT, elseT), nil
	}
	if s.Init != nil {
		as, ok := s.Init.(*ast.AssignStmt)
		if !ok {
			return "", c.errf(s, "unsupported if-initialiser")
		}
		r, err := c.assign(as, inner)
		return pre + r, err
	}
	r, err := inner()
	return pre + r, err
}

func (c *fctx) switchStmt(s *ast.SwitchStmt, restList []ast.Stmt, k string) (string, error) {
	kk, pre, err := c.contFor(restList, k)
	if err != nil {
		return "", err
	}
	if s.Init != nil {
		return "", c.errf(s, "switch with initialiser")
	}
	c.block++
	defer func() { c.block-- }()
	tagName := ""
	var tagT term
	if s.Tag != nil {
		tagT, err = c.expr(s.Tag)
		if err != nil {
			return "", err
		}
		tt := c.typeOf(s.Tag)
		if !(isInt(tt) || isString(tt)) {
			return "", c.errf(s, "switch on unsupported type %s", tt)
		}
		tagName = c.newVar()
	}
	var def *ast.CaseClause
	var clauses []*ast.CaseClause
	for _, st := range s.Body.List {
		cc := st.(*ast.CaseClause)
		if cc.List == nil {
			def = cc
		} else {
			clauses = append(clauses, cc)
		}
	}
	body := func(cc *ast.CaseClause) (string, error) {
		l := cc.Body
		if n := len(l); n > 0 {
			if br, ok := l[n-1].(*ast.BranchStmt); ok {
				if br.Tok != token.BREAK || br.Label != nil {
					return "", c.errf(br, "unsupported branch statement in switch")
				}
				l = l[:n-1]
			}
		}
		for _, st := range l {
			found := false
			ast.Inspect(st, func(n ast.Node) bool {
				if b, ok := n.(*ast.BranchStmt); ok && (b.Tok == token.BREAK || b.Tok == token.FALLTHROUGH) {
					found = true
				}
				return true
			})
			if found {
				return "", c.errf(st, "break/fallthrough inside a case body")
			}
		}
		c.block++
		defer func() { c.block-- }()
		return c.stmts(l, kk)
	}
	chain := kk
	if def != nil {
		chain, err = body(def)
		if err != nil {
			return "", err
		}
	}
	if chain == "" {
		return "", c.errf(s, "switch without default at the end of a function")
	}
	for i := len(clauses) - 1; i >= 0; i-- {
		cc := clauses[i]
		var conds []term
		for _, e := range cc.List {
			t, err := c.expr(e)
			if err != nil {
				return "", err
			}
			if !t.pure {
				return "", c.errf(e, "case expression with possible panic")
			}
			if tagName != "" {
				conds = append(conds, term{s: "(" + tagName + " == " + t.s + ")", pure: true})
			} else {
				conds = append(conds, t)
			}
		}
		var cs []string
		for _, t := range conds {
			cs = append(cs, t.s)
		}
		b, err := body(cc)
		if err != nil {
			return "", err
		}
		chain = fmt.Sprintf("(if %s then (%s) else\n  %s)", strings.Join(cs, " || "), b, chain)
	}
	if tagName != "" {
		lt, _ := leanType(c.typeOf(s.Tag))
		if tagT.pure {
			chain = fmt.Sprintf("let %s : %s := %s\n  %s", tagName, lt, tagT.s, chain)
		} else {
			chain = fmt.Sprintf("Outcome.bind %s fun (%s : %s) =>\n  %s", tagT.s, tagName, lt, chain)
		}
	}
	return pre + chain, nil
}
