package main

// Root patterns per generated file: "pkg (relative to the module):Recv.Method" or "pkg:Func";
// '*' wildcards allowed; a leading '?' makes a pattern best-effort (matches that are outside
// the fragment are skipped instead of failing the run).
var specs = map[string][]string{
	// C17: every stringer / tag-name / extension lookup named by the property
	"enums": {
		"imagetype:ImageType.String", "imagetype:ImageType.Extension", "imagetype:FromString",
		"exif2/ifds:IfdType.String", "exif2/ifds:IfdType.IsValid", "exif2/ifds:IfdType.TagName",
		"exif2/ifds:CameraMake.String", "exif2/ifds:CameraModel.String",
		"exif2/tag:Type.String", "exif2/tag:Type.IsValid", "exif2/tag:Type.Size", "exif2/tag:ID.String",
		"meta:MeteringMode.String", "meta:ExposureMode.String", "meta:ExposureProgram.String",
		"meta:Flash.String", "meta:Orientation.String", "meta:Compression.String",
		"meta/canon:*.String",
		"meta/utils:ByteOrder.String",
		"xmp/xmpns:Namespace.String", "xmp/xmpns:Name.String", "xmp/xmpns:IdentifyNamespace", "xmp/xmpns:IdentifyName",
		"isobmff:Brand.String", "isobmff:boxType.String", "isobmff:hdlrType.String",
		"jpeg:markerType.String",
	},
	// C16: tables and loop-free helpers of the text codecs (the loops are hand-written models tied by exhaustive correspondence)
	"codec": {
		"meta:$mapStringMeteringMode", "meta:$mapStringExposureMode", "meta:$mapStringExposureProgram",
		"meta:MeteringMode.String", "meta:ExposureMode.String", "meta:ExposureProgram.String",
		"meta:NewMeteringMode", "meta:NewExposureMode", "meta:NewExposureProgram", "meta:NewExposureBias",
		"?meta:ExposureBias.MarshalText",
		"imagetype:ImageType.String", "imagetype:FromString",
	},
	// Exif reader: make / model normalisation tables
	"exif": {
		"exif2/ifds:$mapStringCameraMake", "exif2/ifds:CameraMake.String",
		"exif2/ifds/mknote/canon:$mapStringCameraModel", "exif2/ifds/mknote/canon:CameraModel.String",
		"exif2/ifds/mknote/apple:$mapAppleCameraModel", "exif2/ifds/mknote/apple:CameraModel.String",
		"exif2/tag:Type.Size", "exif2/tag:Type.IsValid",
	},
}
