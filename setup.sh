#!/bin/sh
# Build the framework from files on disk only (offline). Run once after a fresh restore.
set -e
cd "$(dirname "$0")"
export GOFLAGS=-mod=mod GOPROXY=off GOSUMDB=off GOTOOLCHAIN=local CGO_ENABLED=0
mkdir -p harness/bin evidence replays
cp ${VERIF_REPO:-/repo}/go.sum harness/go.sum
(cd harness && go build -tags verif -o bin/ ./cmd/...)
(cd tools && go build -o ../harness/bin/ ./cmd/...)
./check --regen-all
(cd lean && lake build Imeta imeta-driver)
echo setup-ok
