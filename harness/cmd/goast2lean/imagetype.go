package main

import (
	"fmt"
	"go/ast"
	"go/token"
	"path/filepath"
	"sort"
	"strings"
)

func init() { translators["imagetype"] = trImageType }

// iotaConsts extracts `const ( A T = iota; B; C ... )` blocks and plain integer constants.
func iotaConsts(files []*ast.File, t *exprTr) (names []string, vals map[string]string) {
	vals = map[string]string{}
	for _, f := range files {
		for _, d := range f.Decls {
			gd, ok := d.(*ast.GenDecl)
			if !ok || gd.Tok != token.CONST {
				continue
			}
			isIota := false
			for i, sp := range gd.Specs {
				vs := sp.(*ast.ValueSpec)
				if len(vs.Values) == 1 {
					if id, ok := vs.Values[0].(*ast.Ident); ok && id.Name == "iota" {
						isIota = true
					} else {
						isIota = false
						if v, err := t.intConst(vs.Values[0]); err == nil && len(vs.Names) == 1 {
							vals[vs.Names[0].Name] = fmt.Sprint(v)
							t.consts[vs.Names[0].Name] = fmt.Sprint(v)
							names = append(names, vs.Names[0].Name)
						}
						continue
					}
				} else if len(vs.Values) != 0 {
					isIota = false
					continue
				}
				if isIota && len(vs.Names) == 1 && vs.Names[0].Name != "_" {
					vals[vs.Names[0].Name] = fmt.Sprint(i)
					t.consts[vs.Names[0].Name] = fmt.Sprint(i)
					names = append(names, vs.Names[0].Name)
				}
			}
		}
	}
	return
}

type predFn struct {
	name   string
	params []string
	ptys   []ty
	body   string
	deps   []string
}

func calledFuncs(n ast.Node) []string {
	var out []string
	ast.Inspect(n, func(x ast.Node) bool {
		if c, ok := x.(*ast.CallExpr); ok {
			if id, ok := c.Fun.(*ast.Ident); ok {
				out = append(out, id.Name)
			}
		}
		return true
	})
	return out
}

// trStmts translates `if c { ... return X }`-chains. It returns let-bindings
// (continuations, innermost first) and the final term.
func trStmts(t *exprTr, stmts []ast.Stmt, k string, retTr func(ast.Expr) (string, error), depth *int) ([]string, string, error) {
	if len(stmts) == 0 {
		if k == "" {
			return nil, "", fmt.Errorf("function body falls off the end")
		}
		return nil, k, nil
	}
	switch s := stmts[0].(type) {
	case *ast.ReturnStmt:
		if len(s.Results) != 1 {
			return nil, "", fmt.Errorf("%s: return with %d results", t.pos(s), len(s.Results))
		}
		r, err := retTr(s.Results[0])
		return nil, r, err
	case *ast.IfStmt:
		if s.Init != nil || s.Else != nil {
			return nil, "", fmt.Errorf("%s: if with init/else not supported", t.pos(s))
		}
		letsR, termR, err := trStmts(t, stmts[1:], k, retTr, depth)
		if err != nil {
			return nil, "", err
		}
		*depth++
		kn := fmt.Sprintf("k%d", *depth)
		c, err := t.tr(s.Cond, tBool)
		if err != nil {
			return nil, "", err
		}
		letsB, termB, err := trStmts(t, s.Body.List, kn, retTr, depth)
		if err != nil {
			return nil, "", err
		}
		lets := append(letsR, fmt.Sprintf("let %s : G Nat := %s", kn, termR))
		lets = append(lets, letsB...)
		return lets, fmt.Sprintf("gif %s (%s) %s", c, termB, kn), nil
	}
	return nil, "", fmt.Errorf("%s: unsupported statement %T", t.pos(stmts[0]), stmts[0])
}

func trImageType(repo string) (string, error) {
	dir := filepath.Join(repo, "imagetype")
	fset, files, err := pkgFiles(dir, "imagetype.go", "scan.go")
	if err != nil {
		return "", err
	}
	t := &exprTr{fset: fset, params: map[string]ty{}, consts: map[string]string{}, funcs: map[string][]ty{}}
	cnames, cvals := iotaConsts(files, t)

	// pass 1: signatures of bool predicates over (buf []byte [, str string])
	var decls []*ast.FuncDecl
	for _, f := range files {
		for _, d := range f.Decls {
			fd, ok := d.(*ast.FuncDecl)
			if !ok || fd.Recv != nil || fd.Body == nil || fd.Type.Results == nil || len(fd.Type.Results.List) != 1 {
				continue
			}
			rt, ok := fd.Type.Results.List[0].Type.(*ast.Ident)
			if !ok || (rt.Name != "bool" && rt.Name != "ImageType") {
				continue
			}
			var ptys []ty
			okp := true
			for _, p := range fd.Type.Params.List {
				var pt ty
				switch x := p.Type.(type) {
				case *ast.ArrayType:
					if id, ok := x.Elt.(*ast.Ident); ok && id.Name == "byte" && x.Len == nil {
						pt = tBytes
					}
				case *ast.Ident:
					if x.Name == "string" {
						pt = tBytes
					}
				}
				if pt == tUnknown {
					okp = false
				}
				for range p.Names {
					ptys = append(ptys, pt)
				}
			}
			if !okp || len(ptys) == 0 {
				continue
			}
			if rt.Name == "ImageType" && fd.Name.Name != "parseBuffer" {
				continue
			}
			t.funcs[fd.Name.Name] = ptys
			decls = append(decls, fd)
		}
	}
	if _, ok := t.funcs["parseBuffer"]; !ok {
		return "", fmt.Errorf("parseBuffer not found")
	}
	// pass 2: bodies
	fns := map[string]*predFn{}
	for _, fd := range decls {
		t.params = map[string]ty{}
		var pn []string
		i := 0
		for _, p := range fd.Type.Params.List {
			for _, n := range p.Names {
				t.params[n.Name] = t.funcs[fd.Name.Name][i]
				pn = append(pn, n.Name)
				i++
			}
		}
		pf := &predFn{name: fd.Name.Name, params: pn, ptys: t.funcs[fd.Name.Name]}
		for _, c := range calledFuncs(fd.Body) {
			if _, ok := t.funcs[c]; ok {
				pf.deps = append(pf.deps, c)
			}
		}
		if fd.Name.Name == "parseBuffer" {
			depth := 0
			lets, term, err := trStmts(t, fd.Body.List, "", func(e ast.Expr) (string, error) {
				id, ok := e.(*ast.Ident)
				if !ok {
					return "", fmt.Errorf("%s: parseBuffer returns a non-constant", t.pos(e))
				}
				if _, ok := cvals[id.Name]; !ok {
					return "", fmt.Errorf("%s: unknown image type constant %s", t.pos(e), id.Name)
				}
				return "Outcome.ok " + id.Name, nil
			}, &depth)
			if err != nil {
				return "", err
			}
			pf.body = strings.Join(append(lets, term), "\n  ")
		} else {
			if len(fd.Body.List) != 1 {
				return "", fmt.Errorf("%s: predicate %s is not a single return", t.pos(fd), fd.Name.Name)
			}
			rs, ok := fd.Body.List[0].(*ast.ReturnStmt)
			if !ok || len(rs.Results) != 1 {
				return "", fmt.Errorf("%s: predicate %s is not a single return", t.pos(fd), fd.Name.Name)
			}
			body, err := t.tr(rs.Results[0], tBool)
			if err != nil {
				return "", err
			}
			pf.body = body
		}
		fns[pf.name] = pf
	}
	// emit in dependency order
	var order []string
	state := map[string]int{}
	var visit func(n string) error
	visit = func(n string) error {
		switch state[n] {
		case 1:
			return fmt.Errorf("recursive predicate %s", n)
		case 2:
			return nil
		}
		state[n] = 1
		deps := append([]string{}, fns[n].deps...)
		sort.Strings(deps)
		for _, d := range deps {
			if d != n {
				if err := visit(d); err != nil {
					return err
				}
			}
		}
		state[n] = 2
		order = append(order, n)
		return nil
	}
	var all []string
	for n := range fns {
		all = append(all, n)
	}
	sort.Strings(all)
	for _, n := range all {
		if err := visit(n); err != nil {
			return "", err
		}
	}
	var sb strings.Builder
	sb.WriteString("/- GENERATED by goast2lean imagetype from imagetype/imagetype.go and imagetype/scan.go. Do not edit. -/\n")
	sb.WriteString("import Imeta.Go.Expr\nnamespace Imeta.Gen.ImageType\nopen Imeta\n\n")
	for _, n := range cnames {
		sb.WriteString(fmt.Sprintf("def %s : Nat := %s\n", n, cvals[n]))
	}
	sb.WriteString("\n")
	for _, n := range order {
		pf := fns[n]
		var ps []string
		for _, p := range pf.params {
			ps = append(ps, "("+p+" : Bytes)")
		}
		rt := "Bool"
		if n == "parseBuffer" {
			rt = "Nat"
		}
		sb.WriteString(fmt.Sprintf("def %s %s : G %s :=\n  %s\n\n", n, strings.Join(ps, " "), rt, pf.body))
	}
	sb.WriteString("/-- names of the translated predicates, in emission order -/\ndef predicateNames : List String := [")
	for i, n := range order {
		if i > 0 {
			sb.WriteString(", ")
		}
		sb.WriteString(fmt.Sprintf("%q", n))
	}
	sb.WriteString("]\n\nend Imeta.Gen.ImageType\n")
	return sb.String(), nil
}
