package main

// facts: whole-repository facts that are premises of C05 / C14 / C15 theorems, extracted with go/ast.
//
//   printSites   every call that writes to the process's stdout/stderr directly (fmt.Print*, print, println,
//                os.Stdout / os.Stderr mentioned) in non-test library files
//   allocSites   every make(...) with a non-constant length/capacity and every bufio.NewReaderSize /
//                bytes.Buffer.Grow with a non-constant size, in the decode-path packages
//   lockFacts    every mention of the time-zone cache map with the kind of lock region it sits in
//   poolFacts    every sync.Pool Get with whether the same function Puts the object back (directly or deferred)
//   varWrites    assignments to package-level variables outside init functions and var declarations
//
// Conservative and syntactic: anything the extractor does not understand is reported as its own fact, so the
// expectation theorems on the Lean side fail rather than pass silently.

import (
	"fmt"
	"go/ast"
	"go/parser"
	"go/printer"
	"go/token"
	"os"
	"path/filepath"
	"sort"
	"strings"
)

func init() { translators["facts"] = genFacts }

var factPkgs = []string{".", "exif2", "exif2/ifds", "exif2/tag", "jpeg", "tiff", "png", "isobmff", "xmp", "xmp/xmpns", "imagetype", "imagehash", "imagehash/transforms", "imagehash/transforms32", "meta", "meta/utils", "meta/canon", "preview"}

func exprStr(fset *token.FileSet, e ast.Node) string {
	var sb strings.Builder
	printer.Fprint(&sb, fset, e)
	return strings.Join(strings.Fields(sb.String()), " ")
}

func genFacts(repo string) (string, error) {
	var prints, allocs, locks, pools, writes []string
	for _, rel := range factPkgs {
		dir := filepath.Join(repo, rel)
		ents, err := os.ReadDir(dir)
		if err != nil {
			return "", err
		}
		fset := token.NewFileSet()
		for _, e := range ents {
			n := e.Name()
			if e.IsDir() || !strings.HasSuffix(n, ".go") || strings.HasSuffix(n, "_test.go") || strings.HasSuffix(n, "_gen.go") || n == "asm.go" {
				continue
			}
			f, err := parser.ParseFile(fset, filepath.Join(dir, n), nil, parser.ParseComments)
			if err != nil {
				return "", err
			}
			skip := false
			for _, cg := range f.Comments {
				for _, c := range cg.List {
					if strings.HasPrefix(c.Text, "//go:build") && (strings.Contains(c.Text, "verif") || strings.Contains(c.Text, "ignore")) {
						skip = true
					}
				}
			}
			if skip || f.Name.Name == "main" {
				continue
			}
			file := filepath.ToSlash(filepath.Join(rel, n))
			pkgVars := map[string]bool{}
			for _, d := range f.Decls {
				if gd, ok := d.(*ast.GenDecl); ok && gd.Tok == token.VAR {
					for _, sp := range gd.Specs {
						for _, nm := range sp.(*ast.ValueSpec).Names {
							pkgVars[nm.Name] = true
						}
					}
				}
			}
			for _, d := range f.Decls {
				fd, ok := d.(*ast.FuncDecl)
				if !ok || fd.Body == nil {
					continue
				}
				fn := fd.Name.Name
				if fd.Recv != nil && len(fd.Recv.List) == 1 {
					fn = exprStr(fset, fd.Recv.List[0].Type) + "." + fn
				}
				where := file + ":" + fn
				// lock regions, tracked syntactically in statement order
				region := "none"
				hasPut := map[string]bool{}
				var gets []string
				ast.Inspect(fd.Body, func(nd ast.Node) bool {
					switch x := nd.(type) {
					case *ast.CallExpr:
						callee := exprStr(fset, x.Fun)
						switch {
						case strings.HasPrefix(callee, "fmt.Print") || strings.HasPrefix(callee, "fmt.Fprint") && len(x.Args) > 0 && strings.HasPrefix(exprStr(fset, x.Args[0]), "os.Std"),
							callee == "print", callee == "println":
							prints = append(prints, where+":"+callee)
						case callee == "make":
							for _, a := range x.Args[1:] {
								if _, lit := a.(*ast.BasicLit); !lit {
									allocs = append(allocs, where+":make("+exprStr(fset, x.Args[0])+", "+exprStr(fset, a)+")")
									break
								}
							}
						case callee == "bufio.NewReaderSize" || callee == "bufio.NewWriterSize" || strings.HasSuffix(callee, ".Grow"):
							a := x.Args[len(x.Args)-1]
							if _, lit := a.(*ast.BasicLit); !lit {
								if id, isId := a.(*ast.Ident); !(isId && (id.Name == "bufferSize" || id.Name == "minBufReaderSize")) {
									allocs = append(allocs, where+":"+callee+"("+exprStr(fset, a)+")")
								}
							}
						case strings.HasSuffix(callee, ".RLock"):
							region = "rlock"
						case strings.HasSuffix(callee, ".RUnlock"), strings.HasSuffix(callee, ".Unlock"):
							region = "none"
						case strings.HasSuffix(callee, ".Lock"):
							region = "lock"
						case strings.HasSuffix(callee, ".Get") && strings.Contains(strings.ToLower(callee), "pool"):
							gets = append(gets, strings.TrimSuffix(callee, ".Get"))
						case strings.HasSuffix(callee, ".Put") && strings.Contains(strings.ToLower(callee), "pool"):
							hasPut[strings.TrimSuffix(callee, ".Put")] = true
						}
					case *ast.SelectorExpr:
						s := exprStr(fset, x)
						if s == "os.Stdout" || s == "os.Stderr" {
							prints = append(prints, where+":"+s)
						}
					case *ast.Ident:
						if x.Name == "cacheTimeZone" {
							locks = append(locks, where+":"+region)
						}
					case *ast.AssignStmt:
						for _, l := range x.Lhs {
							base := l
							for {
								if ix, ok := base.(*ast.IndexExpr); ok {
									base = ix.X
									continue
								}
								break
							}
							if id, ok := base.(*ast.Ident); ok && pkgVars[id.Name] && x.Tok != token.DEFINE && fd.Name.Name != "init" {
								kind := "assign"
								if _, isIdx := l.(*ast.IndexExpr); isIdx {
									kind = "index-assign:" + region
								}
								writes = append(writes, where+":"+id.Name+":"+kind)
							}
							if se, ok := base.(*ast.SelectorExpr); ok {
								s := exprStr(fset, se)
								if strings.HasSuffix(s, ".Logger") || strings.Contains(s, "FlagUseASM") || strings.Contains(s, "ForwardDCT") {
									if fd.Name.Name != "init" {
										writes = append(writes, where+":"+s+":assign")
									}
								}
							}
						}
					}
					return true
				})
				for _, g := range gets {
					pools = append(pools, fmt.Sprintf("%s:%s:put=%v", where, g, hasPut[g]))
				}
			}
		}
	}
	emit := func(name string, l []string) string {
		sort.Strings(l)
		var sb strings.Builder
		fmt.Fprintf(&sb, "def %s : List String := [\n", name)
		for i, s := range l {
			sep := ","
			if i == len(l)-1 {
				sep = ""
			}
			fmt.Fprintf(&sb, "  %q%s\n", s, sep)
		}
		sb.WriteString("]\n\n")
		return sb.String()
	}
	out := "/- GENERATED by harness/cmd/goast2lean (facts) from /repo. Do not edit. -/\nnamespace Imeta.Gen.Facts\n\n"
	out += emit("printSites", prints) + emit("allocSites", allocs) + emit("lockFacts", locks) + emit("poolFacts", pools) + emit("varWrites", writes)
	return out + "end Imeta.Gen.Facts\n", nil
}
