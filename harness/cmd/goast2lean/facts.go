package main

// facts: whole-repository facts that are premises of C05 / C14 / C15 theorems, extracted with go/ast.
//
//   printSites   every call that writes to the process's stdout/stderr directly (fmt.Print*, print, println,
//                os.Stdout / os.Stderr mentioned) in non-test library files
//   allocSites   every make(...) with a non-constant length/capacity and every bufio.NewReaderSize /
//                bytes.Buffer.Grow with a non-constant size, in the decode-path packages
//   lockFacts    every mention of the time-zone cache map with the kind of lock region it sits in
//   poolFacts    every sync.Pool Get with whether the same function Puts the object back (directly or deferred)
//   varWrites    assignments to package-level variables outside init functions and var declarations
//   logGuards    every statement other than a logger call chain that sits under an `if` whose condition asks for the
//                log level (logLevel*() or a variable assigned from it), and every such `if` with an else branch
//
// Conservative and syntactic: anything the extractor does not understand is reported as its own fact, so the
// expectation theorems on the Lean side fail rather than pass silently.

import (
	"fmt"
	"go/ast"
	"go/parser"
	"go/printer"
	"go/token"
	"os"
	"path/filepath"
	"sort"
	"strings"
)

func init() { translators["facts"] = genFacts }

var factPkgs = []string{".", "exif2", "exif2/ifds", "exif2/tag", "jpeg", "tiff", "png", "isobmff", "xmp", "xmp/xmpns", "imagetype", "imagehash", "imagehash/transforms", "imagehash/transforms32", "meta", "meta/utils", "meta/canon", "preview"}

func exprStr(fset *token.FileSet, e ast.Node) string {
	var sb strings.Builder
	printer.Fprint(&sb, fset, e)
	return strings.Join(strings.Fields(sb.String()), " ")
}

func genFacts(repo string) (string, error) {
	var prints, allocs, locks, pools, writes, guards []string
	for _, rel := range factPkgs {
		dir := filepath.Join(repo, rel)
		ents, err := os.ReadDir(dir)
		if err != nil {
			return "", err
		}
		fset := token.NewFileSet()
		for _, e := range ents {
			n := e.Name()
			if e.IsDir() || !strings.HasSuffix(n, ".go") || strings.HasSuffix(n, "_test.go") || strings.HasSuffix(n, "_gen.go") || n == "asm.go" {
				continue
			}
			f, err := parser.ParseFile(fset, filepath.Join(dir, n), nil, parser.ParseComments)
			if err != nil {
				return "", err
			}
			skip := false
			for _, cg := range f.Comments {
				for _, c := range cg.List {
					if strings.HasPrefix(c.Text, "//go:build") && (strings.Contains(c.Text, "verif") || strings.Contains(c.Text, "ignore")) {
						skip = true
					}
				}
			}
			if skip || f.Name.Name == "main" {
				continue
			}
			file := filepath.ToSlash(filepath.Join(rel, n))
			pkgVars := map[string]bool{}
			for _, d := range f.Decls {
				if gd, ok := d.(*ast.GenDecl); ok && gd.Tok == token.VAR {
					for _, sp := range gd.Specs {
						for _, nm := range sp.(*ast.ValueSpec).Names {
							pkgVars[nm.Name] = true
						}
					}
				}
			}
			for _, d := range f.Decls {
				fd, ok := d.(*ast.FuncDecl)
				if !ok || fd.Body == nil {
					continue
				}
				fn := fd.Name.Name
				if fd.Recv != nil && len(fd.Recv.List) == 1 {
					fn = exprStr(fset, fd.Recv.List[0].Type) + "." + fn
				}
				where := file + ":" + fn
				// log-level guards: what else do they guard?
				lvlVars := map[string]bool{}
				mentionsLevel := func(e ast.Expr) bool {
					found := false
					ast.Inspect(e, func(nd ast.Node) bool {
						switch x := nd.(type) {
						case *ast.CallExpr:
							cs := exprStr(fset, x.Fun)
							if i := strings.LastIndex(cs, "."); i >= 0 {
								cs = cs[i+1:]
							}
							if strings.HasPrefix(strings.ToLower(cs), "loglevel") || cs == "GetLevel" || cs == "Enabled" {
								found = true
							}
						case *ast.Ident:
							if lvlVars[x.Name] {
								found = true
							}
						}
						return true
					})
					return found
				}
				isLogStmt := func(st ast.Stmt) bool {
					es, ok := st.(*ast.ExprStmt)
					if !ok {
						return false
					}
					// a call chain that ends in Send / Msg / Msgf and is rooted in one of the logger helpers (a function or
					// method whose name starts with "log", or the package logger), or a direct call of such a helper
					call, ok := es.X.(*ast.CallExpr)
					if !ok {
						return false
					}
					lastName := func(e ast.Expr) string {
						switch y := e.(type) {
						case *ast.Ident:
							return y.Name
						case *ast.SelectorExpr:
							return y.Sel.Name
						}
						return ""
					}
					outer := lastName(call.Fun)
					if strings.HasPrefix(outer, "log") {
						return true
					}
					if !(outer == "Send" || outer == "Msg" || outer == "Msgf") {
						return false
					}
					rooted := false
					ast.Inspect(call, func(nd ast.Node) bool {
						if c2, ok := nd.(*ast.CallExpr); ok && strings.HasPrefix(lastName(c2.Fun), "log") {
							rooted = true
						}
						if id, ok := nd.(*ast.Ident); ok && (id.Name == "logger" || id.Name == "Logger") {
							rooted = true
						}
						return true
					})
					return rooted
				}
				definesGuard := strings.HasPrefix(strings.ToLower(fd.Name.Name), "loglevel") || (f.Name.Name == "jpeg" && fd.Name.Name == "logInfo")
				ast.Inspect(fd.Body, func(nd ast.Node) bool {
					switch x := nd.(type) {
					case *ast.AssignStmt:
						if len(x.Lhs) == 1 && len(x.Rhs) == 1 && mentionsLevel(x.Rhs[0]) {
							if id, ok := x.Lhs[0].(*ast.Ident); ok {
								lvlVars[id.Name] = true
							}
						}
					case *ast.IfStmt:
						if mentionsLevel(x.Cond) {
							for _, st := range x.Body.List {
								if !isLogStmt(st) {
									txt := exprStr(fset, st)
									if len(txt) > 90 {
										txt = txt[:90] + "..."
									}
									guards = append(guards, fmt.Sprintf("%s:if %s:%T:%s", where, exprStr(fset, x.Cond), st, txt))
								}
							}
							if x.Else != nil {
								guards = append(guards, fmt.Sprintf("%s:if %s:else", where, exprStr(fset, x.Cond)))
							}
						}
					case *ast.SwitchStmt, *ast.ForStmt, *ast.ReturnStmt:
						var e ast.Expr
						switch y := nd.(type) {
						case *ast.SwitchStmt:
							e = y.Tag
						case *ast.ForStmt:
							e = y.Cond
						case *ast.ReturnStmt:
							for _, r := range y.Results {
								if mentionsLevel(r) && !definesGuard {
									guards = append(guards, fmt.Sprintf("%s:return %s", where, exprStr(fset, r)))
								}
							}
						}
						if e != nil && mentionsLevel(e) {
							guards = append(guards, fmt.Sprintf("%s:%T on level", where, nd))
						}
					}
					return true
				})
				// lock regions, tracked syntactically in statement order
				region := "none"
				hasPut := map[string]bool{}
				var gets []string
				ast.Inspect(fd.Body, func(nd ast.Node) bool {
					switch x := nd.(type) {
					case *ast.CallExpr:
						callee := exprStr(fset, x.Fun)
						switch {
						case strings.HasPrefix(callee, "fmt.Print") || strings.HasPrefix(callee, "fmt.Fprint") && len(x.Args) > 0 && strings.HasPrefix(exprStr(fset, x.Args[0]), "os.Std"),
							callee == "print", callee == "println":
							prints = append(prints, where+":"+callee)
						case callee == "make":
							for _, a := range x.Args[1:] {
								if _, lit := a.(*ast.BasicLit); !lit {
									allocs = append(allocs, where+":make("+exprStr(fset, x.Args[0])+", "+exprStr(fset, a)+")")
									break
								}
							}
						case callee == "bufio.NewReaderSize" || callee == "bufio.NewWriterSize" || strings.HasSuffix(callee, ".Grow"):
							a := x.Args[len(x.Args)-1]
							if _, lit := a.(*ast.BasicLit); !lit {
								if id, isId := a.(*ast.Ident); !(isId && (id.Name == "bufferSize" || id.Name == "minBufReaderSize")) {
									allocs = append(allocs, where+":"+callee+"("+exprStr(fset, a)+")")
								}
							}
						case strings.HasSuffix(callee, ".RLock"):
							region = "rlock"
						case strings.HasSuffix(callee, ".RUnlock"), strings.HasSuffix(callee, ".Unlock"):
							region = "none"
						case strings.HasSuffix(callee, ".Lock"):
							region = "lock"
						case strings.HasSuffix(callee, ".Get") && strings.Contains(strings.ToLower(callee), "pool"):
							gets = append(gets, strings.TrimSuffix(callee, ".Get"))
						case strings.HasSuffix(callee, ".Put") && strings.Contains(strings.ToLower(callee), "pool"):
							hasPut[strings.TrimSuffix(callee, ".Put")] = true
						}
					case *ast.SelectorExpr:
						s := exprStr(fset, x)
						if s == "os.Stdout" || s == "os.Stderr" {
							prints = append(prints, where+":"+s)
						}
					case *ast.Ident:
						if x.Name == "cacheTimeZone" {
							locks = append(locks, where+":"+region)
						}
					case *ast.AssignStmt:
						for _, l := range x.Lhs {
							base := l
							for {
								if ix, ok := base.(*ast.IndexExpr); ok {
									base = ix.X
									continue
								}
								break
							}
							if id, ok := base.(*ast.Ident); ok && pkgVars[id.Name] && x.Tok != token.DEFINE && fd.Name.Name != "init" {
								kind := "assign"
								if _, isIdx := l.(*ast.IndexExpr); isIdx {
									kind = "index-assign:" + region
								}
								writes = append(writes, where+":"+id.Name+":"+kind)
							}
							if se, ok := base.(*ast.SelectorExpr); ok {
								s := exprStr(fset, se)
								if strings.HasSuffix(s, ".Logger") || strings.Contains(s, "FlagUseASM") || strings.Contains(s, "ForwardDCT") {
									if fd.Name.Name != "init" {
										writes = append(writes, where+":"+s+":assign")
									}
								}
							}
						}
					}
					return true
				})
				for _, g := range gets {
					pools = append(pools, fmt.Sprintf("%s:%s:put=%v", where, g, hasPut[g]))
				}
			}
		}
	}
	emit := func(name string, l []string) string {
		sort.Strings(l)
		var sb strings.Builder
		fmt.Fprintf(&sb, "def %s : List String := [\n", name)
		for i, s := range l {
			sep := ","
			if i == len(l)-1 {
				sep = ""
			}
			fmt.Fprintf(&sb, "  %q%s\n", s, sep)
		}
		sb.WriteString("]\n\n")
		return sb.String()
	}
	out := "/- GENERATED by harness/cmd/goast2lean (facts) from /repo. Do not edit. -/\nnamespace Imeta.Gen.Facts\n\n"
	out += emit("printSites", prints) + emit("allocSites", allocs) + emit("lockFacts", locks) + emit("poolFacts", pools) + emit("varWrites", writes) + emit("logGuards", guards)
	return out + "end Imeta.Gen.Facts\n", nil
}
