package main

import (
	"fmt"
	"go/ast"
	"go/constant"
	"go/parser"
	"go/token"
	"os"
	"path/filepath"
	"sort"
	"strconv"
	"strings"
)

// pkgFiles parses the non-test Go files of a package directory.
func pkgFiles(dir string, names ...string) (*token.FileSet, []*ast.File, error) {
	fset := token.NewFileSet()
	var files []*ast.File
	if len(names) == 0 {
		ents, err := os.ReadDir(dir)
		if err != nil {
			return nil, nil, err
		}
		for _, e := range ents {
			n := e.Name()
			if strings.HasSuffix(n, ".go") && !strings.HasSuffix(n, "_test.go") {
				names = append(names, n)
			}
		}
		sort.Strings(names)
	}
	for _, n := range names {
		f, err := parser.ParseFile(fset, filepath.Join(dir, n), nil, parser.ParseComments)
		if err != nil {
			return nil, nil, err
		}
		// honour build tags crudely: skip files guarded by the verif tag (our own hooks)
		skip := false
		for _, cg := range f.Comments {
			for _, c := range cg.List {
				if strings.HasPrefix(c.Text, "//go:build") && strings.Contains(c.Text, "verif") {
					skip = true
				}
			}
		}
		if !skip {
			files = append(files, f)
		}
	}
	return fset, files, nil
}

type ty int

const (
	tUnknown ty = iota
	tByte
	tNat
	tBytes
	tBool
)

// exprTr translates the boolean/byte expression fragment into the Go.Expr embedding.
type exprTr struct {
	fset   *token.FileSet
	params map[string]ty        // parameter name -> type
	consts map[string]string    // package constants usable as Nat
	funcs  map[string][]ty      // known predicate functions: parameter types
}

func (t *exprTr) pos(n ast.Node) string { return t.fset.Position(n.Pos()).String() }

func (t *exprTr) typeOf(e ast.Expr) ty {
	switch x := e.(type) {
	case *ast.ParenExpr:
		return t.typeOf(x.X)
	case *ast.IndexExpr:
		return tByte
	case *ast.SliceExpr:
		return tBytes
	case *ast.BasicLit:
		if x.Kind == token.STRING {
			return tBytes
		}
		return tUnknown // numeric literal: adopt the other side
	case *ast.Ident:
		if ty, ok := t.params[x.Name]; ok {
			return ty
		}
		if _, ok := t.consts[x.Name]; ok {
			return tNat
		}
	case *ast.CallExpr:
		if id, ok := x.Fun.(*ast.Ident); ok {
			switch id.Name {
			case "len":
				return tNat
			case "string":
				return tBytes
			case "int", "uint":
				return tNat
			}
			if _, ok := t.funcs[id.Name]; ok {
				return tBool
			}
		}
	case *ast.BinaryExpr:
		switch x.Op {
		case token.LAND, token.LOR, token.EQL, token.NEQ, token.LSS, token.GTR, token.LEQ, token.GEQ:
			return tBool
		}
	}
	return tUnknown
}

func litValue(x *ast.BasicLit) (uint64, error) {
	switch x.Kind {
	case token.INT:
		v := constant.MakeFromLiteral(x.Value, token.INT, 0)
		u, ok := constant.Uint64Val(v)
		if !ok {
			return 0, fmt.Errorf("integer literal %s out of range", x.Value)
		}
		return u, nil
	case token.CHAR:
		r, _, _, err := strconv.UnquoteChar(x.Value[1:len(x.Value)-1], '\'')
		if err != nil {
			return 0, err
		}
		return uint64(r), nil
	}
	return 0, fmt.Errorf("unsupported literal %s", x.Value)
}

func leanBytes(s string) string {
	var parts []string
	for i := 0; i < len(s); i++ {
		parts = append(parts, fmt.Sprintf("0x%02x", s[i]))
	}
	return "([" + strings.Join(parts, ", ") + "] : Bytes)"
}

// intConst evaluates a constant int expression (literals, package constants, + and -).
func (t *exprTr) intConst(e ast.Expr) (int64, error) {
	switch x := e.(type) {
	case *ast.BasicLit:
		u, err := litValue(x)
		return int64(u), err
	case *ast.ParenExpr:
		return t.intConst(x.X)
	case *ast.Ident:
		if v, ok := t.consts[x.Name]; ok {
			return strconv.ParseInt(v, 10, 64)
		}
	case *ast.BinaryExpr:
		a, err := t.intConst(x.X)
		if err != nil {
			return 0, err
		}
		b, err := t.intConst(x.Y)
		if err != nil {
			return 0, err
		}
		switch x.Op {
		case token.ADD:
			return a + b, nil
		case token.SUB:
			return a - b, nil
		case token.MUL:
			return a * b, nil
		}
	}
	return 0, fmt.Errorf("%s: not a constant integer expression", t.pos(e))
}

// tr returns a Lean term of type G <want>.
func (t *exprTr) tr(e ast.Expr, want ty) (string, error) {
	switch x := e.(type) {
	case *ast.ParenExpr:
		return t.tr(x.X, want)
	case *ast.BasicLit:
		if x.Kind == token.STRING {
			s, err := strconv.Unquote(x.Value)
			if err != nil {
				return "", err
			}
			return "(Outcome.ok " + leanBytes(s) + ")", nil
		}
		u, err := litValue(x)
		if err != nil {
			return "", fmt.Errorf("%s: %v", t.pos(e), err)
		}
		switch want {
		case tByte:
			if u > 255 {
				return "", fmt.Errorf("%s: byte literal %d > 255", t.pos(e), u)
			}
			return fmt.Sprintf("(Outcome.ok (0x%02x : UInt8))", u), nil
		case tNat:
			return fmt.Sprintf("(Outcome.ok (%d : Nat))", u), nil
		}
		return "", fmt.Errorf("%s: literal of unknown type", t.pos(e))
	case *ast.Ident:
		if ty, ok := t.params[x.Name]; ok {
			if want != tUnknown && ty != want {
				return "", fmt.Errorf("%s: %s has unexpected type", t.pos(e), x.Name)
			}
			return "(Outcome.ok " + x.Name + ")", nil
		}
		if v, ok := t.consts[x.Name]; ok && (want == tNat || want == tUnknown) {
			return "(Outcome.ok (" + v + " : Nat))", nil
		}
		return "", fmt.Errorf("%s: unknown identifier %s", t.pos(e), x.Name)
	case *ast.IndexExpr:
		base, ok := x.X.(*ast.Ident)
		if !ok || t.params[base.Name] != tBytes {
			return "", fmt.Errorf("%s: index of something that is not a byte-slice parameter", t.pos(e))
		}
		i, err := t.intConst(x.Index)
		if err != nil || i < 0 {
			return "", fmt.Errorf("%s: non-constant or negative index", t.pos(e))
		}
		return fmt.Sprintf("(gidx %s %d)", base.Name, i), nil
	case *ast.SliceExpr:
		base, ok := x.X.(*ast.Ident)
		if !ok || t.params[base.Name] != tBytes || x.Slice3 {
			return "", fmt.Errorf("%s: unsupported slice expression", t.pos(e))
		}
		lo := "0"
		if x.Low != nil {
			v, err := t.intConst(x.Low)
			if err != nil || v < 0 {
				return "", fmt.Errorf("%s: non-constant slice bound", t.pos(e))
			}
			lo = strconv.FormatInt(v, 10)
		}
		if x.High == nil {
			return fmt.Sprintf("(gslice %s %s %s.length)", base.Name, lo, base.Name), nil
		}
		v, err := t.intConst(x.High)
		if err != nil || v < 0 {
			return "", fmt.Errorf("%s: non-constant slice bound", t.pos(e))
		}
		return fmt.Sprintf("(gslice %s %s %d)", base.Name, lo, v), nil
	case *ast.CallExpr:
		id, ok := x.Fun.(*ast.Ident)
		if !ok {
			return "", fmt.Errorf("%s: unsupported call", t.pos(e))
		}
		switch id.Name {
		case "len":
			a, err := t.tr(x.Args[0], tBytes)
			if err != nil {
				return "", err
			}
			return "(Outcome.bind " + a + " fun v => Outcome.ok v.length)", nil
		case "string":
			return t.tr(x.Args[0], tBytes)
		}
		ptys, ok := t.funcs[id.Name]
		if !ok {
			return "", fmt.Errorf("%s: call of unknown function %s", t.pos(e), id.Name)
		}
		if len(ptys) != len(x.Args) {
			return "", fmt.Errorf("%s: arity mismatch calling %s", t.pos(e), id.Name)
		}
		// plain parameters: direct call
		allIdent := true
		var direct []string
		for _, a := range x.Args {
			aid, ok := a.(*ast.Ident)
			if !ok || t.params[aid.Name] == tUnknown {
				allIdent = false
				break
			}
			direct = append(direct, aid.Name)
		}
		if allIdent {
			return "(" + id.Name + " " + strings.Join(direct, " ") + ")", nil
		}
		// evaluate arguments left to right, then call
		s := ""
		var names []string
		for i, a := range x.Args {
			at, err := t.tr(a, ptys[i])
			if err != nil {
				return "", err
			}
			n := fmt.Sprintf("a%d", i)
			names = append(names, n)
			s += "(Outcome.bind " + at + " fun " + n + " => "
		}
		s += id.Name + " " + strings.Join(names, " ") + strings.Repeat(")", len(x.Args))
		return s, nil
	case *ast.BinaryExpr:
		switch x.Op {
		case token.LAND, token.LOR:
			a, err := t.tr(x.X, tBool)
			if err != nil {
				return "", err
			}
			b, err := t.tr(x.Y, tBool)
			if err != nil {
				return "", err
			}
			op := "gand"
			if x.Op == token.LOR {
				op = "gor"
			}
			return "(" + op + " " + a + " fun _ => " + b + ")", nil
		case token.EQL, token.NEQ, token.LSS, token.GTR, token.LEQ, token.GEQ:
			lt, rt := t.typeOf(x.X), t.typeOf(x.Y)
			ty := lt
			if ty == tUnknown {
				ty = rt
			}
			if ty == tUnknown {
				ty = tNat
			}
			a, err := t.tr(x.X, ty)
			if err != nil {
				return "", err
			}
			b, err := t.tr(x.Y, ty)
			if err != nil {
				return "", err
			}
			op := map[token.Token]string{token.EQL: "geq", token.NEQ: "gne", token.LSS: "glt", token.GTR: "ggt", token.LEQ: "gle", token.GEQ: "gge"}[x.Op]
			if (x.Op != token.EQL && x.Op != token.NEQ) && ty != tNat {
				return "", fmt.Errorf("%s: ordering comparison on non-integer", t.pos(e))
			}
			return "(" + op + " " + a + " " + b + ")", nil
		}
	}
	return "", fmt.Errorf("%s: unsupported expression %T", t.pos(e), e)
}
