package main

// asmgray: the text of ·asmYCbCrToGray in imagehash/transforms32/asm_x86.s as a Lean instruction table, and the guard of
// AsmYCbCrToGray (transforms32_linux.go) as a normalised expression string.
//
// Purely syntactic: registers become numbers, labels become instruction indices, CMPQ+JE pairs become one instruction,
// vector instructions without a memory operand become nops, vector loads/stores keep the parameter their base register
// was loaded from (the translator checks that a base register is written exactly once). Anything unexpected is an error.

import (
	"fmt"
	"go/ast"
	"go/parser"
	"go/token"
	"os"
	"path/filepath"
	"regexp"
	"strconv"
	"strings"
)

func init() { translators["asmgray"] = genAsmGray }

var gpRegs = map[string]int{"AX": 0, "BX": 1, "CX": 2, "DX": 3, "SI": 4, "DI": 5, "R8": 8, "R9": 9, "R10": 10, "R11": 11, "R12": 12, "R13": 13, "R14": 14, "R15": 15}

func genAsmGray(repo string) (string, error) {
	src, err := os.ReadFile(filepath.Join(repo, "imagehash/transforms32/asm_x86.s"))
	if err != nil {
		return "", err
	}
	lines := strings.Split(string(src), "\n")
	start := -1
	for i, l := range lines {
		if strings.HasPrefix(l, "TEXT ·asmYCbCrToGray(SB)") {
			start = i
		}
	}
	if start < 0 {
		return "", fmt.Errorf("asmYCbCrToGray not found")
	}
	type ins struct{ text string }
	var body []string
	for _, l := range lines[start+1:] {
		if strings.HasPrefix(l, "TEXT ") {
			break
		}
		l = strings.TrimSpace(l)
		if i := strings.Index(l, "//"); i >= 0 {
			l = strings.TrimSpace(l[:i])
		}
		if l != "" {
			body = append(body, l)
		}
	}
	// first pass: label positions (labels do not occupy a slot; CMPQ+JE is one slot)
	labels := map[string]int{}
	n := 0
	for i := 0; i < len(body); i++ {
		l := body[i]
		if strings.HasSuffix(l, ":") {
			labels[strings.TrimSuffix(l, ":")] = n
			continue
		}
		if strings.HasPrefix(l, "CMPQ") {
			if i+1 >= len(body) || !strings.HasPrefix(body[i+1], "JE") {
				return "", fmt.Errorf("CMPQ not followed by JE: %q", l)
			}
			i++
		}
		n++
	}
	paramRe := regexp.MustCompile(`^([A-Za-z_]+)\+\d+\(FP\)$`)
	memRe := regexp.MustCompile(`^\((R\d+|[A-D]X|[SD]I)\)\((R\d+|[A-D]X|[SD]I)\*(\d)\)$`)
	baseOf := map[string]string{} // register -> parameter base it holds
	written := map[string]int{}
	reg := func(s string) (int, error) {
		r, ok := gpRegs[s]
		if !ok {
			return 0, fmt.Errorf("not a general register: %q", s)
		}
		return r, nil
	}
	var out []string
	for i := 0; i < len(body); i++ {
		l := body[i]
		if strings.HasSuffix(l, ":") {
			continue
		}
		f := strings.Fields(strings.ReplaceAll(l, ",", " "))
		op, args := f[0], f[1:]
		emit := func(s string) { out = append(out, s) }
		switch {
		case op == "MOVQ" && len(args) == 2 && paramRe.MatchString(args[0]):
			p := paramRe.FindStringSubmatch(args[0])[1]
			d, err := reg(args[1])
			if err != nil {
				return "", err
			}
			written[args[1]]++
			if strings.HasSuffix(p, "_base") {
				baseOf[args[1]] = strings.TrimSuffix(p, "_base")
				emit(".nop")
			} else {
				emit(fmt.Sprintf(".movP %q %d", p, d))
			}
		case op == "MOVQ" && len(args) == 2:
			s, e1 := reg(args[0])
			d, e2 := reg(args[1])
			if e1 != nil || e2 != nil {
				return "", fmt.Errorf("MOVQ operands: %q", l)
			}
			written[args[1]]++
			emit(fmt.Sprintf(".movR %d %d", s, d))
		case op == "IMULQ" && len(args) == 2:
			s, e1 := reg(args[0])
			d, e2 := reg(args[1])
			if e1 != nil || e2 != nil {
				return "", fmt.Errorf("IMULQ operands: %q", l)
			}
			written[args[1]]++
			emit(fmt.Sprintf(".imul %d %d", s, d))
		case op == "ADDQ" && len(args) == 2 && strings.HasPrefix(args[0], "$"):
			v, err := strconv.ParseInt(strings.TrimPrefix(args[0], "$"), 0, 64)
			d, e2 := reg(args[1])
			if err != nil || e2 != nil {
				return "", fmt.Errorf("ADDQ operands: %q", l)
			}
			written[args[1]]++
			emit(fmt.Sprintf(".addI %d %d", v, d))
		case op == "ADDQ" && len(args) == 2:
			s, e1 := reg(args[0])
			d, e2 := reg(args[1])
			if e1 != nil || e2 != nil {
				return "", fmt.Errorf("ADDQ operands: %q", l)
			}
			written[args[1]]++
			emit(fmt.Sprintf(".add %d %d", s, d))
		case op == "XORQ" && len(args) == 2 && args[0] == args[1]:
			d, err := reg(args[0])
			if err != nil {
				return "", err
			}
			written[args[0]]++
			emit(fmt.Sprintf(".zero %d", d))
		case op == "INCQ" && len(args) == 1:
			d, err := reg(args[0])
			if err != nil {
				return "", err
			}
			written[args[0]]++
			emit(fmt.Sprintf(".addI 1 %d", d))
		case op == "CMPQ" && len(args) == 2:
			a, e1 := reg(args[0])
			b, e2 := reg(args[1])
			j := strings.Fields(body[i+1])
			t, ok := labels[j[1]]
			if e1 != nil || e2 != nil || !ok {
				return "", fmt.Errorf("CMPQ/JE: %q %q", l, body[i+1])
			}
			i++
			emit(fmt.Sprintf(".cmpje %d %d %d", a, b, t))
		case op == "JMP" && len(args) == 1:
			t, ok := labels[args[0]]
			if !ok {
				return "", fmt.Errorf("unknown label %q", args[0])
			}
			emit(fmt.Sprintf(".jmp %d", t))
		case op == "RET":
			emit(".ret")
		case strings.HasPrefix(op, "V"):
			// vector instruction: at most one memory operand of the form (base)(index*scale)
			mem := -1
			for k, a := range args {
				if strings.Contains(a, "(") && !strings.Contains(a, "(SB)") {
					if mem >= 0 {
						return "", fmt.Errorf("two memory operands: %q", l)
					}
					mem = k
				}
			}
			if mem < 0 {
				emit(".nop")
				break
			}
			m := memRe.FindStringSubmatch(args[mem])
			if m == nil {
				return "", fmt.Errorf("memory operand shape: %q", l)
			}
			base, ok := baseOf[m[1]]
			idx, err := reg(m[2])
			if !ok || err != nil {
				return "", fmt.Errorf("memory operand base/index: %q", l)
			}
			isStore := mem == len(args)-1
			width := map[string]int{"VPMOVZXBD": 8, "VMOVAPS": 32, "VMOVUPS": 32}[op]
			if width == 0 {
				return "", fmt.Errorf("unknown vector memory instruction %q", op)
			}
			if isStore {
				emit(fmt.Sprintf(".store %q %d %s %d", base, idx, m[3], width))
			} else {
				emit(fmt.Sprintf(".load %q %d %s %d", base, idx, m[3], width))
			}
		default:
			return "", fmt.Errorf("unsupported instruction %q", l)
		}
	}
	for r := range baseOf {
		if written[r] != 1 {
			return "", fmt.Errorf("base register %s written %d times", r, written[r])
		}
	}
	var sb strings.Builder
	sb.WriteString("/- GENERATED by harness/cmd/goast2lean (asmgray) from imagehash/transforms32/asm_x86.s and transforms32_linux.go. Do not edit. -/\nimport Imeta.Model.AsmSem\nnamespace Imeta.Gen.AsmGray\nopen Imeta.AsmSem\n\n")
	sb.WriteString("def fetch : Nat → Ins\n")
	for i, o := range out {
		fmt.Fprintf(&sb, "  | %d => %s\n", i, o)
	}
	sb.WriteString("  | _ => .ret\n\n")
	fmt.Fprintf(&sb, "def progLen : Nat := %d\n", len(out))
	for _, l := range []string{"y", "x", "xDone", "done"} {
		if _, ok := labels[l]; !ok {
			return "", fmt.Errorf("label %s missing", l)
		}
		fmt.Fprintf(&sb, "def L_%s : Nat := %d\n", l, labels[l])
	}
	// the guard in front of the assembly call
	g, err := asmGrayGuard(repo)
	if err != nil {
		return "", err
	}
	fmt.Fprintf(&sb, "\n/-- the condition under which AsmYCbCrToGray takes the portable path, and the arguments it passes to the assembly -/\ndef guardText : String := %q\ndef callArgs : List String := [%s]\n", g.cond, g.args)
	sb.WriteString("\nend Imeta.Gen.AsmGray\n")
	return sb.String(), nil
}

type guardInfo struct{ cond, args string }

func asmGrayGuard(repo string) (guardInfo, error) {
	fset := token.NewFileSet()
	f, err := parser.ParseFile(fset, filepath.Join(repo, "imagehash/transforms32/transforms32_linux.go"), nil, 0)
	if err != nil {
		return guardInfo{}, err
	}
	var gi guardInfo
	for _, d := range f.Decls {
		fd, ok := d.(*ast.FuncDecl)
		if !ok || fd.Name.Name != "AsmYCbCrToGray" {
			continue
		}
		var stmts []string
		for _, st := range fd.Body.List {
			switch x := st.(type) {
			case *ast.IfStmt:
				body := exprStr(fset, x.Body)
				stmts = append(stmts, "if "+exprStr(fset, x.Cond)+" "+body)
				gi.cond = exprStr(fset, x.Cond) + " => " + body
			case *ast.AssignStmt:
				stmts = append(stmts, exprStr(fset, x))
				gi.cond = exprStr(fset, x) + " ; " + gi.cond
			case *ast.ExprStmt:
				call, ok := x.X.(*ast.CallExpr)
				if !ok || exprStr(fset, call.Fun) != "asmYCbCrToGray" {
					return gi, fmt.Errorf("unexpected statement in AsmYCbCrToGray: %s", exprStr(fset, x))
				}
				var as []string
				for _, a := range call.Args {
					as = append(as, strconv.Quote(exprStr(fset, a)))
				}
				gi.args = strings.Join(as, ", ")
			default:
				return gi, fmt.Errorf("unexpected statement in AsmYCbCrToGray: %s", exprStr(fset, st))
			}
		}
		// order: assignment first, then the guard, then the call
		if len(stmts) != 2 || gi.args == "" {
			return gi, fmt.Errorf("AsmYCbCrToGray: expected `w, h := ...; if guard {portable; return}; asm call`, got %d statements before the call", len(stmts))
		}
		gi.cond = stmts[0] + " ; " + stmts[1]
		return gi, nil
	}
	return gi, fmt.Errorf("AsmYCbCrToGray not found")
}
