// goast2lean: small translators from /repo's Go source to Lean definitions.
//
//	goast2lean <what> -repo /repo -o out.lean
//
// Each translator understands a narrow set of shapes and fails loudly (exit 1)
// on anything else: an untranslatable source is a broken proof obligation,
// never silently skipped. Only data and straight-line definitions are emitted,
// never proofs.
package main

import (
	"flag"
	"fmt"
	"os"
)

var translators = map[string]func(repo string) (string, error){}

func main() {
	if len(os.Args) < 2 {
		fmt.Fprintln(os.Stderr, "usage: goast2lean <what> -repo DIR -o FILE")
		os.Exit(2)
	}
	what := os.Args[1]
	fs := flag.NewFlagSet("goast2lean", flag.ExitOnError)
	repo := fs.String("repo", "/repo", "")
	out := fs.String("o", "", "")
	fs.Parse(os.Args[2:])
	f, ok := translators[what]
	if !ok {
		fmt.Fprintln(os.Stderr, "unknown translator", what)
		os.Exit(2)
	}
	s, err := f(*repo)
	if err != nil {
		fmt.Fprintln(os.Stderr, "goast2lean:", what+":", err)
		os.Exit(1)
	}
	if *out == "" {
		fmt.Print(s)
		return
	}
	if err := os.WriteFile(*out, []byte(s), 0o644); err != nil {
		fmt.Fprintln(os.Stderr, err)
		os.Exit(1)
	}
}
