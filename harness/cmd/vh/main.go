// vh: correspondence and search harness.
//
//	vh run <property> --tier quick|thorough --seed N --out result.json
//	vh replay <property> <replay.json>
//
// For every property it runs the real code in-process (under recover) and the
// Lean model/spec through imeta-driver on the same inputs and reports
//   - disagreements (impl vs model): the hand-written model no longer describes the code
//   - violations    (impl vs spec under the property's preconditions): a failing input
//
// All random choices derive from --seed.
package main

import (
	"crypto/sha256"
	"encoding/hex"
	"encoding/json"
	"flag"
	"fmt"
	"math/rand"
	"os"
	"sort"
	"time"
)

// Case is one failing or disagreeing input, self-contained enough to replay.
type Case struct {
	Entry    string `json:"entry_point"`
	Input    string `json:"input"`              // hex or op list (protocol line)
	Expected string `json:"expected"`           // model or spec answer
	Actual   string `json:"actual"`             // implementation answer (canonical)
	Kind     string `json:"kind"`               // panic|hang|wrong-value|stdout|alloc|oob|race|model-mismatch
	Frame    string `json:"frame,omitempty"`    // top /repo frame for panics
	Class    string `json:"class,omitempty"`    // structural class for value-level failures
	Note     string `json:"note,omitempty"`
}

type Result struct {
	Property      string         `json:"property"`
	Tier          string         `json:"tier"`
	Seed          int64          `json:"seed"`
	Evaluations   int            `json:"evaluations"`
	Distinct      int            `json:"distinct_nontrivial"`
	Rule          string         `json:"rule"`
	Samples       []any          `json:"samples"`
	Stats         map[string]int `json:"stats"`
	Exhaustive    bool           `json:"exhaustive,omitempty"`
	Disagreements []Case         `json:"disagreements"`
	Violations    []Case         `json:"violations"`
	NotModelled   []string       `json:"not_modelled,omitempty"`
	Notes         []string       `json:"notes,omitempty"`
	WallS         float64        `json:"wall_s"`
}

type Ctx struct {
	Tier     string
	Seed     int64
	Rng      *rand.Rand
	Res      *Result
	seen     map[[16]byte]struct{}
	maxCases int
	perSig   map[string]int
}

func (c *Ctx) Thorough() bool { return c.Tier == "thorough" }

// N picks a case count by tier.
func (c *Ctx) N(quick, thorough int) int {
	if c.Thorough() {
		return thorough
	}
	return quick
}

// Count records one evaluation; key identifies the case for distinctness,
// nontrivial says whether it counts by the property's rule.
func (c *Ctx) Count(key string, nontrivial bool) {
	c.Res.Evaluations++
	if !nontrivial {
		return
	}
	h := sha256.Sum256([]byte(key))
	var k [16]byte
	copy(k[:], h[:16])
	if _, ok := c.seen[k]; !ok {
		c.seen[k] = struct{}{}
		c.Res.Distinct++
	}
}

func (c *Ctx) Stat(k string)        { c.Res.Stats[k]++ }
func (c *Ctx) StatN(k string, n int) { c.Res.Stats[k] += n }

func (c *Ctx) Sample(v any) {
	if len(c.Res.Samples) < 8 {
		if m, ok := v.(map[string]string); ok {
			for k, s := range m {
				if len(s) > 240 {
					m[k] = s[:200] + fmt.Sprintf("...(%d chars)", len(s))
				}
			}
		}
		c.Res.Samples = append(c.Res.Samples, v)
	}
}

func (c *Ctx) Disagree(cs Case) {
	if cs.Kind == "" {
		cs.Kind = "model-mismatch"
	}
	if len(c.Res.Disagreements) < c.maxCases {
		c.Res.Disagreements = append(c.Res.Disagreements, cs)
	}
	c.Stat("disagreements")
}

func (c *Ctx) Violate(cs Case) {
	// keep a few cases per signature so that every distinct failure is reported
	key := cs.Entry + "|" + cs.Kind + "|" + cs.Frame + "|" + cs.Class
	if c.perSig == nil {
		c.perSig = map[string]int{}
	}
	c.perSig[key]++
	if c.perSig[key] <= 3 && len(c.Res.Violations) < 4*c.maxCases {
		c.Res.Violations = append(c.Res.Violations, cs)
	}
	c.Stat("violations")
}

var props = map[string]func(*Ctx) error{}

// auxiliary developer commands: vh <cmd> <arg>
var cmds = map[string]func(args []string){}

func hexs(b []byte) string {
	if len(b) == 0 {
		return "-"
	}
	return hex.EncodeToString(b)
}

func unhex(s string) []byte {
	if s == "-" || s == "" {
		return nil
	}
	b, err := hex.DecodeString(s)
	if err != nil {
		panic(err)
	}
	return b
}

func main() {
	if len(os.Args) < 3 {
		fmt.Fprintln(os.Stderr, "usage: vh run <property> [--tier t] [--seed n] [--out f]")
		os.Exit(2)
	}
	cmd, prop := os.Args[1], os.Args[2]
	if cmd == "worker" {
		runWorker()
		return
	}
	if f, ok := cmds[cmd]; ok {
		f(os.Args[2:])
		return
	}
	fs := flag.NewFlagSet("vh", flag.ExitOnError)
	tier := fs.String("tier", "quick", "")
	seed := fs.Int64("seed", 1, "")
	out := fs.String("out", "", "")
	fs.Parse(os.Args[3:])
	switch cmd {
	case "run":
		f, ok := props[prop]
		if !ok {
			fmt.Fprintln(os.Stderr, "unknown property", prop)
			os.Exit(2)
		}
		t0 := time.Now()
		ctx := &Ctx{Tier: *tier, Seed: *seed, Rng: rand.New(rand.NewSource(*seed)),
			Res:  &Result{Property: prop, Tier: *tier, Seed: *seed, Stats: map[string]int{}, Samples: []any{}, Disagreements: []Case{}, Violations: []Case{}},
			seen: map[[16]byte]struct{}{}, maxCases: 40}
		if err := f(ctx); err != nil {
			fmt.Fprintln(os.Stderr, "harness error:", err)
			os.Exit(3)
		}
		ctx.Res.WallS = time.Since(t0).Seconds()
		sortCases(ctx.Res.Disagreements)
		sortCases(ctx.Res.Violations)
		js, _ := json.MarshalIndent(ctx.Res, "", " ")
		if *out != "" {
			if err := os.WriteFile(*out, js, 0o644); err != nil {
				fmt.Fprintln(os.Stderr, err)
				os.Exit(3)
			}
		} else {
			os.Stdout.Write(js)
		}
	case "list":
		var ks []string
		for k := range props {
			ks = append(ks, k)
		}
		sort.Strings(ks)
		for _, k := range ks {
			fmt.Println(k)
		}
	default:
		fmt.Fprintln(os.Stderr, "unknown command", cmd)
		os.Exit(2)
	}
}

// shortest inputs first: the smallest case is the replay
func sortCases(cs []Case) {
	sort.SliceStable(cs, func(i, j int) bool { return len(cs[i].Input) < len(cs[j].Input) })
}
