package main

// ISOBMFF (C11): box-tree generator, the instrumented run of isobmff.Reader (worker op "bmff"), and the
// expectation computed from the tree itself.

import (
	"bufio"
	"bytes"
	"encoding/binary"
	"fmt"
	"io"
	"strings"

	"github.com/evanoberholster/imagemeta/isobmff"
	"github.com/evanoberholster/imagemeta/meta"
)

// ---------- tree ----------

type bnode struct {
	typ     string
	prefix  []byte // bytes between the header and the children (uuid, FullBox flags, ...)
	payload []byte // leaf content (after prefix)
	kids    []*bnode
	large   bool // 64-bit size form
	delta   int  // declared size = actual size + delta (malformed when != 0)
	tag     string
}

func (n *bnode) body() []byte {
	b := append([]byte{}, n.prefix...)
	b = append(b, n.payload...)
	for _, k := range n.kids {
		b = append(b, k.bytes()...)
	}
	return b
}

func (n *bnode) hdrLen() int {
	if n.large {
		return 16
	}
	return 8
}

func (n *bnode) bytes() []byte {
	body := n.body()
	size := n.hdrLen() + len(body) + n.delta
	var b []byte
	if n.large {
		b = binary.BigEndian.AppendUint32(b, 1)
		b = append(b, n.typ...)
		b = binary.BigEndian.AppendUint64(b, uint64(int64(size)))
	} else {
		b = binary.BigEndian.AppendUint32(b, uint32(size))
		b = append(b, n.typ...)
	}
	return append(b, body...)
}

var (
	uuidCR3Meta = []byte{0x85, 0xc0, 0xb6, 0x87, 0x82, 0x0f, 0x11, 0xe0, 0x81, 0x11, 0xf4, 0xce, 0x46, 0x2b, 0x6a, 0x48}
	uuidXPacket = []byte{0xbe, 0x7a, 0xcf, 0xcb, 0x97, 0xa9, 0x42, 0xe8, 0x9c, 0x71, 0x99, 0x94, 0x91, 0xe3, 0xaf, 0xac}
	uuidPreview = []byte{0xea, 0xf4, 0x2b, 0x5e, 0x1c, 0x98, 0x4b, 0x88, 0xb9, 0xfb, 0xb7, 0xdc, 0x40, 0x6e, 0x4d, 0x16}
)

func rbytes(c *Ctx, n int) []byte {
	b := make([]byte, n)
	c.Rng.Read(b)
	return b
}

func unknownBox(c *Ctx, maxLen int) *bnode {
	t := []string{"free", "skip", "wide", "mvhd", "CCTP", "THMB", "abcd", "zzzz", "dinf", "colr"}[c.Rng.Intn(10)]
	return &bnode{typ: t, payload: rbytes(c, c.Rng.Intn(maxLen+1)), large: c.Rng.Intn(12) == 0}
}

// a CMT payload: TIFF header + random directory-like bytes
func cmtPayload(c *Ctx, n int) []byte {
	var b []byte
	switch c.Rng.Intn(5) {
	case 0:
		b = []byte("MM\x00*\x00\x00\x00\x08")
	case 1:
		b = append([]byte("II*\x00"), byte(8+c.Rng.Intn(40)), 0, 0, 0)
	case 2:
		b = rbytes(c, 8) // not a TIFF header
	default:
		b = []byte("II*\x00\x08\x00\x00\x00")
	}
	return append(b, rbytes(c, n)...)
}

type bmffTree struct {
	top []*bnode
}

func (t *bmffTree) bytes() []byte {
	var b []byte
	for _, n := range t.top {
		b = append(b, n.bytes()...)
	}
	return b
}

func ftypBox(c *Ctx) *bnode {
	brands := []string{"crx ", "heic", "avif", "mif1", "isom", "miaf", "xxxx", "MiHB"}
	p := []byte(brands[c.Rng.Intn(len(brands))])
	p = append(p, 0, 0, 0, byte(c.Rng.Intn(3)))
	for i := 0; i < c.Rng.Intn(10); i++ {
		p = append(p, brands[c.Rng.Intn(len(brands))]...)
	}
	return &bnode{typ: "ftyp", payload: p, tag: "ftyp"}
}

func cr3MetaUUID(c *Ctx) *bnode {
	n := &bnode{typ: "uuid", prefix: uuidCR3Meta, tag: "cr3meta"}
	kinds := []string{"CNCV", "CCTP", "CTBO", "CMT1", "CMT2", "CMT3", "CMT4", "THMB", "unk"}
	cnt := 3 + c.Rng.Intn(7)
	for i := 0; i < cnt; i++ {
		k := kinds[c.Rng.Intn(len(kinds))]
		switch k {
		case "CNCV":
			n.kids = append(n.kids, &bnode{typ: "CNCV", payload: rbytes(c, []int{30, 30, 30, 10, 40}[c.Rng.Intn(5)])})
		case "CTBO":
			cntIt := c.Rng.Intn(7)
			p := binary.BigEndian.AppendUint32(nil, uint32([]int{cntIt, cntIt, 200}[c.Rng.Intn(3)]))
			for j := 0; j < cntIt; j++ {
				p = binary.BigEndian.AppendUint32(p, uint32([]int{j + 1, j + 1, 0, 6, 0xffffffff}[c.Rng.Intn(5)]))
				p = binary.BigEndian.AppendUint64(p, uint64(1+c.Rng.Intn(1000)))
				p = binary.BigEndian.AppendUint64(p, uint64(1+c.Rng.Intn(1000)))
			}
			if c.Rng.Intn(6) == 0 {
				p = p[:c.Rng.Intn(len(p)+1)]
			}
			n.kids = append(n.kids, &bnode{typ: "CTBO", payload: p})
		case "CMT1", "CMT2", "CMT3", "CMT4":
			ln := []int{0, 4, 8, 9, 30, 200, 1500, 5000}[c.Rng.Intn(8)]
			n.kids = append(n.kids, &bnode{typ: k, payload: cmtPayload(c, ln), tag: "cmt", large: c.Rng.Intn(15) == 0})
		default:
			n.kids = append(n.kids, unknownBox(c, 60))
		}
	}
	return n
}

func moovBox(c *Ctx) *bnode {
	n := &bnode{typ: "moov", tag: "moov"}
	if c.Rng.Intn(4) != 0 {
		n.kids = append(n.kids, cr3MetaUUID(c))
	}
	for i := 0; i < c.Rng.Intn(4); i++ {
		switch c.Rng.Intn(3) {
		case 0:
			n.kids = append(n.kids, &bnode{typ: "trak", kids: []*bnode{unknownBox(c, 30), unknownBox(c, 30)}})
		case 1:
			n.kids = append(n.kids, &bnode{typ: "uuid", prefix: rbytes(c, 16), payload: rbytes(c, c.Rng.Intn(50))})
		default:
			n.kids = append(n.kids, unknownBox(c, 80))
		}
	}
	c.Rng.Shuffle(len(n.kids), func(i, j int) { n.kids[i], n.kids[j] = n.kids[j], n.kids[i] })
	return n
}

func xpacketBox(c *Ctx) *bnode {
	x := []byte("<?xpacket begin='' id='W5M0MpCehiHzreSzNTczkc9d'?><x:xmpmeta xmlns:x=\"adobe:ns:meta/\"><rdf:RDF xmlns:rdf=\"http://www.w3.org/1999/02/22-rdf-syntax-ns#\"><rdf:Description rdf:about=\"\" xmlns:xmp=\"http://ns.adobe.com/xap/1.0/\" xmp:Rating=\"3\"/></rdf:RDF></x:xmpmeta>")
	x = append(x, bytes.Repeat([]byte(" "), []int{0, 10, 300, 3000, 6000}[c.Rng.Intn(5)])...)
	x = append(x, "<?xpacket end='w'?>"...)
	return &bnode{typ: "uuid", prefix: uuidXPacket, payload: x, tag: "xpacket", large: c.Rng.Intn(10) == 0}
}

func previewBox(c *Ctx) *bnode {
	img := rbytes(c, []int{0, 1, 100, 2047, 2048, 2049, 5000, 9000}[c.Rng.Intn(8)])
	declared := len(img)
	switch c.Rng.Intn(8) {
	case 0:
		declared += 1 + c.Rng.Intn(100)
	case 1:
		declared -= c.Rng.Intn(declared + 1)
	case 2:
		if c.Rng.Intn(4) == 0 {
			declared = 0x7fffffff
		}
	}
	hdr := make([]byte, 24-8) // after the 8-byte PRVW box header: 16 bytes to make the 24-byte peek window
	binary.BigEndian.PutUint16(hdr[14-8:], uint16(c.Rng.Intn(4000)))
	binary.BigEndian.PutUint16(hdr[16-8:], uint16(c.Rng.Intn(4000)))
	binary.BigEndian.PutUint32(hdr[20-8:], uint32(declared))
	prvw := &bnode{typ: "PRVW", payload: append(hdr, img...), tag: "prvw"}
	if c.Rng.Intn(10) == 0 {
		prvw.typ = "PRVX"
	}
	return &bnode{typ: "uuid", prefix: append(append([]byte{}, uuidPreview...), rbytes(c, 8)...), kids: []*bnode{prvw}, payload: nil, tag: "preview"}
}

// HEIF-style meta box with an Exif item located in a following mdat
func metaAndMdat(c *Ctx, at int) []*bnode {
	full := func(v byte) []byte { return []byte{v, 0, 0, 0} }
	hdlr := &bnode{typ: "hdlr", prefix: full(0), payload: append([]byte{0, 0, 0, 0}, append([]byte([]string{"pict", "vide", "meta", "xxxx"}[c.Rng.Intn(4)]), rbytes(c, c.Rng.Intn(20))...)...)}
	if c.Rng.Intn(8) == 0 {
		hdlr.payload = hdlr.payload[:c.Rng.Intn(8)]
	}
	pitm := &bnode{typ: "pitm", prefix: full(0), payload: []byte{0, byte(1 + c.Rng.Intn(3))}}
	if c.Rng.Intn(8) == 0 {
		pitm.prefix, pitm.payload = nil, rbytes(c, c.Rng.Intn(6))
	}
	exifID := uint16(1 + c.Rng.Intn(5))
	infe := func(id uint16, typ string, ver byte, extra []byte) *bnode {
		p := binary.BigEndian.AppendUint16(nil, id)
		p = append(p, 0, 0)
		p = append(p, typ...)
		p = append(p, extra...)
		return &bnode{typ: "infe", prefix: full(ver), payload: p}
	}
	iinf := &bnode{typ: "iinf", prefix: append(full(0), 0, 3)}
	iinf.kids = append(iinf.kids, infe(9, "hvc1", 2, []byte{0}))
	if c.Rng.Intn(8) != 0 {
		iinf.kids = append(iinf.kids, infe(exifID, "Exif", []byte{2, 2, 2, 1, 3}[c.Rng.Intn(5)], []byte{0}))
	}
	if c.Rng.Intn(2) == 0 {
		iinf.kids = append(iinf.kids, infe(7, "mime", 2, [][]byte{[]byte("\x00application/rdf+xml\x00"), {0}, {}, {0, 'a'}, {0, 'a', 0}}[c.Rng.Intn(5)]))
	}
	c.Rng.Shuffle(len(iinf.kids), func(i, j int) { iinf.kids[i], iinf.kids[j] = iinf.kids[j], iinf.kids[i] })
	iref := &bnode{typ: "iref", prefix: full(0), kids: []*bnode{{typ: "cdsc", payload: rbytes(c, 6)}, {typ: "thmb", payload: rbytes(c, 6)}}}
	iprp := &bnode{typ: "iprp", kids: []*bnode{{typ: "ipco", kids: []*bnode{{typ: "ispe", payload: rbytes(c, 12)}}}, {typ: "ipma", payload: rbytes(c, 4+c.Rng.Intn(12))}}}
	idat := &bnode{typ: "idat", payload: rbytes(c, []int{8, 8, 4, 20}[c.Rng.Intn(4)])}

	// iloc: version 0/1, sizes
	ver := byte(c.Rng.Intn(2))
	osz, lsz, bsz := 4, 4, 0
	switch c.Rng.Intn(8) {
	case 0:
		osz, lsz, bsz = 8, 8, 4
	case 1:
		osz, lsz = 2, 2
	case 2:
		osz = []int{0, 3, 5, 15}[c.Rng.Intn(4)]
	case 3:
		lsz = []int{0, 3, 7}[c.Rng.Intn(3)]
	case 4:
		bsz = []int{1, 2, 8, 3}[c.Rng.Intn(4)]
	}
	putN := func(b []byte, n int, v uint64) []byte {
		for i := n - 1; i >= 0; i-- {
			b = append(b, byte(v>>(8*uint(i))))
		}
		return b
	}
	exifItem := append([]byte{0, 0, 0, 6, 'E', 'x', 'i', 'f', 0, 0}, cmtPayload(c, []int{0, 2, 8, 40, 600}[c.Rng.Intn(5)])...)
	if c.Rng.Intn(10) == 0 {
		exifItem = exifItem[:c.Rng.Intn(len(exifItem)+1)]
	}
	// extent counts: mostly one extent per item; sometimes none, or several (only the first is used by the reader)
	extentCounts := [3]int{1, 1, 1}
	extraItem := -1
	if c.Rng.Intn(3) == 0 {
		extraItem = c.Rng.Intn(3)
	}
	for k := range extentCounts {
		switch c.Rng.Intn(12) {
		case 0, 1:
			extentCounts[k] = 0
		case 2:
			extentCounts[k] = 2
		case 3:
			extentCounts[k] = 3
		}
	}
	extentFill := rbytes(c, 32)
	if c.Rng.Intn(2) == 0 {
		extentFill = make([]byte, 32)
	}
	build := func(exifOff uint64) *bnode {
		p := []byte{byte(osz<<4 | lsz), byte(bsz << 4)}
		items := [][3]uint64{{9, 5000, 100}, {uint64(exifID), exifOff, uint64(len(exifItem))}}
		if c.Rng.Intn(2) == 0 {
			items[0], items[1] = items[1], items[0]
		}
		if extraItem >= 0 {
			// a third item (no extents, or several) at a position of its own
			items = append(items, [3]uint64{11, 7000, 50})
			items[extraItem], items[2] = items[2], items[extraItem]
		}
		p = binary.BigEndian.AppendUint16(p, uint16(len(items)))
		for k, it := range items {
			p = binary.BigEndian.AppendUint16(p, uint16(it[0]))
			if ver > 0 {
				p = append(p, 0, 0)
			}
			p = append(p, 0, 0)
			p = putN(p, bsz, 0)
			cnt := extentCounts[k]
			p = append(p, 0, byte(cnt))
			for j := 0; j < cnt; j++ {
				if j == 0 {
					p = putN(p, osz, it[1])
					p = putN(p, lsz, it[2])
				} else {
					p = append(p, extentFill[:osz+lsz]...)
				}
			}
		}
		return &bnode{typ: "iloc", prefix: full(ver), payload: p}
	}
	kids := []*bnode{hdlr, pitm, iinf, iref, iprp, idat, nil}
	if c.Rng.Intn(3) == 0 {
		kids = append(kids, unknownBox(c, 30))
	}
	metaN := &bnode{typ: "meta", prefix: full(0), tag: "meta"}
	mk := func(off uint64) {
		kids[6] = build(off)
		metaN.kids = kids
	}
	mk(0)
	if c.Rng.Intn(10) == 0 {
		// truncate the iloc payload: entries end early
		il := kids[6]
		il.payload = il.payload[:c.Rng.Intn(len(il.payload)+1)]
	}
	metaLen := len(metaN.bytes())
	lead := rbytes(c, 8+c.Rng.Intn(300))
	for i := range lead {
		if lead[i] == 'E' {
			lead[i] = 'e'
		}
	}
	// offset of the Exif item in the file: after meta, the mdat header and the leading media bytes
	off := uint64(at + metaLen + 8 + len(lead))
	switch c.Rng.Intn(10) {
	case 0:
		off = uint64(c.Rng.Intn(at + metaLen + 1)) // points before the mdat
	case 1:
		off += uint64(1 + c.Rng.Intn(5000)) // points beyond
	}
	trunc := len(kids[6].payload)
	mk(off)
	if trunc < len(kids[6].payload) {
		kids[6].payload = kids[6].payload[:trunc]
	}
	mdat := &bnode{typ: "mdat", payload: append(append(lead, exifItem...), rbytes(c, c.Rng.Intn(100))...), tag: "mdat", large: c.Rng.Intn(6) == 0}
	return []*bnode{metaN, mdat}
}

// collect all nodes (for malformation)
func (n *bnode) walk(f func(*bnode)) {
	f(n)
	for _, k := range n.kids {
		k.walk(f)
	}
}

// genBmff: style 0 = CR3-like, 1 = HEIF-like, 2 = mixed
func genBmff(c *Ctx, malformed bool) *bmffTree {
	t := &bmffTree{}
	t.top = append(t.top, ftypBox(c))
	style := c.Rng.Intn(3)
	pos := func() int { return len(t.bytes()) }
	if c.Rng.Intn(3) == 0 {
		t.top = append(t.top, unknownBox(c, 100))
	}
	if style == 0 || style == 2 {
		t.top = append(t.top, moovBox(c))
		if c.Rng.Intn(4) == 0 {
			t.top = append(t.top, unknownBox(c, 5000))
		}
		t.top = append(t.top, xpacketBox(c))
		t.top = append(t.top, previewBox(c))
	}
	if style == 1 || style == 2 {
		t.top = append(t.top, metaAndMdat(c, pos())...)
	}
	if c.Rng.Intn(3) == 0 {
		t.top = append(t.top, &bnode{typ: "mdat", payload: rbytes(c, c.Rng.Intn(300)), large: true})
	}
	if c.Rng.Intn(4) == 0 {
		// a last box shorter than the 16 bytes the header reader looks at
		t.top = append(t.top, &bnode{typ: "free", payload: make([]byte, c.Rng.Intn(8))})
	}
	if c.Rng.Intn(4) == 0 {
		// pad so that some box ends exactly at the 4096-byte window of the bufio.Reader
		var all []*bnode
		for _, n := range t.top[1:] {
			n.walk(func(x *bnode) { all = append(all, x) })
		}
		target := all[c.Rng.Intn(len(all))]
		// locate the end offset of target
		marker := target.bytes()
		full := t.bytes()
		if i := bytes.Index(full, marker); i >= 0 {
			end := i + len(marker)
			if end < 4096-16 {
				pad := &bnode{typ: "free", payload: make([]byte, 4096-end-8)}
				t.top = append([]*bnode{t.top[0], pad}, t.top[1:]...)
			}
		}
	}
	if malformed && c.Rng.Intn(3) == 0 {
		// a whole chain of boxes overstating their sizes: a payload box (CMT / PRVW / xpacket) and every box around it except
		// the outermost claim more than the outermost holds
		var chains [][]*bnode
		var rec func(n *bnode, path []*bnode)
		rec = func(n *bnode, path []*bnode) {
			path = append(append([]*bnode{}, path...), n)
			if n.tag == "cmt" || n.tag == "prvw" || n.tag == "xpacket" {
				chains = append(chains, path)
			}
			for _, k := range n.kids {
				rec(k, path)
			}
		}
		for _, n := range t.top[1:] {
			rec(n, nil)
		}
		if len(chains) > 0 {
			ch := chains[c.Rng.Intn(len(chains))]
			for _, n := range ch[1:] {
				n.delta = 200 + c.Rng.Intn(6000)
				n.tag += "!"
			}
			if len(ch) == 1 {
				ch[0].delta = 64 + c.Rng.Intn(400)
			}
			return t
		}
	}
	if malformed {
		var all []*bnode
		for _, n := range t.top {
			n.walk(func(x *bnode) { all = append(all, x) })
		}
		for i := 0; i < 1+c.Rng.Intn(2); i++ {
			n := all[c.Rng.Intn(len(all))]
			n.delta = []int{1, 7, 8, 100, 5000, -1, -4, -8, -n.hdrLen() - len(n.body()), 1 - n.hdrLen() - len(n.body()) + 1, 0x10000000}[c.Rng.Intn(11)]
			n.tag += "!"
		}
	}
	return t
}

// ---------- instrumented run of the real reader ----------

type countReader struct {
	r io.Reader
	n int
}

func (c *countReader) Read(p []byte) (int, error) {
	n, err := c.r.Read(p)
	c.n += n
	return n, err
}

type peekDiscarder interface {
	Peek(int) ([]byte, error)
	Discard(int) (int, error)
}

// drain r according to mode; returns the bytes obtained and the error to hand back
func cbConsume(mode string, r io.Reader) ([]byte, error) {
	switch mode {
	case "none":
		return nil, nil
	case "fail":
		b := make([]byte, 5)
		n, _ := io.ReadFull(r, b)
		return b[:n], errInjected
	case "k7":
		b := make([]byte, 7)
		n, _ := io.ReadFull(r, b)
		return b[:n], nil
	case "pd":
		pd, ok := r.(peekDiscarder)
		if !ok {
			return nil, fmt.Errorf("no Peek/Discard")
		}
		var out []byte
		for n := 512; n >= 1; {
			buf, err := pd.Peek(n)
			if err != nil {
				n /= 2
				continue
			}
			out = append(out, buf[:n]...)
			if _, err := pd.Discard(n); err != nil {
				break
			}
		}
		return out, nil
	}
	b, _ := io.ReadAll(r)
	return b, nil
}

func digest(b []byte) string {
	n := len(b)
	head := b
	if n > 6 {
		head = b[:6]
	}
	return fmt.Sprintf("%d:%d:%s", n, fnv32(b), hexs(head))
}

func bmffErr(err error) string {
	if err == nil {
		return "nil"
	}
	s := err.Error()
	switch {
	case strings.Contains(s, isobmff.ErrRemainLengthInsufficient.Error()):
		return "RemainInsufficient"
	case strings.Contains(s, isobmff.ErrWrongBoxType.Error()):
		return "WrongBoxType"
	case strings.Contains(s, "unexpectedly large box"):
		return "LargeBox"
	}
	if c := canonErr(err); c != "Injected" {
		return c
	}
	return "Other"
}

// runBmff: ReadFTYP, then ReadMetadata up to calls times (stops at the first error).
func runBmff(mode string, calls int, set string, data []byte) string {
	cr := &countReader{r: bytes.NewReader(data)}
	br := bufio.NewReaderSize(cr, 4096)
	pos := func() int { return cr.n - br.Buffered() }
	var ev []string
	r := isobmff.NewReader(br)
	defer r.Close()
	if strings.Contains(set, "e") {
		r.ExifReader = func(rd io.Reader, h meta.ExifHeader) error {
			b, err := cbConsume(mode, rd)
			ev = append(ev, fmt.Sprintf("exif(%d,%d,%d,%d,%d,%d,%s)", int(h.FirstIfd), int(h.ByteOrder), h.FirstIfdOffset, h.ExifLength, h.TiffHeaderOffset, int(h.ImageType), digest(b)))
			return err
		}
	}
	if strings.Contains(set, "x") {
		r.XMPReader = func(rd io.Reader) error {
			b, err := cbConsume(mode, rd)
			ev = append(ev, fmt.Sprintf("xmp(%s)", digest(b)))
			return err
		}
	}
	if strings.Contains(set, "p") {
		r.PreviewImageReader = func(rd io.Reader, h meta.PreviewHeader) error {
			b, err := cbConsume(mode, rd)
			ev = append(ev, fmt.Sprintf("prvw(%d,%d,%d,%s)", h.Size, h.Width, h.Height, digest(b)))
			return err
		}
	}
	err := r.ReadFTYP()
	ev = append(ev, fmt.Sprintf("ftyp=%s@%d", bmffErr(err), pos()))
	if err != nil {
		return strings.Join(ev, " ")
	}
	for i := 0; i < calls; i++ {
		err = r.ReadMetadata()
		ev = append(ev, fmt.Sprintf("md=%s@%d", bmffErr(err), pos()))
		if err != nil {
			break
		}
	}
	return strings.Join(ev, " ")
}

func init() {
	workerOps["bmff"] = func(a []string) string {
		var calls int
		fmt.Sscanf(a[1], "%d", &calls)
		return runBmff(a[0], calls, a[2], unhex(a[3]))
	}
}

// ---------- expectation from the tree (well-formed CR3-style trees, draining callbacks) ----------

func tiffOrder(p []byte) (order int, fio uint32) {
	switch string(p[:4]) {
	case "MM\x00*":
		return 2, binary.BigEndian.Uint32(p[4:8])
	case "II*\x00":
		return 1, binary.LittleEndian.Uint32(p[4:8])
	}
	return 0, binary.LittleEndian.Uint32(p[4:8])
}

// expectedBmff: the callbacks every payload must produce and the position after each top-level box.
// ok=false when the tree holds something whose handling is not determined by the property (wrong PRVW type, ...).
func expectedBmff(t *bmffTree, calls int) (string, bool) {
	var ev []string
	pos := 0
	total := len(t.bytes())
	for i, n := range t.top {
		sz := len(n.bytes())
		if i == 0 {
			pos += sz
			ev = append(ev, fmt.Sprintf("ftyp=nil@%d", pos))
			continue
		}
		if i > calls {
			break
		}
		if total-pos < 16 {
			// the header reader looks at 16 bytes: a last box shorter than that is reported as an error, nothing is consumed
			ev = append(ev, fmt.Sprintf("md=BufLength@%d", pos))
			return strings.Join(ev, " "), true
		}
		var uuids []*bnode
		switch n.tag {
		case "moov":
			for _, k := range n.kids {
				if k.typ == "uuid" {
					uuids = append(uuids, k)
				}
			}
		case "xpacket", "preview", "cr3meta":
			uuids = []*bnode{n}
		case "meta", "mdat":
			return "", false
		}
		for _, u := range uuids {
			switch u.tag {
			case "cr3meta":
				for _, cm := range u.kids {
					if cm.tag != "cmt" || len(cm.payload) < 16 {
						continue
					}
					p := cm.payload
					first := map[string]int{"CMT1": 1, "CMT2": 3, "CMT3": 6, "CMT4": 4}[cm.typ]
					order, fio := tiffOrder(p)
					ev = append(ev, fmt.Sprintf("exif(%d,%d,%d,%d,0,15,%s)", first, order, fio, len(p), digest(p[8:])))
				}
			case "xpacket":
				ev = append(ev, "xmp("+digest(u.payload)+")")
			case "preview":
				pv := u.kids[0]
				if pv.typ != "PRVW" {
					return "", false
				}
				p := pv.payload
				ev = append(ev, fmt.Sprintf("prvw(%d,%d,%d,%s)", binary.BigEndian.Uint32(p[12:16]), binary.BigEndian.Uint16(p[6:8]), binary.BigEndian.Uint16(p[8:10]), digest(p[16:])))
			}
		}
		pos += sz
		ev = append(ev, fmt.Sprintf("md=nil@%d", pos))
	}
	if len(t.top)-1 < calls {
		ev = append(ev, fmt.Sprintf("md=BufLength@%d", pos))
	}
	return strings.Join(ev, " "), true
}

// containment read off a run of the real reader: every ReadFTYP/ReadMetadata call starts at the position the previous one
// ended at; the box header found there declares the end; the call must not pass it, and must stand exactly there when it
// reports no error.
func checkMarks(data []byte, line string) string {
	pos := 0
	for _, tok := range strings.Fields(line) {
		if !(strings.HasPrefix(tok, "md=") || strings.HasPrefix(tok, "ftyp=")) {
			continue
		}
		at := strings.LastIndexByte(tok, '@')
		var p int
		fmt.Sscanf(tok[at+1:], "%d", &p)
		errName := tok[strings.IndexByte(tok, '=')+1 : at]
		if pos+16 <= len(data) {
			size := int64(binary.BigEndian.Uint32(data[pos:]))
			if size == 1 {
				size = int64(binary.BigEndian.Uint64(data[pos+8:]))
			}
			if size >= 0 {
				end := int64(pos) + size
				if size < 8 {
					end = int64(pos) // nothing of such a box may be consumed
				}
				if int64(p) > end {
					return fmt.Sprintf("%s: consumed up to %d, the box at %d ends at %d", tok, p, pos, end)
				}
				// a box that the file does not hold completely (truncated file) has no "next box" to stand at
				if errName == "nil" && int64(p) != end && end <= int64(len(data)) {
					return fmt.Sprintf("%s: no error but the reader stands at %d, the box at %d ends at %d", tok, p, pos, end)
				}
			}
		} else if p != pos {
			return fmt.Sprintf("%s: consumed %d bytes where no box header fits", tok, p-pos)
		}
		pos = p
	}
	return ""
}
