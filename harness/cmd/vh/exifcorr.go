package main

// Correspondence of the Lean Exif reader model (exif.run) with the real reader: the model reports exact raw
// values (rationals, date tuples, zones); finishModel turns them into the canonical form of canonExif by
// applying the library's own Go expressions (float32 division, time.Date, FixedZone, the accessor logic).

import (
	"bufio"
	"bytes"
	"fmt"
	"io"
	"math"
	"strconv"
	"strings"
	"time"

	"github.com/evanoberholster/imagemeta/exif2"
	"github.com/evanoberholster/imagemeta/exif2/ifds"
	"github.com/evanoberholster/imagemeta/imagetype"
	"github.com/evanoberholster/imagemeta/meta"
	"github.com/evanoberholster/imagemeta/meta/utils"
)

func atoiU(s string) uint64 { v, _ := strconv.ParseUint(s, 10, 64); return v }

func finRat32(v string) (float32, bool) {
	p := strings.Split(v, ".")
	if len(p) != 3 || p[0] == "Z" {
		return 0, false
	}
	n, d := uint32(atoiU(p[1])), uint32(atoiU(p[2]))
	if p[0] == "A" {
		f := float64(n) / float64(d)
		return float32(meta.Aperture(math.Round(math.Pow(math.Sqrt2, float64(f))*100) / 100)), true
	}
	return float32(n) / float32(d), true
}

func finDate(s string) time.Time {
	if s == "-" {
		return time.Time{}
	}
	p := strings.Split(s, ".")
	if len(p) != 6 {
		return time.Time{}
	}
	g := func(i int) int { return int(uint(atoiU(p[i]))) }
	return time.Date(g(0), time.Month(g(1)), g(2), g(3), g(4), g(5), 0, time.UTC)
}

// the accessor logic of exif2.Exif.ModifyDate / DateTimeOriginal / CreateDate
func finTime(v string) time.Time {
	p := strings.Split(v, "/")
	if len(p) != 3 {
		return time.Time{}
	}
	t := finDate(p[0])
	if ss := uint16(atoiU(p[1])); ss != 0 {
		t = t.Add(time.Duration(ss) * time.Millisecond)
	}
	var loc *time.Location
	switch {
	case p[2] == "U":
		loc = time.UTC
	case strings.HasPrefix(p[2], "F."):
		z := strings.SplitN(p[2], ".", 3)
		secs, _ := strconv.Atoi(z[1])
		loc = time.FixedZone(string(unhex(z[2])), secs)
	}
	if loc != nil {
		t = t.In(loc)
		_, offset := t.Zone()
		t = t.Add(time.Duration(offset) * -1 * time.Second)
	}
	return t
}

// finishModel: model line -> (error name, canonical fields, remaining stream length)
func finishModel(line string) (string, int) {
	f := strings.Fields(line)
	if len(f) == 0 {
		return line, -1
	}
	if f[0] == "panic" || f[0] == "fuel" || f[0] == "noexif" || f[0] == "err" {
		return line, -1
	}
	var sb strings.Builder
	sb.WriteString(f[0])
	w := func(k, v string) {
		if v != "" && v != "0" && v != "-" {
			fmt.Fprintf(&sb, " %s=%s", k, v)
		}
	}
	pos := -1
	for _, kv := range f[1:] {
		i := strings.IndexByte(kv, '=')
		k, v := kv[:i], kv[i+1:]
		switch k {
		case "pos":
			pos, _ = strconv.Atoi(v)
		case "alloc", "hazard":
		case "et", "fn", "fl", "fl35":
			if x, ok := finRat32(v); ok && x != 0 {
				w(k, f32(x))
			}
		case "lens":
			if v != "-" {
				p := strings.Split(v, ".")
				nz := false
				for _, e := range p {
					if e != "0" {
						nz = true
					}
				}
				if nz {
					w(k, "["+strings.Join(p, ",")+"]")
				}
			}
		case "tmod", "torig", "tcreate":
			w(k, canonTime(finTime(v)))
		case "lat", "lng":
			p := strings.SplitN(v, "/", 2)
			coord := 0.0
			if p[1] != "-" {
				a := strings.Split(p[1], ".")
				u := func(i int) float64 { return float64(uint32(atoiU(a[i]))) }
				coord = u(0) / u(1)
				coord += u(2) / u(3) / 60.0
				coord += u(4) / u(5) / 3600.0
			}
			if p[0] == "1" {
				coord = -1 * coord
			}
			if coord != 0 {
				w(k, f64(coord))
			}
		case "alt":
			p := strings.SplitN(v, "/", 2)
			var alt float32
			if p[1] != "-" {
				a := strings.Split(p[1], ".")
				alt = float32(uint32(atoiU(a[0]))) / float32(uint32(atoiU(a[1])))
			}
			if p[0] == "1" {
				alt = -1 * alt
			}
			if alt != 0 {
				w(k, f32(alt))
			}
		case "gpst":
			p := strings.SplitN(v, "/", 2)
			d := finDate(p[0])
			if secs := uint32(atoiU(p[1])); secs != 0 {
				d = d.Add(time.Duration(secs) * time.Second)
			}
			w(k, canonTime(d))
		default:
			w(k, v)
		}
	}
	return sb.String(), pos
}

// implExif runs one of the reader's entry variants on the real code.
//   parse                          exif2.Parse(bytes.Reader)
//   tiffbuf:<order>:<fi>:<it>      ifdReader.DecodeTiff on a 4096-byte bufio.Reader
//   tiffraw:<order>:<fi>:<it>      ifdReader.DecodeTiff on a plain reader
//   jpegifd:<order>:<fi>:<len>     ifdReader.DecodeJPEGIfd (bufio)
//   ifd:<order>:<fi>:<len>:<type>  ifdReader.DecodeIfd (bufio)
func implExif(entry string, b []byte) (canon string, pos int) {
	p := strings.Split(entry, ":")
	n := func(i int) uint32 { return uint32(atoiU(p[i])) }
	if p[0] == "parse" {
		rd := bytes.NewReader(b)
		e, err := exif2.Parse(rd)
		if canonErr(err) == "NoExif" {
			return "noexif", -1
		}
		return canonErr(err) + canonExif(e), rd.Len()
	}
	ir := exif2.NewIfdReader(exif2.Logger)
	defer ir.Close()
	var src io.Reader = bytes.NewReader(b)
	var br *bufio.Reader
	if p[0] != "tiffraw" {
		br = bufio.NewReaderSize(src, 4096)
		src = br
	}
	var err error
	h := meta.ExifHeader{ByteOrder: utils.ByteOrder(n(1)), FirstIfdOffset: n(2), FirstIfd: ifds.IFD0}
	switch p[0] {
	case "tiffbuf", "tiffraw":
		h.ImageType = imagetype.ImageType(n(3))
		err = ir.DecodeTiff(src, h)
	case "jpegifd":
		h.ExifLength = n(3)
		h.ImageType = imagetype.ImageJPEG
		err = ir.DecodeJPEGIfd(src, h)
	case "ifd":
		h.ExifLength = n(3)
		h.FirstIfd = ifds.IfdType(n(4))
		err = ir.DecodeIfd(src, h)
	}
	rest, _ := io.ReadAll(src)
	return canonErr(err) + canonExif(ir.Exif), len(rest)
}

func init() {
	workerOps["exifimpl"] = func(a []string) string {
		c, pos := implExif(a[0], unhex(a[1]))
		return fmt.Sprintf("%s pos=%d", c, pos)
	}
}
