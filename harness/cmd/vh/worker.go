package main

// Crash isolation: operations that may die with a fatal signal (assembly touching memory, runtime
// fatal errors) or hang run in a child `vh worker` process. One request per line, one answer per line.
// When the child dies or exceeds the deadline the call reports "crash <why>" and a fresh child is started.

import (
	"bufio"
	"fmt"
	"io"
	"os"
	"os/exec"
	"strings"
	"time"
)

var workerOps = map[string]func(args []string) string{}

func runWorker() {
	sc := bufio.NewScanner(os.Stdin)
	sc.Buffer(make([]byte, 1<<20), 1<<28)
	// the protocol moves to a private descriptor; fds 1 and 2 go to a scratch file that is measured (C15)
	w := bufio.NewWriter(redirectStdio())
	for sc.Scan() {
		f := strings.Fields(sc.Text())
		res := "bad-op"
		if len(f) > 0 {
			if op, ok := workerOps[f[0]]; ok {
				p, fr, val := safely(func() { res = op(f[1:]) })
				if p {
					res = "panic " + fr + " " + strings.ReplaceAll(val, "\n", " ")
				}
			}
		}
		fmt.Fprintln(w, strings.ReplaceAll(res, "\n", " "))
		w.Flush()
	}
}

type Worker struct {
	cmd     *exec.Cmd
	in      io.WriteCloser
	out     *bufio.Reader
	Timeout time.Duration
	Env     []string
	Crashes int
}

func (w *Worker) start() error {
	w.cmd = exec.Command(os.Args[0], "worker", "-")
	w.cmd.Env = append(os.Environ(), w.Env...)
	var err error
	if w.in, err = w.cmd.StdinPipe(); err != nil {
		return err
	}
	o, err := w.cmd.StdoutPipe()
	if err != nil {
		return err
	}
	w.out = bufio.NewReaderSize(o, 1<<20)
	return w.cmd.Start()
}

func (w *Worker) kill() {
	if w.cmd != nil {
		w.in.Close()
		w.cmd.Process.Kill()
		w.cmd.Wait()
		w.cmd = nil
	}
}

func (w *Worker) Close() { w.kill() }

// Call sends one request; the answer is the worker's line, or "crash ..." / "hang".
func (w *Worker) Call(req string) string {
	if w.cmd == nil {
		if err := w.start(); err != nil {
			return "crash start: " + err.Error()
		}
	}
	if w.Timeout == 0 {
		w.Timeout = 10 * time.Second
	}
	if _, err := fmt.Fprintln(w.in, req); err != nil {
		w.kill()
		w.Crashes++
		return "crash write"
	}
	type ans struct {
		s   string
		err error
	}
	ch := make(chan ans, 1)
	go func() {
		s, err := w.out.ReadString('\n')
		ch <- ans{strings.TrimRight(s, "\n"), err}
	}()
	select {
	case a := <-ch:
		if a.err != nil {
			st := ""
			if w.cmd != nil {
				w.in.Close()
				err := w.cmd.Wait()
				if err != nil {
					st = err.Error()
				}
				w.cmd = nil
			}
			w.Crashes++
			return "crash " + st
		}
		return a.s
	case <-time.After(w.Timeout):
		w.kill()
		w.Crashes++
		return "hang"
	}
}
