package main

import (
	"fmt"
	"image"
	"image/color"
	"math"
	"sort"
	"strconv"
	"strings"

	"vh/internal/drv"

	"github.com/evanoberholster/imagemeta/imagehash"
	"github.com/evanoberholster/imagemeta/imagehash/transforms"
	"github.com/evanoberholster/imagemeta/imagehash/transforms32"
)

func init() { props["C19"] = runC19 }

// ---------- image construction ----------

type pixFn func(x, y int) (r, g, b uint8)

// mkImage builds an image of the given kind whose rectangle is (ox,oy)-(ox+w,oy+h), as a sub-image of a larger
// parent (so that stride > width and wrong reads land on other defined pixels) when sub is true.
func mkImage(kind string, w, h, ox, oy int, sub bool, f pixFn) image.Image {
	pw, ph, px, py := w, h, ox, oy
	if sub {
		pw, ph, px, py = w+ox+7, h+oy+5, 0, 0
	}
	full := image.Rect(px, py, px+pw, py+ph)
	want := image.Rect(ox, oy, ox+w, oy+h)
	rel := func(x, y int) (uint8, uint8, uint8) { return f(x-ox, y-oy) }
	switch kind {
	case "RGBA", "RGBAa":
		m := image.NewRGBA(full)
		for y := full.Min.Y; y < full.Max.Y; y++ {
			for x := full.Min.X; x < full.Max.X; x++ {
				r, g, b := rel(x, y)
				if kind == "RGBAa" && transparentAt(x-ox, y-oy) {
					m.SetRGBA(x, y, color.RGBA{}) // fully transparent (premultiplied colour 0): the slot must still be written
					continue
				}
				m.SetRGBA(x, y, color.RGBA{r, g, b, 255})
			}
		}
		if sub {
			return m.SubImage(want)
		}
		return m
	case "NRGBA", "NRGBAa":
		m := image.NewNRGBA(full)
		for y := full.Min.Y; y < full.Max.Y; y++ {
			for x := full.Min.X; x < full.Max.X; x++ {
				r, g, b := rel(x, y)
				a := uint8(255)
				if kind == "NRGBAa" && transparentAt(x-ox, y-oy) {
					a = 0 // fully transparent: premultiplied colour is 0, the slot must still be written
				}
				m.SetNRGBA(x, y, color.NRGBA{r, g, b, a})
			}
		}
		if sub {
			return m.SubImage(want)
		}
		return m
	case "Gray":
		m := image.NewGray(full)
		for y := full.Min.Y; y < full.Max.Y; y++ {
			for x := full.Min.X; x < full.Max.X; x++ {
				r, _, _ := rel(x, y)
				m.SetGray(x, y, color.Gray{r})
			}
		}
		if sub {
			return m.SubImage(want)
		}
		return m
	case "YCbCr444":
		m := image.NewYCbCr(full, image.YCbCrSubsampleRatio444)
		for y := full.Min.Y; y < full.Max.Y; y++ {
			for x := full.Min.X; x < full.Max.X; x++ {
				r, _, _ := rel(x, y)
				m.Y[m.YOffset(x, y)] = r
				m.Cb[m.COffset(x, y)] = 128
				m.Cr[m.COffset(x, y)] = 128
			}
		}
		if sub {
			return m.SubImage(want)
		}
		return m
	}
	panic("kind")
}

func transparentAt(x, y int) bool { return (x*3+y*5)%7 == 0 }

func contentFn(c *Ctx, s int) (string, pixFn) {
	switch c.Rng.Intn(6) {
	case 0:
		a, b := c.Rng.Float64()*3, c.Rng.Float64()*3
		return "smooth", func(x, y int) (uint8, uint8, uint8) {
			v := uint8(127 + 120*math.Sin(a*float64(x)/float64(s)*6.28)*math.Cos(b*float64(y)/float64(s)*6.28))
			return v, v, v
		}
	case 1:
		seed := c.Rng.Int63()
		return "noise", func(x, y int) (uint8, uint8, uint8) {
			h := uint64(seed) ^ uint64(x*7919+y*104729)*0x9E3779B97F4A7C15
			h ^= h >> 29
			h *= 0xBF58476D1CE4E5B9
			h ^= h >> 32
			return uint8(h), uint8(h >> 8), uint8(h >> 16)
		}
	case 2:
		v := uint8(c.Rng.Intn(256))
		return "constant", func(x, y int) (uint8, uint8, uint8) { return v, v, v }
	case 3:
		return "extreme", func(x, y int) (uint8, uint8, uint8) {
			if (x/8+y/8)%2 == 0 {
				return 255, 255, 255
			}
			return 0, 0, 0
		}
	case 4:
		k := 1 + c.Rng.Intn(5)
		return "gradient", func(x, y int) (uint8, uint8, uint8) {
			v := uint8((x*k + y*(6-k)) * 255 / (6 * s))
			return v, uint8(255 - int(v)), v / 2
		}
	default:
		cx, cy := c.Rng.Intn(s), c.Rng.Intn(s)
		return "blob", func(x, y int) (uint8, uint8, uint8) {
			d := math.Hypot(float64(x-cx), float64(y-cy))
			v := uint8(255 * math.Exp(-d*d/float64(s*s/8+1)))
			return v, v / 2, 255 - v
		}
	}
}

// ---------- the four entry points ----------

type hashFn struct {
	name string
	s    int
	alt  bool
	f    func(img image.Image) (words []uint64, err error)
}

func hashFns() []hashFn {
	return []hashFn{
		{"NewPHash64", 64, false, func(img image.Image) ([]uint64, error) { h, e := imagehash.NewPHash64(img); return []uint64{uint64(h)}, e }},
		{"NewPHash64Alt", 64, true, func(img image.Image) ([]uint64, error) { h, e := imagehash.NewPHash64Alt(img); return []uint64{uint64(h)}, e }},
		{"NewPHash256", 256, false, func(img image.Image) ([]uint64, error) { h, e := imagehash.NewPHash256(img); return h[:], e }},
		{"NewPHash256Alt", 256, true, func(img image.Image) ([]uint64, error) { h, e := imagehash.NewPHash256Alt(img); return h[:], e }},
	}
}

func joinU(v []uint64) string {
	p := make([]string, len(v))
	for i, x := range v {
		p[i] = strconv.FormatUint(x, 10)
	}
	return strings.Join(p, ",")
}

// library luminance formula on 8-bit channels (RGBA() returns v*257 for opaque pixels)
func lum(r, g, b uint8) float64 {
	R, G, B := uint32(r)*257, uint32(g)*257, uint32(b)*257
	return 0.299*float64(R/257) + 0.587*float64(G/257) + 0.114*float64(B/256)
}

// independent unscaled 2-D DCT-II of an s×s image, low n×n block, flattened as [n*v+u] (u horizontal frequency)
func dct2Low(p []float64, s, n int) []float64 {
	cosT := make([][]float64, n)
	for k := 0; k < n; k++ {
		cosT[k] = make([]float64, s)
		for x := 0; x < s; x++ {
			cosT[k][x] = math.Cos(float64(2*x+1) * float64(k) * math.Pi / float64(2*s))
		}
	}
	rows := make([]float64, s*n) // rows[y*n+u]
	for y := 0; y < s; y++ {
		for u := 0; u < n; u++ {
			acc := 0.0
			for x := 0; x < s; x++ {
				acc += p[y*s+x] * cosT[u][x]
			}
			rows[y*n+u] = acc
		}
	}
	out := make([]float64, n*n)
	for v := 0; v < n; v++ {
		for u := 0; u < n; u++ {
			acc := 0.0
			for y := 0; y < s; y++ {
				acc += rows[y*n+u] * cosT[v][y]
			}
			out[n*v+u] = acc
		}
	}
	return out
}

func bitOf(words []uint64, i int) bool { return words[i/64]>>(63-uint(i%64))&1 == 1 }

func init() {
	workerOps["c19guard"] = func(a []string) string {
		var w, h int
		fmt.Sscan(a[2], &w)
		fmt.Sscan(a[3], &h)
		img := mkImage(a[1], w, h, 0, 0, false, func(x, y int) (uint8, uint8, uint8) { return uint8(x*3 + y), uint8(y), uint8(x) })
		for _, fn := range hashFns() {
			if fn.name == a[0] {
				if _, err := fn.f(img); err != nil {
					return "false"
				}
				return "true"
			}
		}
		return "bad-op"
	}
}

func runC19(c *Ctx) error {
	c.Res.Rule = "guard: every (w,h) in an 11x11 grid around 64/256 x 4 image kinds x 4 entry points + nil; index plan of the gray conversions for s in {4,8,64} at origins (0,0),(3,5),(8,8) incl. sub-images, RGBA/NRGBA/Gray, both float widths; hash bits vs the Lean bit-assembly model applied to the library's own exported coefficients and median; median vs the Lean quick-select model (bit-exact) and vs the sorted definition; bits vs an independent float64 DCT-II of independently computed luminance with margin tau; origin invariance; repeated calls and poisoned pools; primary vs alternative within tau; Hamming distance vs model. Non-trivial: every case; distinct by (entry, input)."
	var reqs, impl, entries []string
	var frames []string
	add := func(req, entry, im, frame string) {
		reqs = append(reqs, req)
		impl = append(impl, im)
		entries = append(entries, entry)
		frames = append(frames, frame)
	}
	fns := hashFns()
	wk := &Worker{}
	defer wk.Close()

	// ---- 1. size guard
	sizes := []int{0, 1, 8, 32, 63, 64, 65, 128, 255, 256, 257}
	kinds := []string{"RGBA", "Gray", "NRGBA", "YCbCr444"}
	for _, fn := range fns {
		for _, k := range kinds {
			for _, w := range sizes {
				for _, h := range sizes {
					if c.Tier == "quick" && k != "RGBA" && (w+h)%3 != 0 && !(w == fn.s && h == fn.s) {
						continue
					}
					// in a child process: the pinned tree ran the assembly on images of the wrong size
					ans := wk.Call(fmt.Sprintf("c19guard %s %s %d %d", fn.name, k, w, h))
					res, fr := ans, ""
					p := false
					if strings.HasPrefix(ans, "panic") {
						p = true
						f := strings.Fields(ans)
						if len(f) > 1 {
							fr = f[1]
						}
						res = "panic"
					} else if strings.HasPrefix(ans, "crash") || ans == "hang" {
						p = true
						res = "panic"
						fr = "fatal:" + ans
					}
					var err error
					if res == "false" {
						err = fmt.Errorf("rejected")
					}
					req := fmt.Sprintf("hash.guard %d 0 %d %d", fn.s, w, h)
					add(req, fn.name, res, fr)
					c.Stat("guard." + res)
					want := w == fn.s && h == fn.s
					if p || (err == nil) != want {
						kind := "wrong-value"
						if p {
							kind = "panic"
						}
						c.Violate(Case{Entry: fn.name, Input: fmt.Sprintf("%s %dx%d", k, w, h), Expected: fmt.Sprintf("accepted=%v", want), Actual: res, Kind: kind, Frame: fr, Class: "size-guard"})
					}
				}
			}
		}
		var err error
		p, fr, _ := safely(func() { _, err = fn.f(nil) })
		res := "true"
		if p {
			res = "panic"
		} else if err != nil {
			res = "false"
		}
		add(fmt.Sprintf("hash.guard %d 1 0 0", fn.s), fn.name, res, fr)
		if res != "false" {
			kind := "wrong-value"
			if p {
				kind = "panic"
			}
			c.Violate(Case{Entry: fn.name, Input: "nil image", Expected: "error", Actual: res, Kind: kind, Frame: fr, Class: "size-guard-nil"})
		}
	}

	// ---- 2. index plan of the gray conversions (position-coded images)
	for _, s := range []int{4, 8, 64} {
		for _, org := range [][2]int{{0, 0}, {3, 5}, {8, 8}} {
			for _, sub := range []bool{false, true} {
				for _, k := range []string{"RGBA", "NRGBA", "Gray"} {
					for _, wide := range []bool{false, true} {
						ox, oy := org[0], org[1]
						// two images: one encodes x, one encodes y (3 grey levels per step; s <= 64 -> < 256)
						encX := func(x, y int) (uint8, uint8, uint8) { v := uint8(((x % 80) + 80) % 80 * 3); return v, v, v }
						encY := func(x, y int) (uint8, uint8, uint8) { v := uint8(((y % 80) + 80) % 80 * 3); return v, v, v }
						decode := func(f pixFn) ([]int, bool, string) {
							img := mkImage(k, s, s, ox, oy, sub, f)
							out := make([]int, s*s)
							var fr string
							var p bool
							if wide {
								px := make([]float64, s*s)
								for i := range px {
									px[i] = -1
								}
								p, fr, _ = safely(func() { transforms.Rgb2GrayFast(img, &px) })
								for i, v := range px {
									out[i] = int(math.Round(v / 3))
									if v < 0 {
										out[i] = -1
									}
								}
							} else {
								px := make([]float32, s*s)
								for i := range px {
									px[i] = -1
								}
								p, fr, _ = safely(func() { transforms32.ImageToGray(img, &px) })
								for i, v := range px {
									out[i] = int(math.Round(float64(v) / 3))
									if v < 0 {
										out[i] = -1
									}
								}
							}
							return out, p, fr
						}
						xs, p1, fr1 := decode(encX)
						ys, p2, fr2 := decode(encY)
						entry := "transforms32.ImageToGray"
						if wide {
							entry = "transforms.Rgb2GrayFast"
						}
						var parts []string
						res := ""
						if p1 || p2 {
							res = "panic"
						} else {
							for i := range xs {
								if xs[i] < 0 || ys[i] < 0 {
									parts = append(parts, fmt.Sprintf("%d:unwritten", i))
								} else {
									// decoded coordinates are relative to the rectangle's corner; report absolute
									parts = append(parts, fmt.Sprintf("%d:%d:%d", i, xs[i]+ox, ys[i]+oy))
								}
							}
							res = strings.Join(parts, ",")
						}
						req := fmt.Sprintf("hash.plan %d %d %d", s, ox, oy)
						add(req, entry, res, fr1+fr2)
						c.Stat("plan")
					}
				}
			}
		}
	}

	// ---- 3. bits, median, independent DCT, origin invariance, repeats, primary vs alternative
	nimg := c.N(40, 600)
	for it := 0; it < nimg; it++ {
		for _, fn := range fns {
			if fn.s == 256 && it%4 != 0 && c.Tier == "quick" {
				continue
			}
			s := fn.s
			n := 8
			if s == 256 {
				n = 16
			}
			k := []string{"RGBA", "NRGBA", "Gray", "YCbCr444", "NRGBAa"}[c.Rng.Intn(5)]
			cname, f := contentFn(c, s)
			img := mkImage(k, s, s, 0, 0, false, f)
			c.Stat("content." + cname)
			c.Stat("kind." + k)
			var words []uint64
			var err error
			p, fr, _ := safely(func() { words, err = fn.f(img) })
			if p || err != nil {
				c.Violate(Case{Entry: fn.name, Input: fmt.Sprintf("%s %s %dx%d", k, cname, s, s), Expected: "a hash", Actual: fmt.Sprint("panic=", p, " err=", err), Kind: map[bool]string{true: "panic", false: "wrong-value"}[p], Frame: fr, Class: "exact-size-rejected"})
				continue
			}
			// (a) glue: model bit assembly on the library's own coefficients and median
			var coefBits []string
			var medBits string
			ty := "f64"
			var libCoef []float64
			var libMed float64
			if !fn.alt {
				px := make([]float64, s*s)
				transforms.Rgb2GrayFast(img, &px)
				if s == 64 {
					fl := transforms.DCT2DHash64(&px)
					libMed = transforms.MedianOfPixels64(fl[:])
					libCoef = fl[:]
				} else {
					fl := transforms.DCT2DHash256(&px)
					libMed = transforms.MedianOfPixels256(fl[:])
					libCoef = fl[:]
				}
				for _, v := range libCoef {
					coefBits = append(coefBits, strconv.FormatUint(math.Float64bits(v), 10))
				}
				medBits = strconv.FormatUint(math.Float64bits(libMed), 10)
			} else {
				ty = "f32"
				px := make([]float32, s*s)
				transforms32.ImageToGray(img, &px)
				var fl32 []float32
				var m32 float32
				if s == 64 {
					fl := transforms32.DCT2DHash64(px)
					m32 = transforms32.MedianOfPixels64(fl[:])
					fl32 = fl[:]
				} else {
					fl := transforms32.DCT2DHash256(&px)
					m32 = transforms32.MedianOfPixels256(fl[:])
					fl32 = fl[:]
				}
				for _, v := range fl32 {
					coefBits = append(coefBits, strconv.FormatUint(uint64(math.Float32bits(v)), 10))
					libCoef = append(libCoef, float64(v))
				}
				libMed = float64(m32)
				medBits = strconv.FormatUint(uint64(math.Float32bits(m32)), 10)
			}
			cl := strings.Join(coefBits, ",")
			if s == 64 {
				add(fmt.Sprintf("hash.bits %s %s %s", ty, medBits, cl), fn.name, "ok "+joinU(words), "")
			} else {
				add(fmt.Sprintf("hash.words %s %s %s", ty, medBits, cl), fn.name, "ok "+joinU(words), "")
			}
			// (b) median: model (bit-exact) and sorted definition
			add(fmt.Sprintf("hash.median %s %s", ty, cl), "MedianOfPixels"+fmt.Sprint(n*n), "ok "+medBits, "")
			sorted := append([]float64{}, libCoef...)
			sort.Float64s(sorted)
			kk := len(sorted) / 2
			var defMed float64
			if fn.alt {
				defMed = float64(float32(sorted[kk-1])/2 + float32(sorted[kk])/2)
			} else {
				defMed = sorted[kk-1]/2 + sorted[kk]/2
			}
			c.Stat("spec.median")
			if defMed != libMed {
				c.Violate(Case{Entry: "MedianOfPixels" + fmt.Sprint(n*n), Input: cl, Expected: fmt.Sprint(defMed), Actual: fmt.Sprint(libMed), Kind: "wrong-value", Class: "median-definition"})
			}
			// (c) independent float64 DCT-II of independently computed luminance
			lumPx := make([]float64, s*s)
			for y := 0; y < s; y++ {
				for x := 0; x < s; x++ {
					r, g, b := f(x, y)
					if k == "Gray" || k == "YCbCr444" {
						g, b = r, r
					}
					if k == "NRGBAa" && transparentAt(x, y) {
						r, g, b = 0, 0, 0
					}
					lumPx[y*s+x] = lum(r, g, b)
				}
			}
			ref := dct2Low(lumPx, s, n)
			l1 := 0.0
			for _, v := range lumPx {
				l1 += math.Abs(v)
			}
			tau := 1e-9*l1 + 1e-9
			if fn.alt {
				tau = 3e-5*l1 + 1e-3
			}
			if k == "YCbCr444" {
				tau += 0.02 * l1 // the YCbCr path derives luminance through an integer RGB approximation
			}
			rs := append([]float64{}, ref...)
			sort.Float64s(rs)
			loM, hiM := rs[len(rs)/2-1], rs[len(rs)/2]
			c.Stat("spec.dct-threshold")
			for i, v := range ref {
				set := bitOf(words, i)
				if v >= hiM+tau && !set {
					c.Violate(Case{Entry: fn.name, Input: fmt.Sprintf("%s %s coefficient %d", k, cname, i), Expected: "bit set (c_i >= upper median + tau)", Actual: fmt.Sprintf("cleared; c=%g upper=%g tau=%g", v, hiM, tau), Kind: "wrong-value", Class: "upper-half-cleared"})
					break
				}
				if v <= loM-tau && set {
					c.Violate(Case{Entry: fn.name, Input: fmt.Sprintf("%s %s coefficient %d", k, cname, i), Expected: "bit cleared (c_i <= lower median - tau)", Actual: fmt.Sprintf("set; c=%g lower=%g tau=%g", v, loM, tau), Kind: "wrong-value", Class: "below-threshold-set"})
					break
				}
			}
			// (d) origin invariance (sub-image of a larger parent at a non-zero origin); since fix 42a0df6 also for the YCbCr fast path
			{
				ox, oy := 1+c.Rng.Intn(40), 1+c.Rng.Intn(40)
				img2 := mkImage(k, s, s, ox, oy, true, f)
				var w2 []uint64
				var e2 error
				p2, fr2, _ := safely(func() { w2, e2 = fn.f(img2) })
				c.Stat("spec.origin")
				differs := joinU(w2) != joinU(words)
				if differs && k == "YCbCr444" && !p2 && e2 == nil {
					// at the origin the assembly converts, elsewhere the portable code: the two agree within C20's tolerance, so
					// only coefficients away from the threshold must give the same bit
					thr := (loM + hiM) / 2
					t2 := 3e-5*l1 + 1e-3 + 0.02*l1
					differs = false
					for i, v := range ref {
						if bitOf(words, i) != bitOf(w2, i) && math.Abs(v-thr) > t2 && !(v >= loM-t2 && v <= hiM+t2) {
							differs = true
						}
					}
				}
				if p2 || e2 != nil || differs {
					c.Violate(Case{Entry: fn.name, Input: fmt.Sprintf("%s %s sub-image at (%d,%d)", k, cname, ox, oy), Expected: joinU(words), Actual: fmt.Sprint(joinU(w2), " panic=", p2, " err=", e2), Kind: map[bool]string{true: "panic", false: "wrong-value"}[p2], Frame: fr2, Class: "origin-dependent"})
				}
			}
			// (e) repeated calls and poisoned pools
			for _, pv := range []float64{math.NaN(), 1e30, -7} {
				imagehash.VerifPoisonPools(3, pv)
				w3, e3 := fn.f(img)
				c.Stat("spec.poison")
				if e3 != nil || joinU(w3) != joinU(words) {
					c.Violate(Case{Entry: fn.name, Input: fmt.Sprintf("%s %s after pool poison %v", k, cname, pv), Expected: joinU(words), Actual: joinU(w3), Kind: "wrong-value", Class: "history-dependent"})
				}
			}
			// (f) primary vs alternative differ only near the threshold
			other := fns[0]
			for _, o := range fns {
				if o.s == fn.s && o.alt != fn.alt {
					other = o
				}
			}
			wo, eo := other.f(img)
			if eo == nil {
				thr := (loM + hiM) / 2
				t2 := 3e-5*l1 + 1e-3
				if k == "YCbCr444" {
					t2 += 0.02 * l1
				}
				c.Stat("spec.primary-vs-alt")
				for i, v := range ref {
					if bitOf(words, i) != bitOf(wo, i) && math.Abs(v-thr) > t2 && !(v >= loM-t2 && v <= hiM+t2) {
						c.Violate(Case{Entry: fn.name + " vs " + other.name, Input: fmt.Sprintf("%s %s coefficient %d", k, cname, i), Expected: "same bit away from the threshold", Actual: fmt.Sprintf("differ; c=%g threshold=%g tau=%g", v, thr, t2), Kind: "wrong-value", Class: "primary-alt-disagree"})
						break
					}
				}
			}
			c.Count(fmt.Sprint(fn.name, it, k, cname), true)
		}
	}
	// tie-heavy medians (few distinct values) straight into the exported median functions
	for it := 0; it < c.N(300, 20000); it++ {
		n := 64
		if it%5 == 0 {
			n = 256
		}
		vals := make([]float64, n)
		nd := 1 + c.Rng.Intn(6)
		for i := range vals {
			vals[i] = float64(c.Rng.Intn(nd)) - 1.5
			if c.Rng.Intn(30) == 0 {
				vals[i] = c.Rng.NormFloat64() * 1e3
			}
		}
		var bits []string
		for _, v := range vals {
			bits = append(bits, strconv.FormatUint(math.Float64bits(v), 10))
		}
		var m float64
		if n == 64 {
			m = transforms.MedianOfPixels64(vals)
		} else {
			m = transforms.MedianOfPixels256(vals)
		}
		add("hash.median f64 "+strings.Join(bits, ","), "transforms.MedianOfPixels", "ok "+strconv.FormatUint(math.Float64bits(m), 10), "")
		sorted := append([]float64{}, vals...)
		sort.Float64s(sorted)
		if d := sorted[n/2-1]/2 + sorted[n/2]/2; d != m {
			c.Violate(Case{Entry: "transforms.MedianOfPixels", Input: strings.Join(bits, ","), Expected: fmt.Sprint(d), Actual: fmt.Sprint(m), Kind: "wrong-value", Class: "median-definition"})
		}
		// float32 variant, arbitrary length through the hook (odd lengths, length 1 and 2 included)
		ln := 1 + c.Rng.Intn(70)
		v32 := make([]float32, ln)
		var b32 []string
		for i := range v32 {
			v32[i] = float32(c.Rng.Intn(nd)) - 1.5
			b32 = append(b32, strconv.FormatUint(uint64(math.Float32bits(v32[i])), 10))
		}
		cp := append([]float32{}, v32...)
		var m32 float32
		p, fr, _ := safely(func() { m32 = transforms32.VerifQuickSelectMedian(cp, 0, ln-1, ln/2) })
		r := "ok " + strconv.FormatUint(uint64(math.Float32bits(m32)), 10)
		if p {
			r = "panic"
		}
		add("hash.median f32 "+strings.Join(b32, ","), "transforms32.quickSelectMedian", r, fr)
	}

	// ---- 4. distances
	for it := 0; it < c.N(3000, 200000); it++ {
		a, b := c.Rng.Uint64(), c.Rng.Uint64()
		switch it % 7 {
		case 0:
			b = a
		case 1:
			b = ^a
		case 2:
			b = a ^ (1 << uint(c.Rng.Intn(64)))
		case 3:
			a, b = 0, math.MaxUint64
		}
		d := imagehash.PHash64(a).Distance(imagehash.PHash64(b))
		add(fmt.Sprintf("hash.dist64 %d %d", a, b), "PHash64.Distance", fmt.Sprintf("ok %d", d), "")
		if d2 := imagehash.PHash64(b).Distance(imagehash.PHash64(a)); d2 != d {
			c.Violate(Case{Entry: "PHash64.Distance", Input: fmt.Sprint(a, " ", b), Expected: "symmetric", Actual: fmt.Sprint(d, " vs ", d2), Kind: "wrong-value", Class: "metric"})
		}
		h1 := imagehash.PHash256{a, b, c.Rng.Uint64(), a ^ b}
		h2 := imagehash.PHash256{b, b, c.Rng.Uint64(), ^a}
		add(fmt.Sprintf("hash.dist256 %s %s", joinU(h1[:]), joinU(h2[:])), "PHash256.Distance", fmt.Sprintf("ok %d", h1.Distance(h2)), "")
	}

	model, err := drv.Batch(reqs)
	if err != nil {
		return err
	}
	for i, r := range reqs {
		c.Count(r, true)
		c.Stat("fn." + entries[i])
		if i%5000 == 0 {
			c.Sample(map[string]string{"op": r, "impl": impl[i], "model": model[i]})
		}
		if impl[i] != model[i] {
			cs := Case{Entry: entries[i], Input: r, Expected: model[i], Actual: impl[i], Frame: frames[i]}
			c.Disagree(cs)
			// the index plan and the median are also statements of the property itself
			if strings.HasPrefix(r, "hash.plan") {
				cs.Kind, cs.Class = "wrong-value", "gray-plan"
				if impl[i] == "panic" {
					cs.Kind = "panic"
				}
				c.Violate(cs)
			}
			if strings.HasPrefix(r, "hash.median") && impl[i] == "panic" {
				cs.Kind, cs.Class = "panic", "median"
				c.Violate(cs)
			}
		}
	}
	c.Res.NotModelled = []string{"the DCT itself (C18) and the YCbCr fast paths (C20): coefficients are taken from the library's exported functions for the glue comparison and from an independent float64 DCT-II for the threshold search",
		"numerical agreement of primary and alternative near the threshold: searched with margin tau, not proved"}
	return nil
}
