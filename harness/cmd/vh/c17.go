package main

import (
	"fmt"
	"strings"

	"vh/internal/drv"

	"github.com/evanoberholster/imagemeta/exif2/ifds"
	"github.com/evanoberholster/imagemeta/exif2/ifds/exififd"
	"github.com/evanoberholster/imagemeta/exif2/ifds/gpsifd"
	mkapple "github.com/evanoberholster/imagemeta/exif2/ifds/mknote/apple"
	mkcanon "github.com/evanoberholster/imagemeta/exif2/ifds/mknote/canon"
	mknikon "github.com/evanoberholster/imagemeta/exif2/ifds/mknote/nikon"
	mksony "github.com/evanoberholster/imagemeta/exif2/ifds/mknote/sony"
	"github.com/evanoberholster/imagemeta/exif2/tag"
	"github.com/evanoberholster/imagemeta/imagetype"
	"github.com/evanoberholster/imagemeta/isobmff"
	"github.com/evanoberholster/imagemeta/jpeg"
	"github.com/evanoberholster/imagemeta/meta"
	"github.com/evanoberholster/imagemeta/meta/canon"
	"github.com/evanoberholster/imagemeta/meta/utils"
	"github.com/evanoberholster/imagemeta/xmp/xmpns"
)

func init() { props["C17"] = runC17 }

type enumFn struct {
	lean string
	kind string // u8 u16 i8 i16 u32
	f    func(v int64) string
}

func c17Registry() []enumFn {
	return []enumFn{
		{"imagetype_ImageType_String", "u8", func(v int64) string { return imagetype.ImageType(v).String() }},
		{"imagetype_ImageType_Extension", "u8", func(v int64) string { return imagetype.ImageType(v).Extension() }},
		{"exif2_ifds_IfdType_String", "u8", func(v int64) string { return ifds.IfdType(v).String() }},
		{"exif2_ifds_CameraMake_String", "u16", func(v int64) string { return ifds.CameraMake(v).String() }},
		{"exif2_ifds_CameraModel_String", "u32", func(v int64) string { return ifds.CameraModel(v).String() }},
		{"exif2_ifds_mknote_sony_CameraModel_String", "u32", func(v int64) string { return mksony.CameraModel(v).String() }},
		{"exif2_ifds_mknote_nikon_CameraModel_String", "u32", func(v int64) string { return mknikon.CameraModel(v).String() }},
		{"exif2_ifds_mknote_apple_CameraModel_String", "u32", func(v int64) string { return mkapple.CameraModel(v).String() }},
		{"exif2_ifds_mknote_canon_CameraModel_String", "u32", func(v int64) string { return mkcanon.CameraModel(v).String() }},
		{"exif2_tag_Type_String", "u8", func(v int64) string { return tag.Type(v).String() }},
		{"exif2_tag_ID_String", "u16", func(v int64) string { return tag.ID(v).String() }},
		{"exif2_ifds_TagString", "u16", func(v int64) string { return ifds.TagString(tag.ID(v)) }},
		{"exif2_ifds_exififd_TagString", "u16", func(v int64) string { return exififd.TagString(tag.ID(v)) }},
		{"exif2_ifds_gpsifd_TagString", "u16", func(v int64) string { return gpsifd.TagString(tag.ID(v)) }},
		{"exif2_ifds_mknote_canon_TagCanonString", "u16", func(v int64) string { return mkcanon.TagCanonString(tag.ID(v)) }},
		{"exif2_ifds_mknote_nikon_TagNikonString", "u16", func(v int64) string { return mknikon.TagNikonString(tag.ID(v)) }},
		{"exif2_ifds_mknote_apple_TagAppleString", "u16", func(v int64) string { return mkapple.TagAppleString(tag.ID(v)) }},
		{"exif2_ifds_mknote_sony_TagSonyString", "u16", func(v int64) string { return mksony.TagSonyString(tag.ID(v)) }},
		{"meta_MeteringMode_String", "u16", func(v int64) string { return meta.MeteringMode(v).String() }},
		{"meta_ExposureMode_String", "u16", func(v int64) string { return meta.ExposureMode(v).String() }},
		{"meta_ExposureProgram_String", "u16", func(v int64) string { return meta.ExposureProgram(v).String() }},
		{"meta_Flash_String", "u16", func(v int64) string { return meta.Flash(v).String() }},
		{"meta_Orientation_String", "u16", func(v int64) string { return meta.Orientation(v).String() }},
		{"meta_Compression_String", "u16", func(v int64) string { return meta.Compression(v).String() }},
		{"meta_canon_ContinuousDrive_String", "i16", func(v int64) string { return canon.ContinuousDrive(v).String() }},
		{"meta_canon_FocusMode_String", "i16", func(v int64) string { return canon.FocusMode(v).String() }},
		{"meta_canon_MeteringMode_String", "i16", func(v int64) string { return canon.MeteringMode(v).String() }},
		{"meta_canon_FocusRange_String", "i16", func(v int64) string { return canon.FocusRange(v).String() }},
		{"meta_canon_ExposureMode_String", "i16", func(v int64) string { return canon.ExposureMode(v).String() }},
		{"meta_canon_BracketMode_String", "i16", func(v int64) string { return canon.BracketMode(v).String() }},
		{"meta_canon_AESetting_String", "i16", func(v int64) string { return canon.AESetting(v).String() }},
		{"meta_canon_AFAreaMode_String", "i16", func(v int64) string { return canon.AFAreaMode(v).String() }},
		{"meta_utils_ByteOrder_String", "i8", func(v int64) string { return utils.ByteOrder(v).String() }},
		{"xmp_xmpns_Namespace_String", "u8", func(v int64) string { return xmpns.Namespace(v).String() }},
		{"xmp_xmpns_Name_String", "u8", func(v int64) string { return xmpns.Name(v).String() }},
		{"isobmff_Brand_String", "u8", func(v int64) string { return isobmff.Brand(v).String() }},
		{"isobmff_boxType_String", "u8", func(v int64) string { return isobmff.VerifBoxTypeString(uint8(v)) }},
		{"isobmff_hdlrType_String", "u8", func(v int64) string { return isobmff.VerifHdlrTypeString(uint8(v)) }},
		{"jpeg_markerType_String", "u8", func(v int64) string { return jpeg.VerifMarkerTypeString(uint8(v)) }},
	}
}

func domain(kind string, c *Ctx) []int64 {
	var lo, hi int64
	switch kind {
	case "u8":
		lo, hi = 0, 255
	case "i8":
		lo, hi = -128, 127
	case "u16":
		lo, hi = 0, 65535
	case "i16":
		lo, hi = -32768, 32767
	case "u32":
		// structured sample: around every 0x10000 family boundary and the 32-bit edges, plus random
		var vs []int64
		for fam := int64(0); fam < 8; fam++ {
			for k := int64(0); k < 600; k++ {
				vs = append(vs, fam*0x10000+k)
			}
			for k := int64(1); k < 20; k++ {
				if fam > 0 {
					vs = append(vs, fam*0x10000-k)
				}
			}
		}
		for _, e := range []int64{0xffffffff, 0xfffffffe, 0x80000000, 0x7fffffff, 0x1000000, 0x3940000, 0x80000001} {
			vs = append(vs, e)
		}
		for i := 0; i < c.N(2000, 200000); i++ {
			vs = append(vs, int64(c.Rng.Uint32()))
		}
		return vs
	}
	vs := make([]int64, 0, hi-lo+1)
	for v := lo; v <= hi; v++ {
		vs = append(vs, v)
	}
	return vs
}

func callStr(f func() string) (res string, frame string) {
	var s string
	p, fr, _ := safely(func() { s = f() })
	if p {
		return "panic", fr
	}
	return "ok " + hexs([]byte(s)), ""
}

func runC17(c *Ctx) error {
	c.Res.Rule = "exhaustive over the whole 8/16-bit domain of every stringer / tag-name / extension lookup (signed types include negatives; tag.ID x all 256 IfdType values sampled per tier; 32-bit CameraModel types by families + random); implementation under recover vs the generated Lean model (enum.* ops). A panic of the implementation is a violation. Non-trivial: every case (each is a distinct (function, value)); exhaustive for 8/16-bit."
	c.Res.Exhaustive = true
	var reqs []string
	var impl []string
	var frames []string
	var entries []string
	add := func(req, entry string, f func() string) {
		r, fr := callStr(f)
		reqs = append(reqs, req)
		impl = append(impl, r)
		frames = append(frames, fr)
		entries = append(entries, entry)
	}
	for _, e := range c17Registry() {
		e := e
		for _, v := range domain(e.kind, c) {
			v := v
			add(fmt.Sprintf("enum.ib %s %d", e.lean, v), e.lean, func() string { return e.f(v) })
		}
	}
	// two-argument lookups
	ifdVals := []int64{}
	for v := int64(0); v < 256; v++ {
		ifdVals = append(ifdVals, v)
	}
	step := int64(c.N(7, 1))
	for _, it := range ifdVals {
		if it > 24 && it%16 != 0 && !c.Thorough() {
			continue
		}
		for id := int64(0); id < 65536; id += step {
			it, id := it, id
			add(fmt.Sprintf("enum.iib exif2_ifds_IfdType_TagName %d %d", it, id), "IfdType.TagName", func() string { return ifds.IfdType(it).TagName(tag.ID(id)) })
		}
		if it < 32 {
			for id := int64(0); id < 65536; id += step * 3 {
				it, id := it, id
				add(fmt.Sprintf("enum.iib exif2_ifds_TagSubIfdString %d %d", id, it), "TagSubIfdString", func() string { return ifds.TagSubIfdString(tag.ID(id), ifds.IfdType(it)) })
			}
		}
	}
	// booleans / sizes
	for v := int64(0); v < 256; v++ {
		v := v
		add(fmt.Sprintf("enum.ibool exif2_ifds_IfdType_IsValid %d", v), "IfdType.IsValid", func() string { return fmt.Sprint(ifds.IfdType(v).IsValid()) })
		add(fmt.Sprintf("enum.ibool exif2_tag_Type_IsValid %d", v), "tag.Type.IsValid", func() string { return fmt.Sprint(tag.Type(v).IsValid()) })
		add(fmt.Sprintf("enum.ii exif2_tag_Type_Size %d", v), "tag.Type.Size", func() string { return fmt.Sprint(tag.Type(v).Size()) })
	}
	// name -> value lookups: every name the String side produces, with perturbations
	var names []string
	seenN := map[string]bool{}
	for v := 0; v < 256; v++ {
		for _, s := range []string{imagetype.ImageType(v).String(), imagetype.ImageType(v).Extension(), "." + imagetype.ImageType(v).Extension(),
			"." + strings.ToLower(imagetype.ImageType(v).Extension()), xmpns.Namespace(v).String(), xmpns.Name(v).String()} {
			for _, t := range []string{s, strings.ToUpper(s), s + "x", " " + s} {
				if !seenN[t] && len(t) < 200 {
					seenN[t] = true
					names = append(names, t)
				}
			}
		}
	}
	for i := 0; i < c.N(500, 20000); i++ {
		b := make([]byte, c.Rng.Intn(12))
		for j := range b {
			b[j] = byte(32 + c.Rng.Intn(95))
		}
		names = append(names, string(b))
	}
	for _, s := range names {
		s := s
		// strings.ToLower is modelled for ASCII only
		add("enum.bi imagetype_FromString "+hexs([]byte(s)), "imagetype.FromString", func() string { return fmt.Sprint(int(imagetype.FromString(s))) })
		add("enum.bi xmp_xmpns_IdentifyNamespace "+hexs([]byte(s)), "xmpns.IdentifyNamespace", func() string { return fmt.Sprint(int(xmpns.IdentifyNamespace([]byte(s)))) })
		add("enum.bi xmp_xmpns_IdentifyName "+hexs([]byte(s)), "xmpns.IdentifyName", func() string { return fmt.Sprint(int(xmpns.IdentifyName([]byte(s)))) })
	}
	// parsing a documented name returns the value it names (property statement, checked directly on the implementation)
	for v := 0; v < 256; v++ {
		it := imagetype.ImageType(v)
		if v < 24 {
			c.Stat("spec.fromstring")
			if got := imagetype.FromString(it.String()); got != it {
				c.Violate(Case{Entry: "imagetype.FromString", Input: it.String(), Expected: fmt.Sprint(v), Actual: fmt.Sprint(int(got)), Kind: "wrong-value", Class: "name-roundtrip"})
			}
			if ext := it.Extension(); ext != "" {
				if got := imagetype.FromString("." + strings.ToLower(ext)); got.Extension() != ext {
					c.Violate(Case{Entry: "imagetype.FromString", Input: "." + ext, Expected: ext, Actual: got.Extension(), Kind: "wrong-value", Class: "name-roundtrip"})
				}
			}
		}
		ns := xmpns.Namespace(v)
		if name := ns.String(); name != "" && name != "Unknown" {
			c.Stat("spec.identifynamespace")
			if got := xmpns.IdentifyNamespace([]byte(name)); got != ns {
				c.Violate(Case{Entry: "xmpns.IdentifyNamespace", Input: name, Expected: fmt.Sprint(v), Actual: fmt.Sprint(int(got)), Kind: "wrong-value", Class: "name-roundtrip"})
			}
		}
		nm := xmpns.Name(v)
		if name := nm.String(); name != "" && name != "Unknown" {
			if got := xmpns.IdentifyName([]byte(name)); got != nm {
				c.Violate(Case{Entry: "xmpns.IdentifyName", Input: name, Expected: fmt.Sprint(v), Actual: fmt.Sprint(int(got)), Kind: "wrong-value", Class: "name-roundtrip"})
			}
		}
	}
	model, err := drv.Batch(reqs)
	if err != nil {
		return err
	}
	// documented names (hand-written spec tables): which functions have one, and what they say
	var hasReq []string
	for _, e := range c17Registry() {
		hasReq = append(hasReq, "enum.hasdoc "+e.lean)
	}
	hasDoc, err := drv.Batch(hasReq)
	if err != nil {
		return err
	}
	docOf := map[string]bool{}
	for i, e := range c17Registry() {
		docOf[e.lean] = hasDoc[i] == "true"
	}
	var docIdx []int
	var docReq []string
	for i, r := range reqs {
		if strings.HasPrefix(r, "enum.ib ") && docOf[entries[i]] {
			docIdx = append(docIdx, i)
			docReq = append(docReq, "enum.doc "+strings.TrimPrefix(r, "enum.ib "))
		}
	}
	docRes, err := drv.Batch(docReq)
	if err != nil {
		return err
	}
	for j, i := range docIdx {
		c.Stat("doc.compared")
		if impl[i] != "panic" && impl[i] != docRes[j] {
			c.Violate(Case{Entry: entries[i], Input: reqs[i], Expected: docRes[j], Actual: impl[i], Kind: "wrong-value", Class: "documented-name",
				Note: "String() differs from the documented name / fallback (Imeta.Spec.Enums)"})
		}
	}
	for i := range reqs {
		im := impl[i]
		if !strings.HasPrefix(reqs[i], "enum.ib ") && !strings.HasPrefix(reqs[i], "enum.iib ") && im != "panic" {
			// booleans / ints come back from callStr hex-encoded; decode for comparison
			im = "ok " + string(unhex(strings.TrimPrefix(im, "ok ")))
		}
		c.Count(reqs[i], true)
		c.Stat("fn." + entries[i])
		if i%100000 == 0 {
			c.Sample(map[string]string{"op": reqs[i], "impl": im, "model": model[i]})
		}
		if im == "panic" {
			c.Stat("impl.panic")
			c.Violate(Case{Entry: entries[i], Input: reqs[i], Expected: "a string", Actual: "panic", Kind: "panic", Frame: frames[i], Class: "stringer-panics"})
		}
		if im != model[i] {
			c.Disagree(Case{Entry: entries[i], Input: reqs[i], Expected: model[i], Actual: im, Frame: frames[i]})
		}
	}
	return nil
}
