package main

import (
	"bytes"
	"encoding/binary"
	"fmt"
	"github.com/evanoberholster/imagemeta"
	"strings"
	"time"

	"vh/internal/drv"

	"github.com/evanoberholster/imagemeta/exif2/ifds/mknote/apple"
	"github.com/evanoberholster/imagemeta/exif2/ifds/mknote/canon"
)

func init() {
	props["C03"] = func(c *Ctx) error { return runExifProps(c, "C03") }
	props["C06"] = func(c *Ctx) error { return runExifProps(c, "C06") }
	props["C07"] = func(c *Ctx) error { return runExifProps(c, "C07") }
	for _, n := range []string{"Canon EOS 6D", "Canon EOS 90D"} {
		if m, ok := canon.CameraModelFromString(n); ok {
			knownCanon[n] = int(m)
		}
	}
	if m, ok := apple.CameraModelFromString("iPhone 12"); ok {
		knownApple["iPhone 12"] = int(m)
	}
}

// ---------- containers ----------

func inJPEG(c *Ctx, tiff []byte, extra bool) []byte {
	b := []byte{0xFF, 0xD8}
	if extra {
		b = append(b, jseg{"app", 0xE0, []byte("JFIF\x00\x01\x01\x00\x00\x01\x00\x01\x00\x00")}.bytes()...)
		for i := 0; i < c.Rng.Intn(3); i++ {
			s := genSeg(c)
			if s.kind == "exif" {
				continue
			}
			b = append(b, s.bytes()...)
		}
		// a tenth of the files carry a segment of the largest lengths the 16-bit field can hold (a full-size ICC profile
		// chunk has 0xFFFF) in front of the Exif segment, with marker-looking pairs and fill bytes in its data
		if c.Rng.Intn(10) == 0 {
			n := []int{0xFFFF, 0xFFFE, 0xFFFD}[c.Rng.Intn(3)] - 2
			p := make([]byte, n)
			for i := range p {
				p[i] = []byte{0xFF, 0xDB, 0xD8, 0xD9, 0xE1, 0x00, 0x45, 0x10}[c.Rng.Intn(8)]
			}
			copy(p, "ICC_PROFILE\x00\x01\x01")
			b = append(b, jseg{"app", 0xE2, p}.bytes()...)
			c.Stat("container.jpeg-max-length-segment")
		}
	}
	b = append(b, jseg{"exif", 0xE1, append([]byte("Exif\x00\x00"), tiff...)}.bytes()...)
	if extra && c.Rng.Intn(2) == 0 {
		b = append(b, jseg{"app", 0xE2, genPayload(c, 200)}.bytes()...)
	}
	b = append(b, 0xFF, 0xDB, 0x00, 0x43, 0x00)
	b = append(b, bytes.Repeat([]byte{0x10}, 66)...)
	img := make([]byte, 64+c.Rng.Intn(100))
	c.Rng.Read(img)
	return append(b, img...)
}

func inPNG(c *Ctx, tiff []byte, extra bool) []byte {
	chunk := func(t string, p []byte) []byte {
		b := binary.BigEndian.AppendUint32(nil, uint32(len(p)))
		b = append(b, []byte(t)...)
		b = append(b, p...)
		return append(b, 0, 0, 0, 0)
	}
	b := []byte("\x89PNG\r\n\x1a\n")
	b = append(b, chunk("IHDR", make([]byte, 13))...)
	if extra {
		for i := 0; i < c.Rng.Intn(3); i++ {
			p := make([]byte, c.Rng.Intn(100))
			c.Rng.Read(p)
			b = append(b, chunk([]string{"gAMA", "tEXt", "pHYs", "iCCP"}[c.Rng.Intn(4)], p)...)
		}
	}
	b = append(b, chunk("eXIf", tiff)...)
	b = append(b, chunk("IDAT", make([]byte, 40))...)
	return append(b, chunk("IEND", nil)...)
}

func inHEIF(c *Ctx, tiff []byte, extra bool) []byte {
	box := func(t string, p []byte) []byte {
		b := binary.BigEndian.AppendUint32(nil, uint32(8+len(p)))
		return append(append(b, []byte(t)...), p...)
	}
	b := box("ftyp", []byte("heic\x00\x00\x00\x00mif1heic"))
	filler := make([]byte, 40+c.Rng.Intn(200))
	if extra {
		for i := range filler {
			filler[i] = byte(1 + c.Rng.Intn(60)) // no 'I' (0x49) / 'M' (0x4d) bytes: no earlier TIFF signature
		}
	}
	b = append(b, box("free", filler)...)
	// Exif item payload: 4-byte offset + "Exif\0\0" + TIFF (as HEIF stores it)
	b = append(b, box("mdat", append([]byte{0, 0, 0, 6, 'E', 'x', 'i', 'f', 0, 0}, tiff...))...)
	return append(b, make([]byte, 64)...)
}

func runExifProps(c *Ctx, which string) error {
	c.Res.Rule = map[string]string{
		"C03": "generated logical records (random subsets of the supported fields, random in-range values) x forward layouts (block order, padding, header gap, shuffled entries, interleaved foreign tags embedded and out-of-line, camera-style and shuffled value order) x both byte orders, through exif2.Parse, imagemeta.Decode and the buffered reader variant: reported fields must equal the record (search); the same inputs and a malformed stream of their mutations against the Lean reader model (correspondence). Non-trivial: records with >= 5 fields; distinct by bytes.",
		"C06": "the same Exif payload embedded in TIFF, JPEG APP1, PNG eXIf, HEIF-branded files and (split into its three directories) the CMT1/CMT2/CMT4 boxes of a Canon CR3 file with random surrounding content: fields of Decode / DecodeJPEG / DecodePng / DecodeHeif / DecodeCR3 must equal those of the bare TIFF decode (only the image type differs).",
		"C07": "paired little- and big-endian encodings of the same record and layout, in every container: identical results.",
	}[which]
	if which == "C03" {
		isoOutOfLine(c)
	}
	type gcase struct {
		r      lrec
		lo     layoutOpt
		le, be []byte
	}
	n := c.N(250, 12000)
	var gs []gcase
	for i := 0; i < n; i++ {
		r := genRecord(c)
		lo := layoutOpt{shuffleEntries: c.Rng.Intn(2) == 0, foreign: c.Rng.Intn(4), pad: []int{0, 0, 1, 7, 40}[c.Rng.Intn(5)], headerPad: []int{0, 0, 0, 2, 18}[c.Rng.Intn(5)],
			valuesFirst: c.Rng.Intn(2) == 0, entryOrderVals: c.Rng.Intn(2) == 0, ifd1: c.Rng.Intn(3) == 0,
			slotJunk: c.Rng.Intn(3) == 0, isoPair: c.Rng.Intn(3) == 0}
		if c.Rng.Intn(10) == 0 {
			// many tags: more than 84 in the file, never more than about 55 pending (depth first: a directory, its values, then its sub-directories)
			lo.foreign, lo.valuesFirst, lo.entryOrderVals, lo.depthFirst = 45, true, true, true
			c.Stat("layout.many-tags")
		}
		if lo.slotJunk {
			c.Stat("layout.slot-junk")
		}
		if lo.isoPair && r.hasIso {
			c.Stat("layout.iso-short-x2")
		}
		// the same random choices for both byte orders: re-seed the layout decisions
		st := c.Rng.Int63()
		sub := *c
		sub.Rng = newRand(st)
		le := buildTIFF(&sub, r, false, lo)
		sub.Rng = newRand(st)
		be := buildTIFF(&sub, r, true, lo)
		gs = append(gs, gcase{r, lo, le, be})
		if lo.ifd1 {
			c.Stat("layout.ifd1-successor")
		} else {
			c.Stat("layout.ifd0-only-chain")
		}
	}
	wk := make([]*Worker, 0)
	_ = wk
	type job struct {
		req, entry, expect, tag string
		pair                    int // index of the job this one must equal (C06/C07), or -1
		modelReq                string
	}
	var jobs []job
	addEp := func(entry string, b []byte, expect, tag string, pair int) int {
		jobs = append(jobs, job{req: fmt.Sprintf("ep %s %s", entry, hexs(b)), entry: entry, expect: expect, tag: tag, pair: pair})
		return len(jobs) - 1
	}
	addEx := func(variant string, b []byte, expect, tag string) {
		jobs = append(jobs, job{req: fmt.Sprintf("exifimpl %s %s", variant, hexs(b)), entry: "exif2:" + strings.SplitN(variant, ":", 2)[0], expect: expect, tag: tag, pair: -1,
			modelReq: fmt.Sprintf("exif.run %s %s", variant, hexs(b))})
	}
	for _, g := range gs {
		for oi, b := range [][]byte{g.le, g.be} {
			order := 1 + oi
			fi := 8 + g.lo.headerPad
			expTiff, _ := finishModel(expectedRaw(g.r, 8))
			expParse, _ := finishModel(expectedRaw(g.r, 8))
			switch which {
			case "C03":
				addEx("parse", b, expParse, "wellformed")
				addEx(fmt.Sprintf("tiffbuf:%d:%d:8", order, fi), b, expTiff, "wellformed")
				addEp("Decode", b, expTiff, "wellformed", -1)
				// the reader as the JPEG / HEIF paths drive it: the Exif length is exactly the length of the block, so the last
				// value of the layout ends on its last byte
				expJ, _ := finishModel(expectedRaw(g.r, 1))
				addEx(fmt.Sprintf("jpegifd:%d:%d:%d", order, fi, len(b)), b, expJ, "wellformed")
				// malformed stream against the model only
				if c.Rng.Intn(2) == 0 {
					for _, m := range mutate(c, epInput{Data: b}, 3) {
						addEx("parse", m.Data, "", "malformed")
						addEx(fmt.Sprintf("tiffbuf:%d:%d:8", order, fi), m.Data, "", "malformed")
						jl := len(m.Data) - c.Rng.Intn(3)
						if jl < 0 {
							jl = 0
						}
						addEx(fmt.Sprintf("jpegifd:%d:%d:%d", order, fi, jl), m.Data, "", "malformed")
					}
				}
			case "C06":
				base := addEp("DecodeTiff", b, expTiff, "tiff", -1)
				extra := c.Rng.Intn(3) != 0
				ej, _ := finishModel(expectedRaw(g.r, 1))
				addEp("DecodeJPEG", inJPEG(c, b, extra), ej, "jpeg", base)
				addEp("Decode", inJPEG(c, b, extra), ej, "jpeg", base)
				ep, _ := finishModel(expectedRaw(g.r, 2))
				pb := inPNG(c, b, extra)
				addEp("DecodePng", pb, ep, "png", base)
				// chunk walker against its Lean model, well-formed and mutated
				for _, m := range append([]epInput{{Data: pb}}, mutate(c, epInput{Data: pb}, 2)...) {
					jobs = append(jobs, job{req: fmt.Sprintf("ep ScanPngHeader %s", hexs(m.Data)), entry: "png.ScanPngHeader", tag: "pngscan", pair: -1,
						modelReq: "png.scan " + hexs(m.Data)})
				}
				eh, _ := finishModel(expectedRaw(g.r, 6))
				addEp("Decode", inHEIF(c, b, extra), eh, "heif", base)
				// Canon CR3: the three directories in CMT1 / CMT2 / CMT4 boxes, read through the ISOBMFF reader
				ec, _ := finishModel(expectedRaw(g.r, 15))
				cr3 := inCR3(c, g.r, oi == 1)
				addEp("DecodeCR3", cr3, ec, "cr3", base)
				addEp("Decode", cr3, ec, "cr3", base)
			}
		}
		if which == "C07" {
			expect, _ := finishModel(expectedRaw(g.r, 8))
			fiLE := addEp("Decode", g.le, expect, "tiff", -1)
			addEp("Decode", g.be, expect, "tiff", fiLE)
			st := c.Rng.Int63()
			sub := *c
			sub.Rng = newRand(st)
			jl := inJPEG(&sub, g.le, true)
			sub.Rng = newRand(st)
			jb := inJPEG(&sub, g.be, true)
			ej, _ := finishModel(expectedRaw(g.r, 1))
			a := addEp("DecodeJPEG", jl, ej, "jpeg", -1)
			addEp("DecodeJPEG", jb, ej, "jpeg", a)
			ep, _ := finishModel(expectedRaw(g.r, 2))
			a = addEp("DecodePng", inPNG(c, g.le, false), ep, "png", -1)
			addEp("DecodePng", inPNG(c, g.be, false), ep, "png", a)
			a = addEp("Parse", g.le, expect, "parse", -1)
			addEp("Parse", g.be, expect, "parse", a)
			// the TIFF header at an arbitrary (odd or even) distance from the scan origin: a prefix without 'I'/'M' bytes
			pre := make([]byte, 1+c.Rng.Intn(40))
			for i := range pre {
				pre[i] = byte(1 + c.Rng.Intn(60))
			}
			expPre, _ := finishModel(expectedRaw(g.r, 0)) // header not at offset 0: the image type stays unknown
			a = addEp("Parse", append(append([]byte{}, pre...), g.le...), expPre, "parse-prefixed", -1)
			addEp("Parse", append(append([]byte{}, pre...), g.be...), expPre, "parse-prefixed", a)
			sub.Rng = newRand(st)
			hl := inHEIF(&sub, g.le, true)
			sub.Rng = newRand(st)
			hb := inHEIF(&sub, g.be, true)
			eh, _ := finishModel(expectedRaw(g.r, 6))
			a = addEp("Decode", hl, eh, "heif", -1)
			addEp("Decode", hb, eh, "heif", a)
		}
	}
	// run the implementation side in a pool of workers
	answers := make([]string, len(jobs))
	runPool(len(jobs), 8*time.Second, func(wk *Worker, i int) { answers[i] = wk.Call(jobs[i].req) })
	// model side
	var mreq []string
	var midx []int
	for i, j := range jobs {
		if j.modelReq != "" {
			mreq = append(mreq, j.modelReq)
			midx = append(midx, i)
		}
	}
	model, err := drv.Batch(mreq)
	if err != nil {
		return err
	}
	canonOf := func(ans string) string {
		if strings.HasPrefix(ans, "ep ") {
			return ans
		}
		if i := strings.LastIndex(ans, " | "); i >= 0 {
			return ans[:i]
		}
		if i := strings.LastIndex(ans, " pos="); i >= 0 {
			return ans[:i]
		}
		return ans
	}
	stripIt := func(s string) string {
		f := strings.Fields(s)
		var o []string
		for _, t := range f {
			if !strings.HasPrefix(t, "it=") {
				o = append(o, t)
			}
		}
		return strings.Join(o, " ")
	}
	for i, j := range jobs {
		got := canonOf(answers[i])
		nontrivial := strings.Count(j.expect, "=") >= 5 || j.expect == ""
		c.Count(j.req, nontrivial)
		c.Stat("entry." + j.entry)
		c.Stat("gen." + j.tag)
		if i%2000 == 0 {
			c.Sample(map[string]string{"op": j.req, "impl": got, "expected": j.expect})
		}
		crashed := strings.HasPrefix(got, "panic") || strings.HasPrefix(got, "crash") || got == "hang"
		// the CameraModel enum is derived from Make and Model and depends on which of the two values is stored first; it is
		// compared against the model (correspondence) but is not part of the expectation (DESIGN, C03 interpretation)
		if j.expect != "" && stripKey(got, "cmodel") != stripKey(j.expect, "cmodel") {
			kind := "wrong-value"
			if crashed {
				kind = "panic"
			}
			c.Violate(Case{Entry: j.entry, Input: j.req, Expected: j.expect, Actual: got, Kind: kind, Frame: frameOf(got), Class: diffClass(j.expect, got, j.tag)})
		}
		if j.pair >= 0 {
			other := canonOf(answers[j.pair])
			// (the CameraModel enum depends on the order in which Make and Model values are stored: not compared, see C03)
			if stripKey(stripIt(other), "cmodel") != stripKey(stripIt(got), "cmodel") {
				c.Violate(Case{Entry: j.entry, Input: j.req, Expected: stripIt(other), Actual: stripIt(got), Kind: "wrong-value", Class: "pair-differs:" + j.tag + ":" + diffClass(other, got, "")})
			}
		}
	}
	for k, i := range midx {
		j := jobs[i]
		if j.tag == "pngscan" {
			// impl: "<err> <tiffOffset> <order> <firstIfd> <len> | ..."; model: "ok <order> <firstIfd> <tiffOffset> <len>" / "err NoExif"
			got := strings.Fields(canonOf(answers[i]))
			want := "?"
			mf := strings.Fields(model[k])
			if len(mf) == 5 && mf[0] == "ok" {
				want = fmt.Sprintf("nil %s %s %s %s", mf[3], mf[1], mf[2], mf[4])
			} else if model[k] == "err NoExif" {
				want = "NoExif 0 0 0 0"
			}
			c.Stat("corr.png")
			if strings.Join(got, " ") != want {
				c.Disagree(Case{Entry: j.entry, Input: j.req, Expected: want, Actual: strings.Join(got, " ")})
			}
			continue
		}
		m, mpos := finishModel(model[k])
		if strings.Contains(model[k], " hazard=1") {
			// excluded region: an embedded tag made the reader fetch a value from the stream while walking a directory
			c.Stat("corr.hazard-excluded")
			continue
		}
		c.Stat("corr.compared")
		got := answers[i]
		gpos := -2
		if p := strings.LastIndex(got, " pos="); p >= 0 {
			fmt.Sscanf(got[p+5:], "%d", &gpos)
			got = got[:p]
		}
		if m == "fuel" {
			m = "hang"
		}
		same := got == m && (mpos < 0 || gpos == mpos || got == "noexif")
		if strings.HasPrefix(m, "panic") && strings.HasPrefix(got, "panic") {
			same = true
		}
		if !same {
			c.Disagree(Case{Entry: j.entry, Input: j.req, Expected: fmt.Sprintf("%s pos=%d", m, mpos), Actual: fmt.Sprintf("%s pos=%d", got, gpos)})
		}
	}
	return nil
}

func stripKey(s, key string) string {
	var o []string
	for _, t := range strings.Fields(s) {
		if !strings.HasPrefix(t, key+"=") {
			o = append(o, t)
		}
	}
	return strings.Join(o, " ")
}

// diffClass names the first differing field: the structural class of a value-level failure
func diffClass(exp, got, tag string) string {
	if strings.HasPrefix(got, "panic") {
		return "panic"
	}
	e, g := map[string]string{}, map[string]string{}
	for _, t := range strings.Fields(exp) {
		if i := strings.IndexByte(t, '='); i > 0 {
			e[t[:i]] = t[i+1:]
		}
	}
	for _, t := range strings.Fields(got) {
		if i := strings.IndexByte(t, '='); i > 0 {
			g[t[:i]] = t[i+1:]
		}
	}
	ef, gf := strings.Fields(exp), strings.Fields(got)
	if len(ef) > 0 && len(gf) > 0 && ef[0] != gf[0] {
		return "error:" + gf[0]
	}
	var keys []string
	for k := range e {
		if g[k] != e[k] {
			keys = append(keys, k)
		}
	}
	for k := range g {
		if _, ok := e[k]; !ok {
			keys = append(keys, k)
		}
	}
	sortStrings(keys)
	var ks []string
	for _, k := range keys {
		if k != "cmodel" {
			ks = append(ks, k)
		}
	}
	if len(ks) > 1 {
		ks = ks[:1]
	}
	p := "field:" + strings.Join(ks, ",")
	if tag != "" {
		p = tag + ":" + p
	}
	return p
}

// isoOutOfLine: ISOSpeedRatings is SHORT with count "any" (Exif 2.3); with three or more values the value lies outside
// the directory entry. The first value is the ISO speed. Crafted files, both byte orders, counts 1..4, decoded with
// imagemeta.DecodeTiff; expectation written down here.
func isoOutOfLine(c *Ctx) {
	type order interface {
		binary.ByteOrder
		binary.AppendByteOrder
	}
	for _, bo := range []order{binary.LittleEndian, binary.BigEndian} {
		for cnt := 1; cnt <= 4; cnt++ {
			b := []byte("II*\x00")
			if bo.String() == "BigEndian" {
				b = []byte("MM\x00*")
			}
			b = bo.AppendUint32(b, 8)
			b = bo.AppendUint16(b, 1) // IFD0: the Exif pointer
			b = bo.AppendUint16(b, 0x8769)
			b = bo.AppendUint16(b, 4)
			b = bo.AppendUint32(b, 1)
			b = bo.AppendUint32(b, 26)
			b = bo.AppendUint32(b, 0)
			b = bo.AppendUint16(b, 1) // Exif directory at 26: ISOSpeedRatings
			b = bo.AppendUint16(b, 0x8827)
			b = bo.AppendUint16(b, 3)
			b = bo.AppendUint32(b, uint32(cnt))
			vals := []uint16{200, 400, 800, 1600}[:cnt]
			if cnt <= 2 {
				v := make([]byte, 0, 4)
				for _, x := range vals {
					v = bo.AppendUint16(v, x)
				}
				for len(v) < 4 {
					v = append(v, 0)
				}
				b = append(b, v...)
				b = bo.AppendUint32(b, 0)
			} else {
				b = bo.AppendUint32(b, 44)
				b = bo.AppendUint32(b, 0)
				for _, x := range vals {
					b = bo.AppendUint16(b, x)
				}
			}
			b = append(b, make([]byte, 64)...)
			var iso uint32
			var err error
			p, fr, _ := safely(func() {
				e, er := imagemeta.DecodeTiff(bytes.NewReader(b))
				iso, err = uint32(e.ISOSpeed), er
			})
			c.Count(fmt.Sprintf("isoOutOfLine %s %d", bo.String(), cnt), true)
			c.Stat("crafted.iso-short-count")
			class := "iso-short-embedded"
			if cnt > 2 {
				class = "iso-short-out-of-line"
			}
			if p {
				c.Violate(Case{Entry: "imagemeta.DecodeTiff", Input: hexs(b), Expected: "returns", Actual: "panic", Kind: "panic", Frame: fr, Class: class})
			} else if got := fmt.Sprintf("err=%v iso=%d", err, iso); got != "err=<nil> iso=200" {
				c.Violate(Case{Entry: "imagemeta.DecodeTiff", Input: hexs(b), Expected: "err=<nil> iso=200", Actual: got, Kind: "wrong-value", Class: class, Note: fmt.Sprintf("%s, SHORT x %d", bo.String(), cnt)})
			}
		}
	}
}
