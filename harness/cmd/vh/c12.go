package main

import (
	"bufio"
	"bytes"
	"fmt"
	"io"
	"runtime"
	"sync"

	"vh/internal/drv"

	"github.com/evanoberholster/imagemeta/imagetype"
	"github.com/evanoberholster/imagemeta/tiff"
)

func init() { props["C12"] = runC12 }

// implTiffScan runs tiff.ScanTiffHeader and canonicalises like the driver's tiff.scan.
func implTiffScan(b []byte, wrap func(io.Reader) io.Reader) (res string, frame string) {
	var r io.Reader = bytes.NewReader(b)
	if wrap != nil {
		r = wrap(r)
	}
	br := bufio.NewReader(r)
	p, fr, val := safely(func() {
		h, err := tiff.ScanTiffHeader(br, imagetype.ImageUnknown)
		if err != nil {
			res = "err " + errKind(err)
			return
		}
		rest, _ := io.ReadAll(br)
		res = fmt.Sprintf("ok %d %d %d %d", h.TiffHeaderOffset, int(h.ByteOrder), h.FirstIfdOffset, len(rest))
		// the stream must stand at the header: the next bytes are the signature
		if len(rest) >= 4 && !(bytes.Equal(rest[:4], []byte("II*\x00")) || bytes.Equal(rest[:4], []byte("MM\x00*"))) {
			res += " NOT-AT-HEADER"
		}
	})
	if p {
		return "panic " + val, fr
	}
	return res, ""
}

func c12Headers() [][]byte {
	le := append([]byte("II*\x00\x08\x00\x00\x00"), bytes.Repeat([]byte{0}, 24)...)
	be := append([]byte("MM\x00*\x00\x00\x00\x08"), bytes.Repeat([]byte{0}, 24)...)
	be2 := append([]byte("MM\x00*\x12\x34\x56\x78"), bytes.Repeat([]byte{0xAB}, 24)...)
	short := []byte("II*\x00\x08\x00\x00\x00abcdefghijklmnopqrstuvw") // 31 bytes: one short of a header
	none := bytes.Repeat([]byte{0x20}, 40)
	return [][]byte{le, be, be2, short, none}
}

// compare a batch of inputs: impl vs model (tiff.scan) and impl vs spec (tiff.spec)
func c12Batch(c *Ctx, inputs [][]byte, tag string) error {
	reqM := make([]string, len(inputs))
	reqS := make([]string, len(inputs))
	for i, b := range inputs {
		h := hexs(b)
		reqM[i] = "tiff.scan " + h
		reqS[i] = "tiff.spec " + h
	}
	var model, spec []string
	var e1, e2 error
	var wg sync.WaitGroup
	wg.Add(2)
	go func() { defer wg.Done(); model, e1 = drv.Batch(reqM) }()
	go func() { defer wg.Done(); spec, e2 = drv.Batch(reqS) }()
	impl := make([]string, len(inputs))
	frames := make([]string, len(inputs))
	nw := runtime.NumCPU()
	var wg2 sync.WaitGroup
	for w := 0; w < nw; w++ {
		wg2.Add(1)
		go func(w int) {
			defer wg2.Done()
			for i := w; i < len(inputs); i += nw {
				impl[i], frames[i] = implTiffScan(inputs[i], nil)
			}
		}(w)
	}
	wg2.Wait()
	wg.Wait()
	if e1 != nil {
		return e1
	}
	if e2 != nil {
		return e2
	}
	for i, b := range inputs {
		nontrivial := len(b) >= 32
		c.Count(reqM[i], nontrivial)
		c.Stat(tag)
		if len(impl[i]) >= 2 && impl[i][:2] == "ok" {
			c.Stat("result.ok")
		} else {
			c.Stat("result." + impl[i])
		}
		if i == 0 || (i == len(inputs)/2) {
			c.Sample(map[string]string{"op": reqM[i], "impl": impl[i], "model": model[i], "spec": spec[i]})
		}
		if impl[i] != spec[i] {
			kind := "wrong-value"
			if frames[i] != "" {
				kind = "panic"
			}
			c.Violate(Case{Entry: "tiff.ScanTiffHeader", Input: hexs(b), Expected: spec[i], Actual: impl[i], Kind: kind, Frame: frames[i],
				Class: "header-search", Note: "implementation differs from 'first signature followed by 28 bytes' (Tiff.spec)"})
		}
		if impl[i] != model[i] {
			c.Disagree(Case{Entry: "tiff.ScanTiffHeader", Input: hexs(b), Expected: model[i], Actual: impl[i], Frame: frames[i],
				Note: "correspondence Tiff.scan vs tiff.ScanTiffHeader"})
		}
	}
	return nil
}

func runC12(c *Ctx) error {
	c.Res.Rule = "every string over {I,M,*,0x00,x} up to length L (quick L=7, thorough L=10) x 5 tails (LE, BE, BE with non-trivial IFD offset, 31-byte short header, no signature); random prefixes up to 8 KiB incl. signatures straddling the 4096-byte bufio boundary; chunked readers. Non-trivial: input >= 32 bytes; distinct by input bytes."
	alpha := []byte{'I', 'M', '*', 0x00, 'x'}
	maxL := c.N(7, 10)
	tails := c12Headers()
	c.Res.Exhaustive = true
	batch := make([][]byte, 0, 1<<18)
	flush := func(tag string) error {
		if len(batch) == 0 {
			return nil
		}
		err := c12Batch(c, batch, tag)
		batch = batch[:0]
		return err
	}
	for L := 0; L <= maxL; L++ {
		idx := make([]int, L)
		for {
			pre := make([]byte, L)
			for i, k := range idx {
				pre[i] = alpha[k]
			}
			for ti, t := range tails {
				// thorough: the long tail only with the two canonical headers beyond length 8
				if L > 8 && ti >= 2 {
					continue
				}
				in := append(append([]byte{}, pre...), t...)
				batch = append(batch, in)
			}
			if len(batch) >= 1<<18 {
				if err := flush("gen.alphabet"); err != nil {
					return err
				}
			}
			// next
			i := L - 1
			for i >= 0 {
				idx[i]++
				if idx[i] < len(alpha) {
					break
				}
				idx[i] = 0
				i--
			}
			if i < 0 {
				break
			}
		}
	}
	if err := flush("gen.alphabet"); err != nil {
		return err
	}
	// random prefixes, boundary straddling
	nr := c.N(3000, 60000)
	for k := 0; k < nr; k++ {
		var n int
		switch c.Rng.Intn(4) {
		case 0:
			n = c.Rng.Intn(64)
		case 1:
			n = 4096 - 40 + c.Rng.Intn(80) // around the first bufio boundary
		case 2:
			n = 8192 - 40 + c.Rng.Intn(80)
		default:
			n = c.Rng.Intn(8192)
		}
		pre := make([]byte, n)
		switch c.Rng.Intn(3) {
		case 0:
			c.Rng.Read(pre)
		case 1:
			for i := range pre {
				pre[i] = alpha[c.Rng.Intn(5)]
			}
		default:
			for i := range pre {
				pre[i] = []byte{'I', 'M'}[c.Rng.Intn(2)]
			}
		}
		t := tails[c.Rng.Intn(len(tails))]
		in := append(pre, t...)
		if c.Rng.Intn(3) == 0 {
			in = append(in, make([]byte, c.Rng.Intn(100))...)
		}
		if c.Rng.Intn(5) == 0 && len(in) > 0 {
			in = in[:c.Rng.Intn(len(in))] // truncation
		}
		batch = append(batch, in)
	}
	if err := flush("gen.random"); err != nil {
		return err
	}
	// chunked readers on a subset: the result must be the same as for the plain reader (C08 for this entry point)
	nc := c.N(2000, 20000)
	for k := 0; k < nc; k++ {
		n := c.Rng.Intn(200)
		pre := make([]byte, n)
		for i := range pre {
			pre[i] = alpha[c.Rng.Intn(5)]
		}
		in := append(pre, tails[c.Rng.Intn(len(tails))]...)
		plain, _ := implTiffScan(in, nil)
		sched := []int{1 + c.Rng.Intn(7), 1 + c.Rng.Intn(3)}
		deof := c.Rng.Intn(2) == 0
		chunked, fr := implTiffScan(in, func(r io.Reader) io.Reader {
			return &chunkReader{data: in, sched: sched, dataEOF: deof, failAt: -1}
		})
		c.Count(fmt.Sprintf("chunk %x %v %v", in, sched, deof), len(in) >= 32)
		c.Stat("gen.chunked")
		if plain != chunked {
			c.Violate(Case{Entry: "tiff.ScanTiffHeader", Input: fmt.Sprintf("%s sched=%v dataEOF=%v", hexs(in), sched, deof), Expected: plain, Actual: chunked, Kind: "wrong-value", Frame: fr, Class: "chunking"})
		}
	}
	return nil
}
