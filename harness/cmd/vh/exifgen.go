package main

// Exif generator: logical metadata records -> forward layouts -> bytes, in either byte order, and the
// expectation the property demands for each record (in the model's raw token form, finished by finishModel).
// Written from the TIFF 6.0 / Exif 2.32 layout rules, independently of the reader.

import (
	"encoding/binary"
	"fmt"
	"sort"
	"strings"

	"github.com/evanoberholster/imagemeta/exif2/ifds"
)

type gEnt struct {
	id    uint16
	typ   uint16
	count uint32
	data  []byte // value bytes already in file order
	ifdTo string // "", "exif", "gps": the value is the offset of that directory
}

type lrec struct {
	make_, model, software, artist, copyright, desc     string
	lensMake, lensModel, lensSerial, bodySerial         string
	width, height, orientation                          uint16
	hasW, hasH, hasOrient                               bool
	modify, original, digitized                         string // "YYYY:MM:DD HH:MM:SS" or ""
	subSec, subSecOrig, subSecDig                       string
	off, offOrig, offDig                                string // "+HH:MM"
	expTime, fnum, focal                                [2]uint32
	hasExp, hasFn, hasFocal                             bool
	iso                                                 uint16
	hasIso                                              bool
	bias                                                [2]int32
	hasBias                                             bool
	program, mode, metering, flash, fl35                uint16
	hasProgram, hasMode, hasMetering, hasFlash, hasFl35 bool
	lensSpec                                            [8]uint32
	hasLensSpec                                         bool
	latRef, lngRef                                      byte // 'N' 'S' / 'E' 'W' / 0
	lat, lng                                            [6]uint32
	hasLat, hasLng                                      bool
	altRef                                              byte
	hasAltRef                                           bool
	alt                                                 [2]uint32
	hasAlt                                              bool
	gpsTime                                             [6]uint32
	hasGpsTime                                          bool
	gpsDate                                             string
}

type enc struct{ bo binary.AppendByteOrder }

func (e enc) u16(v ...uint16) []byte {
	var b []byte
	for _, x := range v {
		b = e.bo.AppendUint16(b, x)
	}
	return b
}
func (e enc) u32(v ...uint32) []byte {
	var b []byte
	for _, x := range v {
		b = e.bo.AppendUint32(b, x)
	}
	return b
}
func ascii(s string) []byte { return append([]byte(s), 0) }

func (e enc) entShort(id uint16, v uint16) gEnt { return gEnt{id: id, typ: 3, count: 1, data: e.u16(v)} }
func (e enc) entASCII(id uint16, s string) gEnt {
	return gEnt{id: id, typ: 2, count: uint32(len(s) + 1), data: ascii(s)}
}
func (e enc) entRat(id uint16, typ uint16, v ...uint32) gEnt {
	return gEnt{id: id, typ: typ, count: uint32(len(v) / 2), data: e.u32(v...)}
}

// identifiers that announce a directory in one directory and are foreign in the others: SubIFDs (IFD0 only), the Exif and
// GPS pointers (IFD0 only), the maker note (Exif directory only)
var contextForeign = map[string][]uint16{"ifd0": {0x927c}, "exif": {0x014a, 0x8769, 0x8825}, "gps": {0x014a, 0x8769, 0x8825, 0x927c}}

var foreignIDs = []uint16{0x00fe, 0x0102, 0x011a, 0x011b, 0x0128, 0x0213, 0x9000, 0x9101, 0xa000, 0xa001, 0xa20e, 0xa300, 0xa401, 0xa403, 0xea1c, 0x0010, 0x001b}

func (c *Ctx) rstr(max int) string {
	n := 2 + c.Rng.Intn(max)
	b := make([]byte, n)
	for i := range b {
		b[i] = byte('A' + c.Rng.Intn(50))
		if b[i] == ' ' || b[i] == '\n' {
			b[i] = 'x'
		}
	}
	return string(b)
}

func (c *Ctx) rdate() string {
	return fmt.Sprintf("%04d:%02d:%02d %02d:%02d:%02d", 1990+c.Rng.Intn(60), 1+c.Rng.Intn(12), 1+c.Rng.Intn(28), c.Rng.Intn(24), c.Rng.Intn(60), c.Rng.Intn(60))
}

func genRecord(c *Ctx) lrec {
	var r lrec
	p := func() bool { return c.Rng.Intn(3) != 0 }
	if p() {
		r.make_ = []string{"Canon", "NIKON CORPORATION", "Apple", c.rstr(12), "SONY", "Nikon", c.rstr(30)}[c.Rng.Intn(7)]
	}
	if p() {
		r.model = []string{"Canon EOS 6D", "iPhone 12", c.rstr(20), "Canon EOS 90D", c.rstr(8)}[c.Rng.Intn(5)]
	}
	if p() {
		r.software = c.rstr(40)
	}
	if p() {
		r.artist = c.rstr(20)
	}
	if p() {
		r.copyright = c.rstr(60)
	}
	if c.Rng.Intn(4) == 0 {
		r.desc = c.rstr(900) // long value, below the 1024-byte scratch buffer
	}
	if p() {
		r.lensMake = c.rstr(10)
	}
	if p() {
		r.lensModel = c.rstr(30)
	}
	if p() {
		r.lensSerial = c.rstr(12)
	}
	if p() {
		r.bodySerial = c.rstr(12)
	}
	if p() {
		r.width, r.hasW = uint16(1+c.Rng.Intn(65535)), true
	}
	if p() {
		r.height, r.hasH = uint16(1+c.Rng.Intn(65535)), true
	}
	if p() {
		r.orientation, r.hasOrient = uint16(1+c.Rng.Intn(8)), true
	}
	if p() {
		r.modify = c.rdate()
	}
	if p() {
		r.original = c.rdate()
	}
	if p() {
		r.digitized = c.rdate()
	}
	zone := func() string {
		return fmt.Sprintf("%c%02d:%02d", "+-"[c.Rng.Intn(2)], c.Rng.Intn(15), []int{0, 30, 45, 15}[c.Rng.Intn(4)])
	}
	if c.Rng.Intn(2) == 0 {
		r.off = zone()
	}
	if c.Rng.Intn(2) == 0 {
		r.offOrig = zone()
	}
	if c.Rng.Intn(2) == 0 {
		r.offDig = zone()
	}
	ss := func() string {
		return []string{"", "", "5", "50", "500", "123", "000", "999", "1234", "123456"}[c.Rng.Intn(10)]
	}
	r.subSec, r.subSecOrig, r.subSecDig = ss(), ss(), ss()
	if p() {
		r.expTime, r.hasExp = [2]uint32{1 + uint32(c.Rng.Intn(30)), 1 + uint32(c.Rng.Intn(8000))}, true
	}
	if p() {
		r.fnum, r.hasFn = [2]uint32{10 + uint32(c.Rng.Intn(310)), 10}, true
	}
	if p() {
		r.focal, r.hasFocal = [2]uint32{uint32(1 + c.Rng.Intn(8000)), uint32(1 + c.Rng.Intn(20))}, true
	}
	if p() {
		r.iso, r.hasIso = uint16(50+c.Rng.Intn(60000)), true
	}
	if p() {
		r.bias, r.hasBias = [2]int32{int32(c.Rng.Intn(13) - 6), int32(1 + c.Rng.Intn(3))}, true
	}
	if p() {
		r.program, r.hasProgram = uint16(c.Rng.Intn(10)), true
	}
	if p() {
		r.mode, r.hasMode = uint16(c.Rng.Intn(3)), true
	}
	if p() {
		r.metering, r.hasMetering = uint16(c.Rng.Intn(7)), true
	}
	if p() {
		r.flash, r.hasFlash = uint16([]int{0, 1, 5, 7, 9, 16, 24, 25, 65, 95}[c.Rng.Intn(10)]), true
	}
	if p() {
		r.fl35, r.hasFl35 = uint16(1+c.Rng.Intn(2000)), true
	}
	if c.Rng.Intn(2) == 0 {
		r.lensSpec, r.hasLensSpec = [8]uint32{uint32(10 + c.Rng.Intn(100)), 1, uint32(100 + c.Rng.Intn(400)), 1, 28, 10, 56, 10}, true
	}
	if c.Rng.Intn(2) == 0 {
		r.latRef, r.hasLat = "NS"[c.Rng.Intn(2)], true
		r.lat = [6]uint32{uint32(c.Rng.Intn(90)), 1, uint32(c.Rng.Intn(60)), 1, uint32(c.Rng.Intn(6000)), 100}
		r.lngRef, r.hasLng = "EW"[c.Rng.Intn(2)], true
		r.lng = [6]uint32{uint32(c.Rng.Intn(180)), 1, uint32(c.Rng.Intn(60)), 1, uint32(c.Rng.Intn(6000)), 100}
		if p() {
			r.altRef, r.hasAltRef = byte(c.Rng.Intn(2)), true
			r.alt, r.hasAlt = [2]uint32{uint32(c.Rng.Intn(900000)), uint32(1 + c.Rng.Intn(100))}, true
		}
		if p() {
			r.gpsTime, r.hasGpsTime = [6]uint32{uint32(c.Rng.Intn(24)), 1, uint32(c.Rng.Intn(60)), 1, uint32(c.Rng.Intn(60)), 1}, true
			r.gpsDate = fmt.Sprintf("%04d:%02d:%02d", 1999+c.Rng.Intn(40), 1+c.Rng.Intn(12), 1+c.Rng.Intn(28))
		}
	}
	return r
}

// entries of the three directories for a record
func (e enc) dirs(r lrec) (ifd0, exif, gps []gEnt) {
	if r.make_ != "" {
		ifd0 = append(ifd0, e.entASCII(0x010f, r.make_))
	}
	if r.model != "" {
		ifd0 = append(ifd0, e.entASCII(0x0110, r.model))
	}
	if r.software != "" {
		ifd0 = append(ifd0, e.entASCII(0x0131, r.software))
	}
	if r.artist != "" {
		ifd0 = append(ifd0, e.entASCII(0x013b, r.artist))
	}
	if r.copyright != "" {
		ifd0 = append(ifd0, e.entASCII(0x8298, r.copyright))
	}
	if r.desc != "" {
		ifd0 = append(ifd0, e.entASCII(0x010e, r.desc))
	}
	if r.hasW {
		ifd0 = append(ifd0, e.entShort(0x0100, r.width))
	}
	if r.hasH {
		ifd0 = append(ifd0, gEnt{id: 0x0101, typ: 4, count: 1, data: e.u32(uint32(r.height))})
	}
	if r.hasOrient {
		ifd0 = append(ifd0, e.entShort(0x0112, r.orientation))
	}
	if r.modify != "" {
		ifd0 = append(ifd0, e.entASCII(0x0132, r.modify))
	}
	add := func(l *[]gEnt, x gEnt) { *l = append(*l, x) }
	if r.lensMake != "" {
		add(&exif, e.entASCII(0xa433, r.lensMake))
	}
	if r.lensModel != "" {
		add(&exif, e.entASCII(0xa434, r.lensModel))
	}
	if r.lensSerial != "" {
		add(&exif, e.entASCII(0xa435, r.lensSerial))
	}
	if r.bodySerial != "" {
		add(&exif, e.entASCII(0xa431, r.bodySerial))
	}
	if r.original != "" {
		add(&exif, e.entASCII(0x9003, r.original))
	}
	if r.digitized != "" {
		add(&exif, e.entASCII(0x9004, r.digitized))
	}
	for i, s := range []string{r.subSec, r.subSecOrig, r.subSecDig} {
		if s != "" {
			add(&exif, e.entASCII(uint16(0x9290+i), s))
		}
	}
	for i, s := range []string{r.off, r.offOrig, r.offDig} {
		if s != "" {
			add(&exif, e.entASCII(uint16(0x9010+i), s))
		}
	}
	if r.hasExp {
		add(&exif, e.entRat(0x829a, 5, r.expTime[0], r.expTime[1]))
	}
	if r.hasFn {
		add(&exif, e.entRat(0x829d, 5, r.fnum[0], r.fnum[1]))
	}
	if r.hasFocal {
		add(&exif, e.entRat(0x920a, 5, r.focal[0], r.focal[1]))
	}
	if r.hasIso {
		add(&exif, e.entShort(0x8827, r.iso))
	}
	if r.hasBias {
		add(&exif, e.entRat(0x9204, 10, uint32(r.bias[0]), uint32(r.bias[1])))
	}
	if r.hasProgram {
		add(&exif, e.entShort(0x8822, r.program))
	}
	if r.hasMode {
		add(&exif, e.entShort(0xa402, r.mode))
	}
	if r.hasMetering {
		add(&exif, e.entShort(0x9207, r.metering))
	}
	if r.hasFlash {
		add(&exif, e.entShort(0x9209, r.flash))
	}
	if r.hasFl35 {
		add(&exif, e.entShort(0xa405, r.fl35))
	}
	if r.hasLensSpec {
		add(&exif, e.entRat(0xa432, 5, r.lensSpec[:]...))
	}
	if r.hasLat {
		add(&gps, gEnt{id: 1, typ: 2, count: 2, data: []byte{r.latRef, 0}})
		add(&gps, e.entRat(2, 5, r.lat[:]...))
	}
	if r.hasLng {
		add(&gps, gEnt{id: 3, typ: 2, count: 2, data: []byte{r.lngRef, 0}})
		add(&gps, e.entRat(4, 5, r.lng[:]...))
	}
	if r.hasAltRef {
		add(&gps, gEnt{id: 5, typ: 1, count: 1, data: []byte{r.altRef}})
	}
	if r.hasAlt {
		add(&gps, e.entRat(6, 5, r.alt[:]...))
	}
	if r.hasGpsTime {
		add(&gps, e.entRat(7, 5, r.gpsTime[:]...))
	}
	if r.gpsDate != "" {
		add(&gps, e.entASCII(0x1d, r.gpsDate))
	}
	return
}

type layoutOpt struct {
	shuffleEntries bool
	foreign        int  // foreign tags per directory
	pad            int  // max padding between blocks
	headerPad      int  // bytes between the TIFF header and IFD0
	valuesFirst    bool // values of a directory before its sub-directories where possible
	entryOrderVals bool // out-of-line values of a directory in entry order (camera style) rather than shuffled
	ifd1           bool // IFD0 has a successor directory (thumbnail IFD) after everything else, as camera files do
	slotJunk       bool // the unused bytes of an embedded value shorter than 4 bytes are arbitrary (TIFF leaves them undefined)
	isoPair        bool // ISOSpeedRatings as SHORT x 2 (count is "any" in Exif 2.3): the first value is the ISO speed
	zeroDen        bool // MALFORMED: some denominators of RATIONAL / SRATIONAL values are zero
	depthFirst     bool // the blocks of a directory (its values, then its sub-directories) directly follow it, before anything else pending
}

// buildTIFF lays the record out in a forward layout and returns the bytes.
func buildTIFF(c *Ctx, r lrec, big bool, lo layoutOpt) []byte {
	var e enc
	var out []byte
	if big {
		e.bo = binary.BigEndian
		out = []byte("MM\x00*")
	} else {
		e.bo = binary.LittleEndian
		out = []byte("II*\x00")
	}
	d0, de, dg := e.dirs(r)
	withForeign := func(dir string, l []gEnt) []gEnt {
		for i := 0; i < lo.foreign; i++ {
			id := foreignIDs[c.Rng.Intn(len(foreignIDs))]
			if ids := contextForeign[dir]; len(ids) > 0 && c.Rng.Intn(4) == 0 {
				// an identifier that points to a directory (or a list of directories) in ANOTHER directory and means nothing
				// here: LONG x 1..3 whose values look like offsets into this file
				n := 1 + c.Rng.Intn(3)
				var d []byte
				for k := 0; k < n; k++ {
					d = append(d, e.u32(uint32(c.Rng.Intn(3000)))...)
				}
				l = append(l, gEnt{id: ids[c.Rng.Intn(len(ids))], typ: 4, count: uint32(n), data: d})
				continue
			}
			switch c.Rng.Intn(3) {
			case 0:
				l = append(l, e.entShort(id, uint16(c.Rng.Intn(65536))))
			case 1:
				l = append(l, e.entASCII(id, c.rstr(40)))
			default:
				l = append(l, e.entRat(id, 5, c.Rng.Uint32(), c.Rng.Uint32()))
			}
		}
		if lo.shuffleEntries {
			c.Rng.Shuffle(len(l), func(i, j int) { l[i], l[j] = l[j], l[i] })
		} else {
			sort.SliceStable(l, func(i, j int) bool { return l[i].id < l[j].id })
		}
		return l
	}
	if len(de) > 0 {
		d0 = append(d0, gEnt{id: 0x8769, typ: 4, count: 1, ifdTo: "exif"})
	}
	if len(dg) > 0 {
		d0 = append(d0, gEnt{id: 0x8825, typ: 4, count: 1, ifdTo: "gps"})
	}
	if lo.isoPair {
		for i := range de {
			if de[i].id == 0x8827 && de[i].typ == 3 && de[i].count == 1 {
				de[i].count = 2
				de[i].data = append(append([]byte{}, de[i].data...), e.u16(uint16(1+c.Rng.Intn(65535)))...)
			}
		}
	}
	if lo.zeroDen {
		for _, l := range [][]gEnt{d0, de, dg} {
			for i := range l {
				if (l[i].typ == 5 || l[i].typ == 10) && len(l[i].data) >= 8 && c.Rng.Intn(2) == 0 {
					d := append([]byte{}, l[i].data...)
					n := len(d) / 8
					k := c.Rng.Intn(n) // at least one zero, the others at random: mixed zero and non-zero denominators
					for j := 0; j < n; j++ {
						if j == k || c.Rng.Intn(3) == 0 {
							copy(d[8*j+4:8*j+8], []byte{0, 0, 0, 0})
						}
					}
					l[i].data = d
				}
			}
		}
	}
	dirsByName := map[string][]gEnt{"ifd0": withForeign("ifd0", d0), "exif": withForeign("exif", de), "gps": withForeign("gps", dg)}
	// block scheduling: a directory, then (in random forward order) its out-of-line values and sub-directories
	type patch struct {
		at  int // position of the 4-byte offset slot in out
		val func() uint32
	}
	dirPos := map[string]int{}
	var patches []patch
	pad := func() {
		if lo.pad > 0 {
			out = append(out, make([]byte, c.Rng.Intn(lo.pad+1))...)
		}
	}
	// pending blocks: either a value (bytes + slot to patch) or a directory name
	type block struct {
		dir   string
		value []byte
		slot  int
	}
	var pending []block
	nextSlot := map[string]int{}
	emitDir := func(name string) {
		ents := dirsByName[name]
		dirPos[name] = len(out)
		out = append(out, e.u16(uint16(len(ents)))...)
		var mine []block
		for _, en := range ents {
			out = append(out, e.u16(en.id, en.typ)...)
			out = append(out, e.u32(en.count)...)
			slot := len(out)
			switch {
			case en.ifdTo != "":
				out = append(out, 0, 0, 0, 0)
				nm := en.ifdTo
				patches = append(patches, patch{slot, func() uint32 { return uint32(dirPos[nm]) }})
				mine = append(mine, block{dir: nm})
			case len(en.data) <= 4:
				v := append(append([]byte{}, en.data...), 0, 0, 0, 0)
				if lo.slotJunk {
					for j := len(en.data); j < 4; j++ {
						v[j] = byte(1 + c.Rng.Intn(255))
					}
				}
				out = append(out, v[:4]...)
			default:
				out = append(out, 0, 0, 0, 0)
				mine = append(mine, block{value: en.data, slot: slot})
			}
		}
		nextSlot[name] = len(out)
		out = append(out, 0, 0, 0, 0) // next IFD
		if !lo.entryOrderVals {
			c.Rng.Shuffle(len(mine), func(i, j int) { mine[i], mine[j] = mine[j], mine[i] })
		}
		if lo.valuesFirst {
			sort.SliceStable(mine, func(i, j int) bool { return mine[i].dir == "" && mine[j].dir != "" })
		}
		if lo.depthFirst {
			pending = append(append([]block{}, mine...), pending...)
		} else {
			pending = append(pending, mine...)
		}
	}
	out = append(out, 0, 0, 0, 0)
	out = append(out, make([]byte, lo.headerPad)...)
	copy(out[4:8], e.u32(uint32(len(out))))
	emitDir("ifd0")
	for len(pending) > 0 {
		k := 0
		if !lo.entryOrderVals {
			k = c.Rng.Intn(len(pending))
		}
		b := pending[k]
		pending = append(pending[:k], pending[k+1:]...)
		pad()
		if b.dir != "" {
			emitDir(b.dir)
		} else {
			copy(out[b.slot:], e.u32(uint32(len(out))))
			out = append(out, b.value...)
		}
	}
	if lo.ifd1 {
		// IFD1: never parsed by the decoder (it only seeks to it); its entries name the same fields with other values
		pad()
		copy(out[nextSlot["ifd0"]:], e.u32(uint32(len(out))))
		thumb := make([]byte, 8+c.Rng.Intn(40))
		c.Rng.Read(thumb)
		decoy := []byte("IFD1-decoy-make\x00")
		d1 := len(out)
		out = append(out, e.u16(4)...)
		valAt := d1 + 2 + 4*12 + 4
		out = append(out, e.u16(0x0103, 3)...)
		out = append(out, e.u32(1)...)
		out = append(out, append(e.u16(6), 0, 0)...)
		out = append(out, e.u16(0x010f, 2)...)
		out = append(out, e.u32(uint32(len(decoy)))...)
		out = append(out, e.u32(uint32(valAt))...)
		out = append(out, e.u16(0x0201, 4)...)
		out = append(out, e.u32(1)...)
		out = append(out, e.u32(uint32(valAt+len(decoy)))...)
		out = append(out, e.u16(0x0202, 4)...)
		out = append(out, e.u32(1)...)
		out = append(out, e.u32(uint32(len(thumb)))...)
		out = append(out, 0, 0, 0, 0)
		out = append(out, decoy...)
		out = append(out, thumb...)
	}
	for _, p := range patches {
		copy(out[p.at:], e.u32(p.val()))
	}
	return out
}

// expectedRaw: what the property demands, in the raw token form of the model driver (finished by finishModel)
func expectedRaw(r lrec, imageType int) string {
	hexOr := func(s string) string {
		if s == "" {
			return "-"
		}
		return hexs([]byte(s))
	}
	mk, model := r.make_, r.model
	cmake, cmodel := 0, 0
	if m, ok := ifds.CameraMakeFromString(r.make_); ok && r.make_ != "" {
		cmake, mk = int(m), m.String()
	}
	// model normalisation applies to recognised Canon / Apple models only; the generator's known models map to themselves
	if cmake == int(ifds.Canon) && (r.model == "Canon EOS 6D" || r.model == "Canon EOS 90D") {
		cmodel = knownCanon[r.model]
	}
	if cmake == int(ifds.Apple) && r.model == "iPhone 12" {
		cmodel = knownApple[r.model]
	}
	date := func(s string) string {
		if s == "" {
			return "-"
		}
		var y, mo, d, h, mi, sc int
		fmt.Sscanf(s, "%d:%d:%d %d:%d:%d", &y, &mo, &d, &h, &mi, &sc)
		return fmt.Sprintf("%d.%d.%d.%d.%d.%d", y, mo, d, h, mi, sc)
	}
	// sub-second digits are a decimal fraction of a second (Exif 2.32): "5" = 500 ms, "50" = 500 ms, "123456" = 123 ms
	subms := func(s string) int {
		if s == "" {
			return 0
		}
		d := s
		for len(d) < 3 {
			d += "0"
		}
		v := 0
		fmt.Sscanf(d[:3], "%d", &v)
		return v
	}
	zone := func(s string) string {
		if s == "" {
			return "N"
		}
		var h, m int
		fmt.Sscanf(s[1:], "%d:%d", &h, &m)
		secs := h*3600 + m*60
		if s[0] == '-' {
			secs = -secs
		}
		return fmt.Sprintf("F.%d.%s", secs, hexs([]byte(s)))
	}
	rat := func(has bool, v [2]uint32) string {
		if !has {
			return "Z.0.0"
		}
		return fmt.Sprintf("R.%d.%d", v[0], v[1])
	}
	u := func(has bool, v uint16) int {
		if has {
			return int(v)
		}
		return 0
	}
	bias := 0
	if r.hasBias {
		n, d := int16(r.bias[0]), int16(r.bias[1])
		bias = int(int16(n<<8) + (d << 8 >> 8))
	}
	lens := "-"
	if r.hasLensSpec {
		var p []string
		for _, v := range r.lensSpec {
			p = append(p, fmt.Sprint(v))
		}
		lens = strings.Join(p, ".")
	}
	six := func(has bool, v [6]uint32) string {
		if !has {
			return "-"
		}
		var p []string
		for _, x := range v {
			p = append(p, fmt.Sprint(x))
		}
		return strings.Join(p, ".")
	}
	b2 := func(b bool) int {
		if b {
			return 1
		}
		return 0
	}
	gdate := "-"
	if r.gpsDate != "" {
		var y, mo, d int
		fmt.Sscanf(r.gpsDate, "%d:%d:%d", &y, &mo, &d)
		gdate = fmt.Sprintf("%d.%d.%d.0.0.0", y, mo, d)
	}
	gt := 0
	if r.hasGpsTime {
		gt = int(r.gpsTime[0]/r.gpsTime[1])*3600 + int(r.gpsTime[2]/r.gpsTime[3])*60 + int(r.gpsTime[4]/r.gpsTime[5])
	}
	fl35 := "Z.0.0"
	if r.hasFl35 {
		fl35 = fmt.Sprintf("R.%d.1", r.fl35)
	}
	alt := "-"
	if r.hasAlt {
		alt = fmt.Sprintf("%d.%d", r.alt[0], r.alt[1])
	}
	return fmt.Sprintf("nil it=%d make=%s model=%s cmake=%d cmodel=%d w=%d h=%d orient=%d sw=%s artist=%s copy=%s desc=%s lmake=%s lmodel=%s lserial=%s cserial=%s stripo=0 stripc=0 et=%s fn=%s fl=%s fl35=%s iso=%d eb=%d ep=%d em=%d mm=%d flash=%d lens=%s tmod=%s/%d/%s torig=%s/%d/%s tcreate=%s/%d/%s lat=%d/%s lng=%d/%s alt=%d/%s gpst=%s/%d",
		imageType, hexOr(mk), hexOr(model), cmake, cmodel, u(r.hasW, r.width), u(r.hasH, r.height), u(r.hasOrient, r.orientation),
		hexOr(r.software), hexOr(r.artist), hexOr(r.copyright), hexOr(r.desc), hexOr(r.lensMake), hexOr(r.lensModel), hexOr(r.lensSerial), hexOr(r.bodySerial),
		rat(r.hasExp, r.expTime), rat(r.hasFn, r.fnum), rat(r.hasFocal, r.focal), fl35, u(r.hasIso, r.iso), bias, u(r.hasProgram, r.program), u(r.hasMode, r.mode),
		u(r.hasMetering, r.metering), u(r.hasFlash, r.flash), lens,
		date(r.modify), subms(r.subSec), zone(r.off), date(r.original), subms(r.subSecOrig), zone(r.offOrig), date(r.digitized), subms(r.subSecDig), zone(r.offDig),
		b2(r.latRef == 'S'), six(r.hasLat, r.lat), b2(r.lngRef == 'W'), six(r.hasLng, r.lng), b2(r.hasAltRef && r.altRef == 1), alt, gdate, gt)
}

var knownCanon = map[string]int{}
var knownApple = map[string]int{}

// singleDirTIFF: a TIFF whose first (and only) directory holds the given entries, values after the directory in entry
// order (what Canon writes into each CMT box of a CR3 file)
func singleDirTIFF(big bool, ents []gEnt) []byte {
	var e enc
	var out []byte
	if big {
		e.bo = binary.BigEndian
		out = []byte("MM\x00*")
	} else {
		e.bo = binary.LittleEndian
		out = []byte("II*\x00")
	}
	out = append(out, e.u32(8)...)
	sort.SliceStable(ents, func(i, j int) bool { return ents[i].id < ents[j].id })
	out = append(out, e.u16(uint16(len(ents)))...)
	type slot struct {
		at   int
		data []byte
	}
	var slots []slot
	for _, en := range ents {
		out = append(out, e.u16(en.id, en.typ)...)
		out = append(out, e.u32(en.count)...)
		if len(en.data) <= 4 {
			v := append(append([]byte{}, en.data...), 0, 0, 0, 0)
			out = append(out, v[:4]...)
		} else {
			slots = append(slots, slot{len(out), en.data})
			out = append(out, 0, 0, 0, 0)
		}
	}
	out = append(out, 0, 0, 0, 0)
	for _, s := range slots {
		copy(out[s.at:], e.u32(uint32(len(out))))
		out = append(out, s.data...)
		if len(out)%2 == 1 {
			out = append(out, 0)
		}
	}
	return out
}

// inCR3: the record's three directories as the CMT1 / CMT2 / CMT4 boxes of a Canon CR3 file (CMT3 holds an empty maker
// note), with the other boxes a camera writes around them
func inCR3(c *Ctx, r lrec, big bool) []byte {
	var e enc
	if big {
		e.bo = binary.BigEndian
	} else {
		e.bo = binary.LittleEndian
	}
	d0, de, dg := e.dirs(r)
	meta := &bnode{typ: "uuid", prefix: uuidCR3Meta}
	meta.kids = append(meta.kids, &bnode{typ: "CNCV", payload: []byte("CanonCR3_001/00.10.00/00.00.00")})
	if c.Rng.Intn(2) == 0 {
		meta.kids = append(meta.kids, unknownBox(c, 40))
	}
	meta.kids = append(meta.kids, &bnode{typ: "CMT1", payload: singleDirTIFF(big, d0)})
	meta.kids = append(meta.kids, &bnode{typ: "CMT2", payload: singleDirTIFF(big, de)})
	meta.kids = append(meta.kids, &bnode{typ: "CMT3", payload: singleDirTIFF(big, nil)})
	meta.kids = append(meta.kids, &bnode{typ: "CMT4", payload: singleDirTIFF(big, dg)})
	moov := &bnode{typ: "moov", kids: []*bnode{meta, {typ: "mvhd", payload: make([]byte, 100)}, {typ: "trak", payload: make([]byte, 60)}}}
	t := &bmffTree{top: []*bnode{{typ: "ftyp", payload: []byte("crx \x00\x00\x00\x01crx isom")}, moov, xpacketBox(c), {typ: "mdat", payload: make([]byte, 64)}}}
	return t.bytes()
}
