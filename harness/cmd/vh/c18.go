package main

// C18 — vectorised DCT kernels equal the portable kernels bit-for-bit and match DCT-II.
// Worker op "dct <kernel> <hex float32 bits>": run one kernel of the real code on the vector (inside a larger buffer with
// guard regions) and return the result bits.

import (
	"encoding/binary"
	"fmt"
	"math"
	"strings"
	"time"

	"vh/internal/drv"

	"github.com/evanoberholster/imagemeta/imagehash/transforms"
	"github.com/evanoberholster/imagemeta/imagehash/transforms32"
)

func f32sFromHex(h string) []float32 {
	b := unhex(h)
	out := make([]float32, len(b)/4)
	for i := range out {
		out[i] = math.Float32frombits(binary.LittleEndian.Uint32(b[4*i:]))
	}
	return out
}

func f32sHex(v []float32) string {
	b := make([]byte, 4*len(v))
	for i, x := range v {
		binary.LittleEndian.PutUint32(b[4*i:], math.Float32bits(x))
	}
	return hexs(b)
}

// canonNaN: sign and payload of a NaN are not part of the comparison (the default NaN differs between x86 SSE and other
// float implementations); every NaN lane becomes 7fc00000
func canonNaN(h string) string {
	if len(h)%8 != 0 {
		return h
	}
	b := []byte(h)
	for i := 0; i+8 <= len(b); i += 8 {
		v := f32sFromHex(string(b[i : i+8]))
		if v[0] != v[0] {
			copy(b[i:], "0000c07f")
		}
	}
	return string(b)
}

const guardBits = 0x7fc0dead // a quiet NaN with a recognisable payload

func init() {
	props["C18"] = runC18
	workerOps["dct"] = func(a []string) string {
		in := f32sFromHex(a[1])
		n := len(in)
		g := 64
		if len(a) > 2 {
			// start the argument 0..7 floats past a 32-byte boundary: the kernels must not assume alignment
			var off int
			fmt.Sscanf(a[2], "%d", &off)
			g += off % 8
		}
		buf := make([]float32, n+2*g)
		for i := range buf {
			buf[i] = math.Float32frombits(guardBits)
		}
		win := buf[g : g+n : g+n]
		copy(win, in)
		switch a[0] {
		case "asm64":
			if !transforms32.FlagUseASM {
				return "noasm"
			}
			transforms32.VerifAsmForwardDCT64(win)
		case "go64":
			transforms32.VerifForwardDCT64Go(win)
		case "asm256":
			if !transforms32.FlagUseASM {
				return "noasm"
			}
			transforms32.VerifAsmForwardDCT256(win)
		case "go256":
			transforms32.VerifForwardDCT256Go(win)
		case "pub64", "pub256", "pub2d64", "pub2d256":
			// the public entry points, through the library's own dispatch, with the assembly flag forced to a[3]
			saved := transforms32.FlagUseASM
			want := len(a) > 3 && a[3] == "asm"
			if want && !saved {
				return "noasm"
			}
			transforms32.FlagUseASM = want
			defer func() { transforms32.FlagUseASM = saved }()
			switch a[0] {
			case "pub64":
				transforms32.ForwardDCT64(win)
			case "pub256":
				transforms32.ForwardDCT256(win)
			case "pub2d64":
				r := transforms32.DCT2DHash64(win)
				return f32sHex(r[:]) + " " + f32sHex(win)
			case "pub2d256":
				w2 := win
				r := transforms32.DCT2DHash256(&w2)
				return f32sHex(r[:]) + " " + fmt.Sprint(fnv32([]byte(f32sHex(win))))
			}
		case "asm2d64", "go2d64":
			if a[0] == "asm2d64" && !transforms32.FlagUseASM {
				return "noasm"
			}
			var r [64]float32
			if a[0] == "asm2d64" {
				r = transforms32.VerifAsmDCT2DHash64(win)
			} else {
				r = transforms32.VerifDCT2DHash64Go(win)
			}
			for i := 0; i < g; i++ {
				if math.Float32bits(buf[i]) != guardBits || math.Float32bits(buf[g+n+i]) != guardBits {
					return "guard-overwritten"
				}
			}
			return f32sHex(r[:])
		case "f64":
			// the float64 kernel of the transforms package on the same values
			x := make([]float64, n)
			for i := range in {
				x[i] = float64(in[i])
			}
			transforms.DCT1D(x)
			out := make([]float32, n)
			for i := range x {
				out[i] = float32(x[i])
			}
			return f32sHex(out)
		default:
			return "bad-kernel"
		}
		for i := 0; i < g; i++ {
			if math.Float32bits(buf[i]) != guardBits || math.Float32bits(buf[g+n+i]) != guardBits {
				return "guard-overwritten"
			}
		}
		return f32sHex(win)
	}
}

// dctII: the unscaled DCT-II in float64 (what Lee's recursion computes: X_k = sum x_n cos(pi (2n+1) k / 2N))
func dctII(x []float32) []float64 {
	n := len(x)
	out := make([]float64, n)
	for k := 0; k < n; k++ {
		s := 0.0
		for i := 0; i < n; i++ {
			s += float64(x[i]) * math.Cos(math.Pi*float64(2*i+1)*float64(k)/float64(2*n))
		}
		out[k] = s
	}
	return out
}

func genVec(c *Ctx, n int, kind int) []float32 {
	v := make([]float32, n)
	switch kind {
	case 0: // random over 12 decades
		sc := math.Pow(10, float64(c.Rng.Intn(13)-6))
		for i := range v {
			v[i] = float32((c.Rng.Float64()*2 - 1) * sc)
		}
	case 1: // pixel-like
		for i := range v {
			v[i] = float32(c.Rng.Intn(65536))
		}
	case 2: // sign / magnitude edges (finite)
		ed := []float32{0, float32(math.Copysign(0, -1)), 1, -1, 255, 65535, 1e-30, -1e-30, 1e30, -1e30, math.SmallestNonzeroFloat32, 3.4e38, 0.5, -0.5}
		for i := range v {
			v[i] = ed[c.Rng.Intn(len(ed))]
		}
	case 3: // ramp / constant
		a, b := float32(c.Rng.Intn(1000)), float32(c.Rng.Intn(100))
		for i := range v {
			v[i] = a + b*float32(i)
		}
	}
	return v
}

func runC18(c *Ctx) error {
	c.Res.Rule = "kernel pairs (asmForwardDCT64 / forwardDCT64, asmForwardDCT256 / forwardDCT256, asmDCT2DHash64 / portable 2-D) on: all 64 resp. 256 unit impulses (exhaustive), sign/magnitude edge vectors, pixel-like vectors, ramps, random vectors over 12 decades of scale: bit-for-bit equal results, the argument placed at every 4-byte alignment, guard regions of at least 64 floats before and after it intact, |portable - DCT-II(float64)| <= 1e-5 * ||x||_1, and the float64 kernel within 1e-9 * ||x||_1. Correspondence: the Lean semantics of the regenerated assembly and the Lean model of the portable kernels, instantiated with IEEE single precision, against the real kernels on the same vectors (bitwise)."
	type job struct {
		n    int
		vec  []float32
		kind string
	}
	var jobs []job
	for _, n := range []int{64, 256} {
		for i := 0; i < n; i++ {
			v := make([]float32, n)
			v[i] = 1
			jobs = append(jobs, job{n, v, "impulse"})
			w := make([]float32, n)
			w[i] = -37.5
			jobs = append(jobs, job{n, w, "impulse"})
		}
		for k := 0; k < c.N(150, 6000); k++ {
			kd := c.Rng.Intn(4)
			jobs = append(jobs, job{n, genVec(c, n, kd), []string{"random", "pixels", "edges", "ramp"}[kd]})
		}
	}
	type res struct{ asm, gok, f64 string }
	out := make([]res, len(jobs))
	runPool(len(jobs), 20*time.Second, func(wk *Worker, i int) {
		h := f32sHex(jobs[i].vec)
		out[i] = res{wk.Call(fmt.Sprintf("dct asm%d %s %d", jobs[i].n, h, i%8)), wk.Call(fmt.Sprintf("dct go%d %s %d", jobs[i].n, h, i%8)), wk.Call("dct f64 " + h)}
	})
	// model side
	var mreq []string
	for _, j := range jobs {
		h := f32sHex(j.vec)
		mreq = append(mreq, fmt.Sprintf("dct.asm%d %s", j.n, h), fmt.Sprintf("dct.go%d %s", j.n, h))
	}
	model, err := drv.Batch(mreq)
	if err != nil {
		return err
	}
	maxRatio := map[string]float64{}
	defer func() {
		m := map[string]string{"op": "largest |kernel - DCT-II| / ||x||_1 per kernel and input kind"}
		for k, v := range maxRatio {
			m[k] = fmt.Sprintf("%.3g", v)
		}
		c.Sample(m)
	}()
	for i, j := range jobs {
		r := out[i]
		key := fmt.Sprint(j.n, f32sHex(j.vec)[:min(64, 8*j.n)], fnv32([]byte(f32sHex(j.vec))))
		c.Count(key, true)
		c.Stat(fmt.Sprintf("kernel.%d.%s", j.n, j.kind))
		if i%400 == 0 {
			c.Sample(map[string]string{"op": fmt.Sprintf("dct %d %s", j.n, j.kind), "impl": r.asm[:min(len(r.asm), 80)], "model": model[2*i][:min(len(model[2*i]), 80)]})
		}
		bad := func(s string) bool {
			return strings.HasPrefix(s, "panic") || strings.HasPrefix(s, "crash") || s == "hang" || s == "guard-overwritten" || s == "bad-kernel"
		}
		in := fmt.Sprintf("dct %d %s", j.n, f32sHex(j.vec))
		if bad(r.asm) || bad(r.gok) {
			c.Violate(Case{Entry: fmt.Sprintf("ForwardDCT%d", j.n), Input: in, Expected: "returns, guards intact", Actual: r.asm + " / " + r.gok, Kind: "panic", Class: "crash-or-guard"})
			continue
		}
		if r.asm != "noasm" && canonNaN(r.asm) != canonNaN(r.gok) {
			c.Violate(Case{Entry: fmt.Sprintf("ForwardDCT%d", j.n), Input: in, Expected: r.gok, Actual: r.asm, Kind: "wrong-value", Class: "asm-differs-from-portable:" + j.kind})
		}
		// DCT-II
		ref := dctII(j.vec)
		l1 := 0.0
		for _, x := range j.vec {
			l1 += math.Abs(float64(x))
		}
		got := f32sFromHex(r.gok)
		g64 := f32sFromHex(r.f64)
		finite := !math.IsInf(l1, 0) && l1 < 1e37
		for k := range ref {
			if finite && l1 > 0 {
				if q := math.Abs(float64(got[k])-ref[k]) / l1; q > maxRatio[fmt.Sprintf("f32.%d.%s", j.n, j.kind)] {
					maxRatio[fmt.Sprintf("f32.%d.%s", j.n, j.kind)] = q
				}
				if q := math.Abs(float64(g64[k])-ref[k]) / l1; q > maxRatio[fmt.Sprintf("f64.%d.%s", j.n, j.kind)] {
					maxRatio[fmt.Sprintf("f64.%d.%s", j.n, j.kind)] = q
				}
			}
			if finite && math.Abs(float64(got[k])-ref[k]) > 1e-5*l1+1e-30 {
				c.Violate(Case{Entry: fmt.Sprintf("forwardDCT%d", j.n), Input: in, Expected: fmt.Sprintf("coefficient %d = %g (DCT-II)", k, ref[k]), Actual: fmt.Sprint(got[k]), Kind: "wrong-value", Class: fmt.Sprintf("portable-vs-dctII:%d:%s", j.n, j.kind)})
				break
			}
			// the float64 kernel is scaled like the float32 one; compared after rounding to float32
			if finite && math.Abs(float64(g64[k])-ref[k]) > 1e-6*l1+1e-30 {
				c.Violate(Case{Entry: "transforms.DCT1D", Input: in, Expected: fmt.Sprintf("coefficient %d = %g (DCT-II)", k, ref[k]), Actual: fmt.Sprint(g64[k]), Kind: "wrong-value", Class: "float64-vs-dctII"})
				break
			}
		}
		// correspondence
		c.Stat("corr.compared")
		if r.asm != "noasm" && canonNaN(model[2*i]) != canonNaN(r.asm) {
			c.Disagree(Case{Entry: fmt.Sprintf("asmForwardDCT%d", j.n), Input: in, Expected: model[2*i], Actual: r.asm})
		}
		if canonNaN(model[2*i+1]) != canonNaN(r.gok) {
			c.Disagree(Case{Entry: fmt.Sprintf("forwardDCT%d", j.n), Input: in, Expected: model[2*i+1], Actual: r.gok})
		}
	}
	// 2-D kernel pair
	for k := 0; k < c.N(30, 600); k++ {
		v := genVec(c, 64*64, []int{0, 1, 1, 3}[c.Rng.Intn(4)])
		wk := &Worker{Timeout: 20 * time.Second}
		h := f32sHex(v)
		a, g := wk.Call(fmt.Sprintf("dct asm2d64 %s %d", h, k%8)), wk.Call(fmt.Sprintf("dct go2d64 %s %d", h, k%8))
		wk.Close()
		c.Count(fmt.Sprint("2d", fnv32([]byte(h))), true)
		c.Stat("kernel.2d64")
		if a != "noasm" && a != g {
			c.Violate(Case{Entry: "DCT2DHash64", Input: fmt.Sprintf("2d64 fnv=%d seed=%d k=%d", fnv32([]byte(h)), c.Seed, k), Expected: g[:min(len(g), 200)], Actual: a[:min(len(a), 200)], Kind: "wrong-value", Class: "asm2d-differs-from-portable"})
		}
		// the public function through its own dispatch, both ways: the hash must not depend on which kernel the machine selects
		wk2 := &Worker{Timeout: 20 * time.Second}
		pg, pa := wk2.Call(fmt.Sprintf("dct pub2d64 %s %d go", h, k%8)), wk2.Call(fmt.Sprintf("dct pub2d64 %s %d asm", h, k%8))
		wk2.Close()
		c.Stat("kernel.2d64.public")
		if f := strings.Fields(pg); len(f) != 2 || f[0] != g {
			c.Violate(Case{Entry: "DCT2DHash64", Input: fmt.Sprintf("2d64 fnv=%d seed=%d k=%d FlagUseASM=false", fnv32([]byte(h)), c.Seed, k), Expected: g[:min(len(g), 200)], Actual: pg[:min(len(pg), 200)], Kind: "wrong-value", Class: "public-portable-2d-differs-from-kernel-pair"})
		}
		if pa != "noasm" && canonNaN(strings.Join(strings.Fields(pa), "")) != canonNaN(strings.Join(strings.Fields(pg), "")) {
			c.Violate(Case{Entry: "DCT2DHash64", Input: fmt.Sprintf("2d64 fnv=%d seed=%d k=%d", fnv32([]byte(h)), c.Seed, k), Expected: pg[:min(len(pg), 200)], Actual: pa[:min(len(pa), 200)], Kind: "wrong-value", Class: "public-2d-depends-on-dispatch"})
		}
	}
	// the public 1-D entry points and the 256x256 2-D function under both dispatch settings
	for k := 0; k < c.N(40, 400); k++ {
		n := []int{64, 256}[k%2]
		v := genVec(c, n, []int{0, 1, 1, 3}[c.Rng.Intn(4)])
		h := f32sHex(v)
		wk := &Worker{Timeout: 20 * time.Second}
		pg, pa := wk.Call(fmt.Sprintf("dct pub%d %s %d go", n, h, k%8)), wk.Call(fmt.Sprintf("dct pub%d %s %d asm", n, h, k%8))
		kg := wk.Call(fmt.Sprintf("dct go%d %s %d", n, h, k%8))
		wk.Close()
		c.Count(fmt.Sprint("pub", n, fnv32([]byte(h))), true)
		c.Stat(fmt.Sprintf("kernel.public%d", n))
		if canonNaN(pg) != canonNaN(kg) || (pa != "noasm" && canonNaN(pa) != canonNaN(kg)) {
			c.Violate(Case{Entry: fmt.Sprintf("ForwardDCT%d", n), Input: h[:min(len(h), 400)], Expected: kg[:min(len(kg), 200)], Actual: pg[:min(len(pg), 100)] + " / " + pa[:min(len(pa), 100)], Kind: "wrong-value", Class: "public-1d-depends-on-dispatch"})
		}
	}
	for k := 0; k < c.N(2, 12); k++ {
		v := genVec(c, 256*256, []int{1, 1, 3}[c.Rng.Intn(3)])
		h := f32sHex(v)
		wk := &Worker{Timeout: 60 * time.Second}
		pg, pa := wk.Call(fmt.Sprintf("dct pub2d256 %s %d go", h, k%8)), wk.Call(fmt.Sprintf("dct pub2d256 %s %d asm", h, k%8))
		wk.Close()
		c.Count(fmt.Sprint("pub2d256", fnv32([]byte(h))), true)
		c.Stat("kernel.2d256.public")
		if pa != "noasm" && canonNaN(pa) != canonNaN(pg) {
			c.Violate(Case{Entry: "DCT2DHash256", Input: fmt.Sprintf("2d256 fnv=%d seed=%d k=%d", fnv32([]byte(h)), c.Seed, k), Expected: pg[:min(len(pg), 200)], Actual: pa[:min(len(pa), 200)], Kind: "wrong-value", Class: "public-2d-depends-on-dispatch"})
		}
	}
	return nil
}
