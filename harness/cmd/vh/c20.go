package main

// C20 — YCbCr-to-gray conversion: layout-correct and memory-safe for accepted images.
// Worker op "gray": build a w x w YCbCr image with the given subsampling, origin and parent padding, random planes,
// convert it through the dispatching entry (transforms32.ImageToGray / transforms.Rgb2GrayFast) into a window of a
// larger buffer whose surroundings are canaries, and compare with the portable conversion.

import (
	"fmt"
	"image"
	"math"
	"strings"
	"time"

	"github.com/evanoberholster/imagemeta/imagehash"
	"github.com/evanoberholster/imagemeta/imagehash/transforms"
	"github.com/evanoberholster/imagemeta/imagehash/transforms32"
)

var ratioNames = map[string]image.YCbCrSubsampleRatio{"444": image.YCbCrSubsampleRatio444, "422": image.YCbCrSubsampleRatio422, "420": image.YCbCrSubsampleRatio420,
	"440": image.YCbCrSubsampleRatio440, "411": image.YCbCrSubsampleRatio411, "410": image.YCbCrSubsampleRatio410}

// mkYCbCr: parent rectangle (px,py)-(px+pw,py+ph) containing the w x w image at (minX,minY)
func mkYCbCr(ratio string, minX, minY, w, padL, padT, padR, padB int, seed int64, fill string) *image.YCbCr {
	parent := image.Rect(minX-padL, minY-padT, minX+w+padR, minY+w+padB)
	m := image.NewYCbCr(parent, ratioNames[ratio])
	r := newRand(seed)
	switch fill {
	case "rand":
		r.Read(m.Y)
		r.Read(m.Cb)
		r.Read(m.Cr)
	case "smooth":
		for i := range m.Y {
			m.Y[i] = byte(128 + 100*math.Sin(float64(i)/37))
		}
		for i := range m.Cb {
			m.Cb[i] = byte(128 + 60*math.Cos(float64(i)/11))
			m.Cr[i] = byte(128 + 60*math.Sin(float64(i)/17))
		}
	default: // extreme values
		ext := []byte{0, 255, 128, 1, 254}
		for i := range m.Y {
			m.Y[i] = ext[r.Intn(5)]
		}
		for i := range m.Cb {
			m.Cb[i] = ext[r.Intn(5)]
			m.Cr[i] = ext[r.Intn(5)]
		}
	}
	if padL == 0 && padT == 0 && padR == 0 && padB == 0 {
		return m
	}
	return m.SubImage(image.Rect(minX, minY, minX+w, minY+w)).(*image.YCbCr)
}

const canaryF = float32(-12345.5)

func init() {
	// gray <32|64> <ratio> <minX> <minY> <w> <padL> <padT> <padR> <padB> <seed> <fill>
	workerOps["gray"] = func(a []string) string {
		var minX, minY, w, pl, pt, pr, pb int
		var seed int64
		fmt.Sscanf(strings.Join(a[2:10], " "), "%d %d %d %d %d %d %d %d", &minX, &minY, &w, &pl, &pt, &pr, &pb, &seed)
		img := mkYCbCr(a[1], minX, minY, w, pl, pt, pr, pb, seed, a[10])
		// image.YCbCr's chroma offsets divide with truncation toward zero: for some rectangles with negative coordinates and
		// subsampled chroma the planes NewYCbCr allocates and COffset disagree, and the standard library's own YCbCrAt panics.
		// Such values are not well-formed images; they are skipped.
		if p, _, _ := safely(func() {
			for y := 0; y < w; y++ {
				for x := 0; x < w; x++ {
					_ = img.YCbCrAt(minX+x, minY+y)
				}
			}
		}); p {
			return "stdlib-inconsistent"
		}
		yCopy, cbCopy, crCopy := append([]byte{}, img.Y...), append([]byte{}, img.Cb...), append([]byte{}, img.Cr...)
		guard := 4096
		n := w * w
		maxDiff, canary := 0.0, "ok"
		if a[0] == "32" {
			buf := make([]float32, n+2*guard)
			for i := range buf {
				buf[i] = canaryF
			}
			// the window must be 32-byte aligned like a pooled buffer: guard is a multiple of 8 floats
			win := buf[guard : guard+n : guard+n]
			ref := make([]float32, n)
			transforms32.VerifYCbCrToGrayGo(img, ref)
			transforms32.ImageToGray(img, &win)
			for i := 0; i < n; i++ {
				if d := math.Abs(float64(win[i] - ref[i])); d > maxDiff || d != d {
					maxDiff = d
					if d != d {
						maxDiff = math.Inf(1)
					}
				}
			}
			for i := 0; i < guard; i++ {
				if buf[i] != canaryF || buf[guard+n+i] != canaryF {
					canary = "pixels-canary-overwritten"
				}
			}
		} else {
			buf := make([]float64, n+2*guard)
			for i := range buf {
				buf[i] = float64(canaryF)
			}
			win := buf[guard : guard+n : guard+n]
			ref := make([]float64, n)
			transforms.PixelYCnCRGray(img, ref)
			transforms.Rgb2GrayFast(img, &win)
			for i := 0; i < n; i++ {
				if d := math.Abs(win[i] - ref[i]); d > maxDiff {
					maxDiff = d
				}
			}
			for i := 0; i < guard; i++ {
				if buf[i] != float64(canaryF) || buf[guard+n+i] != float64(canaryF) {
					canary = "pixels-canary-overwritten"
				}
			}
		}
		if string(yCopy) != string(img.Y) || string(cbCopy) != string(img.Cb) || string(crCopy) != string(img.Cr) {
			canary = "planes-modified"
		}
		// independent reference for the layout: the standard library's colour at the same coordinates (16-bit channels; the
		// portable conversion works on the same scale without clamping, so only in-gamut pixels are compared)
		indep := 0.0
		{
			ref := make([]float32, n)
			if a[0] == "32" {
				transforms32.VerifYCbCrToGrayGo(img, ref)
			} else {
				r64 := make([]float64, n)
				transforms.PixelYCnCRGray(img, r64)
				for i := range r64 {
					ref[i] = float32(r64[i])
				}
			}
			for y := 0; y < w; y++ {
				for x := 0; x < w; x++ {
					r, g, b, _ := img.At(minX+x, minY+y).RGBA()
					if r < 0x200 || g < 0x200 || b < 0x200 || r > 0xfd00 || g > 0xfd00 || b > 0xfd00 {
						continue
					}
					l := 0.299*float64(r) + 0.587*float64(g) + 0.114*float64(b)
					if d := math.Abs(l - float64(ref[y*w+x])); d > indep {
						indep = d
					}
				}
			}
		}
		h := ""
		if w == 64 && a[0] == "32" {
			p, err := imagehash.NewPHash64Alt(img)
			h = fmt.Sprintf(" hash=%016x err=%v", uint64(p), err != nil)
		}
		return fmt.Sprintf("maxdiff=%.4f canary=%s indep=%.4f%s", maxDiff, canary, indep, h)
	}
	// grayall: every (Y, Cb, Cr) triple once, in one 4096 x 4096 4:4:4 image at the origin: assembly vs portable arithmetic
	workerOps["grayall"] = func(a []string) string {
		const w = 4096
		img := image.NewYCbCr(image.Rect(0, 0, w, w), image.YCbCrSubsampleRatio444)
		for i := 0; i < w*w; i++ {
			img.Y[i], img.Cb[i], img.Cr[i] = byte(i), byte(i>>8), byte(i>>16)
		}
		ref := make([]float32, w*w)
		transforms32.VerifYCbCrToGrayGo(img, ref)
		if !transforms32.FlagUseASM {
			return "noasm"
		}
		out := make([]float32, w*w)
		transforms32.AsmYCbCrToGray(img, out)
		maxDiff, at := 0.0, 0
		for i := range out {
			if d := math.Abs(float64(out[i] - ref[i])); d > maxDiff || d != d {
				maxDiff, at = d, i
			}
		}
		return fmt.Sprintf("maxdiff=%.4f at=%d", maxDiff, at)
	}
	props["C20"] = runC20
}

func runC20(c *Ctx) error {
	c.Res.Rule = "w x w YCbCr images (w in {64, 256} as the hashing functions accept, plus 8, 16, 24, 40 for the conversion alone) x six chroma subsampling ratios x origins ((0,0), odd, negative, large) x parent padding on each side (sub-images with YStride > width) x plane contents (random, smooth, extreme values): the pixel buffer produced by transforms32.ImageToGray / transforms.Rgb2GrayFast (whatever kernel the machine selects) must be within 2.0 of the portable conversion per pixel, canaries around the destination window and the planes must be intact, the portable conversion must agree (within 700 on its 16-bit scale, in-gamut pixels) with the luminance of the standard library's colour at the same coordinates, and the worker must survive. Non-trivial: every case; distinct by all parameters."
	n := c.N(400, 12000)
	type job struct{ req string }
	var jobs []job
	ratios := []string{"444", "422", "420", "440", "411", "410"}
	for i := 0; i < n; i++ {
		w := []int{64, 64, 64, 256, 8, 16, 24, 40}[c.Rng.Intn(8)]
		minX, minY := 0, 0
		switch c.Rng.Intn(4) {
		case 1:
			minX, minY = c.Rng.Intn(50), c.Rng.Intn(50)
		case 2:
			minX, minY = -c.Rng.Intn(50), 8*c.Rng.Intn(6)
		case 3:
			minX, minY = 8*c.Rng.Intn(8), 8*c.Rng.Intn(8)
		}
		ratio := ratios[c.Rng.Intn(6)]
		pad := [4]int{}
		if c.Rng.Intn(2) == 0 {
			for k := range pad {
				pad[k] = []int{0, 0, 1, 3, 8, 16}[c.Rng.Intn(6)]
			}
		}
		bits := []string{"32", "32", "64"}[c.Rng.Intn(3)]
		jobs = append(jobs, job{fmt.Sprintf("gray %s %s %d %d %d %d %d %d %d %d %s", bits, ratio, minX, minY, w, pad[0], pad[1], pad[2], pad[3], c.Rng.Int63n(1<<40),
			[]string{"rand", "smooth", "ext"}[c.Rng.Intn(3)])})
	}
	ans := make([]string, len(jobs))
	runPool(len(jobs), 20*time.Second, func(wk *Worker, i int) { ans[i] = wk.Call(jobs[i].req) })
	// the arithmetic of the two kernels on every possible sample triple (2^24 pixels in one image)
	{
		wk := &Worker{Timeout: 120 * time.Second}
		a := wk.Call("grayall")
		wk.Close()
		c.Count("grayall", true)
		c.Stat("exhaustive.triples.16777216")
		c.Sample(map[string]string{"op": "grayall (all 2^24 (Y,Cb,Cr) triples, assembly vs portable)", "impl": a})
		var md float64
		var at int
		if a == "noasm" {
			c.Stat("exhaustive.skipped-no-avx2")
		} else if _, err := fmt.Sscanf(a, "maxdiff=%f at=%d", &md, &at); err != nil || md > 2.0 || md != md {
			c.Violate(Case{Entry: "AsmYCbCrToGray", Input: "grayall", Expected: "within 2.0 of the portable conversion for every (Y,Cb,Cr)", Actual: a, Kind: "wrong-value", Class: "arithmetic"})
		}
	}
	for i, j := range jobs {
		a := ans[i]
		c.Count(j.req, true)
		f := strings.Fields(j.req)
		c.Stat("ratio." + f[2])
		c.Stat("bits." + f[1])
		if f[3] != "0" || f[4] != "0" {
			c.Stat("origin.nonzero")
		}
		if f[6] != "0" || f[7] != "0" || f[8] != "0" || f[9] != "0" {
			c.Stat("subimage")
		}
		if i%500 == 0 {
			c.Sample(map[string]string{"op": j.req, "impl": a})
		}
		if a == "stdlib-inconsistent" {
			c.Stat("skipped.stdlib-inconsistent-image")
			continue
		}
		var md, indep float64
		var can string
		if _, err := fmt.Sscanf(a, "maxdiff=%f canary=%s indep=%f", &md, &can, &indep); err != nil {
			c.Violate(Case{Entry: "ImageToGray", Input: j.req, Expected: "returns", Actual: a, Kind: "panic", Frame: frameOf(a), Class: "crash"})
			continue
		}
		if md > 2.0 || md != md {
			c.Violate(Case{Entry: "ImageToGray", Input: j.req, Expected: "within 2.0 of the portable conversion", Actual: a, Kind: "wrong-value", Class: "luminance"})
		} else if can != "ok" {
			c.Violate(Case{Entry: "ImageToGray", Input: j.req, Expected: "canaries intact", Actual: a, Kind: "wrong-value", Class: can})
		} else if indep > 700 {
			c.Violate(Case{Entry: "yCbCrToGrayAlt", Input: j.req, Expected: "portable conversion agrees with the colour at the same coordinates", Actual: a, Kind: "wrong-value", Class: "portable-layout"})
		}
	}
	return nil
}
