package main

// Shared entry-point runner for the cross-cutting properties (C01 C02 C04 C05 C08 C14 C15 C06 C07 C03):
// one operation = one public decode entry point on one input under one set of conditions
// (reader chunking / fault, pool poisoning, log level), executed in a worker process.
// The answer is a canonical result string plus measurements.

import (
	"bufio"
	"bytes"
	"errors"
	"fmt"
	"io"
	"math"
	"os"
	"runtime"
	"strconv"
	"strings"
	"syscall"
	"time"

	"github.com/evanoberholster/imagemeta"
	"github.com/evanoberholster/imagemeta/exif2"
	"github.com/evanoberholster/imagemeta/imagehash"
	"github.com/evanoberholster/imagemeta/imagetype"
	"github.com/evanoberholster/imagemeta/isobmff"
	"github.com/evanoberholster/imagemeta/jpeg"
	"github.com/evanoberholster/imagemeta/meta"
	"github.com/evanoberholster/imagemeta/png"
	"github.com/evanoberholster/imagemeta/tiff"
	"github.com/evanoberholster/imagemeta/xmp"
	"github.com/rs/zerolog"
)

// ---------- instrumented reader ----------

type epReader struct {
	data      []byte
	pos       int
	sched     []int
	si        int
	dataEOF   bool
	failAt    int // deliver this many bytes then fail (<0: never)
	failErr   error
	requested int
	reads     int
	seeks     int
	served    int
}

var errInjected = errors.New("injected read failure")

func (r *epReader) Read(p []byte) (int, error) {
	r.reads++
	r.requested += len(p)
	if r.failAt >= 0 && r.served >= r.failAt {
		return 0, r.failErr
	}
	if r.pos >= len(r.data) {
		return 0, io.EOF
	}
	if len(p) == 0 {
		return 0, nil
	}
	n := len(p)
	if len(r.sched) > 0 {
		k := r.sched[r.si%len(r.sched)]
		r.si++
		if k < 1 {
			k = 1
		}
		if k < n {
			n = k
		}
	}
	if n > len(r.data)-r.pos {
		n = len(r.data) - r.pos
	}
	if r.failAt >= 0 && r.served+n > r.failAt {
		n = r.failAt - r.served
	}
	copy(p, r.data[r.pos:r.pos+n])
	r.pos += n
	r.served += n
	if r.pos >= len(r.data) && r.dataEOF {
		return n, io.EOF
	}
	return n, nil
}

func (r *epReader) Seek(off int64, whence int) (int64, error) {
	r.seeks++
	var np int64
	switch whence {
	case io.SeekStart:
		np = off
	case io.SeekCurrent:
		np = int64(r.pos) + off
	case io.SeekEnd:
		np = int64(len(r.data)) + off
	}
	if np < 0 {
		return int64(r.pos), errors.New("negative position")
	}
	r.pos = int(np)
	return np, nil
}

func (r *epReader) ReadAt(p []byte, off int64) (int, error) {
	r.reads++
	r.requested += len(p)
	if off >= int64(len(r.data)) {
		return 0, io.EOF
	}
	n := copy(p, r.data[off:])
	if n < len(p) {
		return n, io.EOF
	}
	return n, nil
}

// ---------- canonical results ----------

func f32(v float32) string { return strconv.FormatUint(uint64(math.Float32bits(v)), 16) }
func f64(v float64) string { return strconv.FormatUint(math.Float64bits(v), 16) }

func canonTime(t time.Time) string {
	if t.IsZero() {
		return "0"
	}
	name, off := t.Zone()
	// zone names come from file bytes: printable names stay readable, anything else (white space, control bytes) is shown
	// in hex so that the line protocol cannot alter it
	for _, ch := range []byte(name) {
		if ch <= ' ' || ch >= 0x7f || ch == '/' {
			name = "x" + hexs([]byte(name))
			break
		}
	}
	return fmt.Sprintf("%d/%s/%d", t.UnixNano(), name, off)
}

func q(s string) string {
	if s == "" {
		return "-"
	}
	return hexs([]byte(s))
}

// canonExif lists every reported field in a fixed order; floats as bit patterns; times through the accessors.
func canonExif(e exif2.Exif) string {
	var sb strings.Builder
	w := func(k, v string) {
		if v != "" && v != "0" && v != "-" {
			fmt.Fprintf(&sb, " %s=%s", k, v)
		}
	}
	w("it", strconv.Itoa(int(e.ImageType)))
	w("make", q(e.Make))
	w("model", q(e.Model))
	w("cmake", strconv.Itoa(int(e.CameraMake)))
	w("cmodel", strconv.Itoa(int(e.CameraModel)))
	w("w", strconv.Itoa(int(e.ImageWidth)))
	w("h", strconv.Itoa(int(e.ImageHeight)))
	w("orient", strconv.Itoa(int(e.Orientation)))
	w("sw", q(e.Software))
	w("artist", q(e.Artist))
	w("copy", q(e.Copyright))
	w("desc", q(e.ImageDescription))
	w("lmake", q(e.LensMake))
	w("lmodel", q(e.LensModel))
	w("lserial", q(e.LensSerial))
	w("cserial", q(e.CameraSerial))
	w("psoft", q(e.ProcessingSoftware))
	w("docname", q(e.DocumentName))
	w("uid", q(e.ImageUniqueID))
	w("owner", q(e.OwnerName))
	w("stripo", strconv.Itoa(int(e.StripOffsets)))
	w("stripc", strconv.Itoa(int(e.StripByteCounts)))
	if e.ExposureTime != 0 {
		w("et", f32(float32(e.ExposureTime)))
	}
	if e.FNumber != 0 {
		w("fn", f32(float32(e.FNumber)))
	}
	if e.FocalLength != 0 {
		w("fl", f32(float32(e.FocalLength)))
	}
	if e.FocalLengthIn35mmFormat != 0 {
		w("fl35", f32(float32(e.FocalLengthIn35mmFormat)))
	}
	w("iso", strconv.Itoa(int(e.ISOSpeed)))
	w("iso16", strconv.Itoa(int(e.ISO)))
	w("eb", strconv.Itoa(int(e.ExposureBias)))
	w("ep", strconv.Itoa(int(e.ExposureProgram)))
	w("em", strconv.Itoa(int(e.ExposureMode)))
	w("mm", strconv.Itoa(int(e.MeteringMode)))
	w("flash", strconv.Itoa(int(e.Flash)))
	w("comp", strconv.Itoa(int(e.Compression)))
	li := ""
	for _, v := range e.LensInfo {
		if v != 0 {
			li = fmt.Sprint(e.LensInfo)
		}
	}
	w("lens", strings.ReplaceAll(li, " ", ","))
	w("tmod", canonTime(e.ModifyDate()))
	w("torig", canonTime(e.DateTimeOriginal()))
	w("tcreate", canonTime(e.CreateDate()))
	if v := e.GPS.Latitude(); v != 0 {
		w("lat", f64(v))
	}
	if v := e.GPS.Longitude(); v != 0 {
		w("lng", f64(v))
	}
	if v := e.GPS.Altitude(); v != 0 {
		w("alt", f32(v))
	}
	w("gpst", canonTime(e.GPS.Date()))
	return sb.String()
}

func canonErr(err error) string {
	if err == nil {
		return "nil"
	}
	type causer interface{ Cause() error }
	for i := 0; i < 8; i++ {
		switch {
		case errors.Is(err, meta.ErrNoExif):
			return "NoExif"
		case errors.Is(err, imagetype.ErrDataLength):
			return "DataLength"
		case errors.Is(err, imagetype.ErrImageTypeNotFound):
			return "TypeNotFound"
		case errors.Is(err, imagemeta.ErrMetadataNotSupported):
			return "NotSupported"
		case errors.Is(err, jpeg.ErrNoJPEGMarker):
			return "NoJPEGMarker"
		case errors.Is(err, jpeg.ErrEndOfImage):
			return "EndOfImage"
		case errors.Is(err, io.ErrUnexpectedEOF):
			return "UnexpectedEOF"
		case errors.Is(err, io.EOF):
			return "EOF"
		case errors.Is(err, bufio.ErrBufferFull):
			return "BufferFull"
		case errors.Is(err, bufio.ErrNegativeCount):
			return "NegativeCount"
		case errors.Is(err, meta.ErrBufLength), errors.Is(err, isobmff.ErrBufLength):
			return "BufLength"
		case errors.Is(err, errInjected):
			return "Injected"
		case errors.Is(err, xmp.ErrNoXMP):
			return "NoXMP"
		}
		if c, ok := err.(causer); ok && c.Cause() != nil && c.Cause() != err {
			err = c.Cause()
			continue
		}
		if u := errors.Unwrap(err); u != nil {
			err = u
			continue
		}
		break
	}
	return "Other"
}

// ---------- entry points ----------

var epNames = []string{"Decode", "DecodeTiff", "DecodeJPEG", "DecodePng", "DecodeCR3", "PreviewCR3", "Parse",
	"ScanJPEG", "ScanTiffHeader", "ScanPngHeader", "Bmff", "ParseXmp", "ItScan", "ItScanBuf", "ItReadAt", "ItBuf"}

func canonXMP(x xmp.XMP) string {
	s := fmt.Sprintf("%+v", x)
	if len(s) > 600 {
		s = fmt.Sprintf("%s..fnv%d", s[:300], fnv32([]byte(s)))
	}
	return strings.ReplaceAll(s, " ", "_")
}

func runEntry(name string, r *epReader) string {
	switch name {
	case "Decode":
		e, err := imagemeta.Decode(r)
		return canonErr(err) + canonExif(e)
	case "DecodeTiff":
		e, err := imagemeta.DecodeTiff(r)
		return canonErr(err) + canonExif(e)
	case "DecodeJPEG":
		e, err := imagemeta.DecodeJPEG(r)
		return canonErr(err) + canonExif(e)
	case "DecodePng":
		e, err := imagemeta.DecodePng(r)
		return canonErr(err) + canonExif(e)
	case "DecodeCR3":
		e, err := imagemeta.DecodeCR3(r)
		return canonErr(err) + canonExif(e)
	case "PreviewCR3":
		b, err := imagemeta.PreviewCR3(r)
		return fmt.Sprintf("%s len=%d fnv=%d", canonErr(err), len(b), fnv32(b))
	case "Parse":
		e, err := exif2.Parse(r)
		return canonErr(err) + canonExif(e)
	case "ScanJPEG":
		var evs strings.Builder
		err := jpeg.ScanJPEG(r, func(rd io.Reader, h meta.ExifHeader) error {
			fmt.Fprintf(&evs, " E:%d:%d:%d:%d", int(h.ByteOrder), h.FirstIfdOffset, h.TiffHeaderOffset, h.ExifLength)
			io.CopyN(io.Discard, rd, int64(h.ExifLength))
			return nil
		}, func(rd io.Reader) error {
			b, _ := io.ReadAll(rd)
			fmt.Fprintf(&evs, " X:%d:%d", len(b), fnv32(b))
			return nil
		})
		return canonErr(err) + evs.String()
	case "ScanTiffHeader":
		br := bufio.NewReader(r)
		h, err := tiff.ScanTiffHeader(br, imagetype.ImageUnknown)
		return fmt.Sprintf("%s %d %d %d", canonErr(err), h.TiffHeaderOffset, int(h.ByteOrder), h.FirstIfdOffset)
	case "ScanPngHeader":
		h, err := png.ScanPngHeader(r)
		return fmt.Sprintf("%s %d %d %d %d", canonErr(err), h.TiffHeaderOffset, int(h.ByteOrder), h.FirstIfdOffset, h.ExifLength)
	case "Bmff":
		var evs strings.Builder
		bm := isobmff.NewReader(r)
		defer bm.Close()
		bm.ExifReader = func(rd io.Reader, h meta.ExifHeader) error {
			b, _ := io.ReadAll(rd)
			fmt.Fprintf(&evs, " E:%d:%d:%d:%d:%d:%d", int(h.ByteOrder), h.FirstIfdOffset, h.ExifLength, int(h.FirstIfd), len(b), fnv32(b))
			return nil
		}
		bm.XMPReader = func(rd io.Reader) error {
			b, _ := io.ReadAll(rd)
			fmt.Fprintf(&evs, " X:%d:%d", len(b), fnv32(b))
			return nil
		}
		bm.PreviewImageReader = func(rd io.Reader, h meta.PreviewHeader) error {
			fmt.Fprintf(&evs, " P:%d", h.Size)
			return nil
		}
		err := bm.ReadFTYP()
		res := canonErr(err)
		for i := 0; i < 4 && err == nil; i++ {
			err = bm.ReadMetadata()
			res += "," + canonErr(err)
		}
		return res + evs.String()
	case "ParseXmp":
		x, err := xmp.ParseXmp(r)
		return canonErr(err) + " " + canonXMP(x)
	case "ItScan":
		t, err := imagetype.Scan(r)
		return fmt.Sprintf("%s %d", canonErr(err), int(t))
	case "ItScanBuf":
		br := bufio.NewReader(r)
		t, err := imagetype.ScanBuf(br)
		rest, _ := io.ReadAll(br)
		return fmt.Sprintf("%s %d rest=%d", canonErr(err), int(t), len(rest))
	case "ItReadAt":
		t, err := imagetype.ReadAt(r)
		return fmt.Sprintf("%s %d", canonErr(err), int(t))
	case "ItBuf":
		t, err := imagetype.Buf(r.data)
		return fmt.Sprintf("%s %d", canonErr(err), int(t))
	}
	return "bad-entry"
}

// ---------- worker op ----------
//
//	ep <entry> <hex> [sched=a,b,..] [deof] [fail=<k>:<eof|err|ueof>] [poison=<n>] [log=<level>] [take=<k>]
//
// answer: <canon> | req=<n> reads=<n> seeks=<n> alloc=<bytes> out=<bytes written to fd 1+2> ms=<n>

var epStdoutFile *os.File

// redirectStdio moves the protocol to a private descriptor and points fds 1 and 2 at a scratch file, so that
// anything the library prints is measured instead of corrupting the protocol.
func redirectStdio() (proto *os.File) {
	nfd, err := syscall.Dup(1)
	if err != nil {
		return os.Stdout
	}
	proto = os.NewFile(uintptr(nfd), "proto")
	f, err := os.CreateTemp("", "vh-out-*")
	if err != nil {
		return os.Stdout
	}
	os.Remove(f.Name())
	syscall.Dup3(int(f.Fd()), 1, 0)
	syscall.Dup3(int(f.Fd()), 2, 0)
	epStdoutFile = f
	return proto
}

func stdoutBytes() int64 {
	if epStdoutFile == nil {
		return 0
	}
	st, err := epStdoutFile.Stat()
	if err != nil {
		return 0
	}
	return st.Size()
}

func init() {
	workerOps["ep"] = func(a []string) string {
		if len(a) < 2 {
			return "bad-op"
		}
		data := unhex(a[1])
		r := &epReader{data: data, failAt: -1}
		logLevel := ""
		poison := 0
		for _, o := range a[2:] {
			switch {
			case strings.HasPrefix(o, "sched="):
				for _, s := range strings.Split(o[6:], ",") {
					k, _ := strconv.Atoi(s)
					r.sched = append(r.sched, k)
				}
			case o == "deof":
				r.dataEOF = true
			case strings.HasPrefix(o, "fail="):
				p := strings.Split(o[5:], ":")
				r.failAt, _ = strconv.Atoi(p[0])
				switch p[1] {
				case "eof":
					r.failErr = io.EOF
				case "ueof":
					r.failErr = io.ErrUnexpectedEOF
				default:
					r.failErr = errInjected
				}
			case strings.HasPrefix(o, "take="):
				k, _ := strconv.Atoi(o[5:])
				if k < len(r.data) {
					r.data = r.data[:k]
				}
			case strings.HasPrefix(o, "poison="):
				poison, _ = strconv.Atoi(o[7:])
			case strings.HasPrefix(o, "log="):
				logLevel = o[4:]
			}
		}
		if poison > 0 {
			exif2.VerifPoisonPool(poison)
			imagehash.VerifPoisonPools(2, float64(poison))
		} else if poison < 0 {
			exif2.VerifPoisonPool(0) // zero the pooled buffers: pristine state
		}
		var logBuf bytes.Buffer
		if logLevel != "" {
			lv, err := zerolog.ParseLevel(logLevel)
			if err != nil {
				return "bad-op"
			}
			imagemeta.SetLogger(&logBuf, lv)
			defer imagemeta.SetLogger(io.Discard, zerolog.PanicLevel)
		}
		out0 := stdoutBytes()
		var ms0, ms1 runtime.MemStats
		runtime.ReadMemStats(&ms0)
		t0 := time.Now()
		res := runEntry(a[0], r)
		el := time.Since(t0)
		runtime.ReadMemStats(&ms1)
		os.Stdout.Sync()
		return fmt.Sprintf("%s | req=%d reads=%d seeks=%d alloc=%d out=%d log=%d ms=%d", res, r.requested, r.reads, r.seeks,
			ms1.TotalAlloc-ms0.TotalAlloc, stdoutBytes()-out0, logBuf.Len(), el.Milliseconds())
	}
}

// epCall parses a worker answer
type epAns struct {
	Canon                          string
	Req, Reads, Seeks, Alloc, Out  int
	Log, Ms                        int
	Crash                          string // "" | "panic ..." | "crash ..." | "hang"
}

func parseEp(s string) epAns {
	var a epAns
	if strings.HasPrefix(s, "panic") || strings.HasPrefix(s, "crash") || s == "hang" {
		a.Crash = s
		return a
	}
	i := strings.LastIndex(s, " | ")
	if i < 0 {
		a.Crash = "garbled " + s
		return a
	}
	a.Canon = s[:i]
	fmt.Sscanf(s[i+3:], "req=%d reads=%d seeks=%d alloc=%d out=%d log=%d ms=%d", &a.Req, &a.Reads, &a.Seeks, &a.Alloc, &a.Out, &a.Log, &a.Ms)
	return a
}
