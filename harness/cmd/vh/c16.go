package main

import (
	"bytes"
	"encoding/json"
	"fmt"
	"math"
	"strconv"
	"strings"

	"vh/internal/drv"

	"github.com/evanoberholster/imagemeta/imagehash"
	"github.com/evanoberholster/imagemeta/imagetype"
	"github.com/evanoberholster/imagemeta/meta"
	"github.com/evanoberholster/imagemeta/meta/canon"
	"github.com/tinylib/msgp/msgp"
)

func init() { props["C16"] = runC16 }

// c16 collects (request, implementation answer) pairs for the model comparison and
// records spec violations (round trips, totality) directly.
type c16 struct {
	c       *Ctx
	reqs    []string
	impl    []string
	frames  []string
	entries []string
}

func (k *c16) add(req, entry string, f func() string) {
	var s string
	p, fr, _ := safely(func() { s = f() })
	if p {
		s = "panic"
		k.c.Violate(Case{Entry: entry, Input: req, Expected: "a value or an error", Actual: "panic", Kind: "panic", Frame: fr, Class: "decoder-panics"})
	}
	k.reqs = append(k.reqs, req)
	k.impl = append(k.impl, s)
	k.frames = append(k.frames, fr)
	k.entries = append(k.entries, entry)
}

func (k *c16) spec(ok bool, entry, input, expected, actual, class string) {
	k.c.Stat("spec." + class)
	if !ok {
		k.c.Violate(Case{Entry: entry, Input: input, Expected: expected, Actual: actual, Kind: "wrong-value", Class: class})
	}
}

func okErr(err error) string {
	if err != nil {
		return "err Other"
	}
	return ""
}

// msgp integer types: marshal vs model, unmarshal(marshal ++ extra) = (v, extra), size bound, stream forms
type mpInt interface {
	~int8 | ~int16 | ~int32 | ~int64 | ~uint8 | ~uint16 | ~uint32 | ~uint64
	msgp.Marshaler
	msgp.Sizer
	msgp.Encodable
}

func mpIntType[T mpInt, P interface {
	*T
	msgp.Unmarshaler
	msgp.Decodable
}](k *c16, name string, bits int, signed bool, vals []int64) {
	sg := "u"
	if signed {
		sg = "s"
	}
	extra := []byte{0xc0, 0x01}
	for _, v := range vals {
		v := v
		t := T(v)
		entry := name + ".MarshalMsg"
		var enc []byte
		k.add(fmt.Sprintf("codec.mp.marshal %d %s %d", bits, sg, v), entry, func() string {
			b, err := t.MarshalMsg(nil)
			enc = b
			if err != nil {
				return "err Other"
			}
			return "ok " + hexs(b)
		})
		if enc == nil {
			continue
		}
		k.spec(len(enc) <= t.Msgsize(), name+".Msgsize", fmt.Sprint(v), fmt.Sprintf("<= %d", t.Msgsize()), fmt.Sprint(len(enc)), "msgsize-upper-bound")
		in := append(append([]byte{}, enc...), extra...)
		k.add(fmt.Sprintf("codec.mp.unmarshal %d %s %s", bits, sg, hexs(in)), name+".UnmarshalMsg", func() string {
			var out T
			rest, err := P(&out).UnmarshalMsg(in)
			if err != nil {
				return "err Other"
			}
			k.spec(out == t && bytes.Equal(rest, extra), name+".UnmarshalMsg", fmt.Sprint(v), fmt.Sprint(v), fmt.Sprint(out), "msgp-roundtrip")
			return fmt.Sprintf("ok %s %d", fmtInt(out, signed), len(rest))
		})
		// streaming forms on a subset
		if v%97 == 0 || v < 3 && v > -3 {
			var buf bytes.Buffer
			w := msgp.NewWriter(&buf)
			p, fr, _ := safely(func() {
				if err := t.EncodeMsg(w); err != nil {
					k.spec(false, name+".EncodeMsg", fmt.Sprint(v), "nil", err.Error(), "msgp-stream")
				}
				w.Flush()
				var out T
				err := P(&out).DecodeMsg(msgp.NewReader(&buf))
				k.spec(err == nil && out == t, name+".DecodeMsg", fmt.Sprint(v), fmt.Sprint(v), fmt.Sprint(out, err), "msgp-stream-roundtrip")
			})
			if p {
				k.c.Violate(Case{Entry: name + ".EncodeMsg/DecodeMsg", Input: fmt.Sprint(v), Kind: "panic", Frame: fr, Class: "decoder-panics"})
			}
		}
	}
	// arbitrary bytes into UnmarshalMsg: total, and equal to the model
	n := k.c.N(300, 6000)
	for i := 0; i < n; i++ {
		b := make([]byte, k.c.Rng.Intn(11))
		k.c.Rng.Read(b)
		if len(b) > 0 && k.c.Rng.Intn(2) == 0 {
			b[0] = []byte{0xcc, 0xcd, 0xce, 0xcf, 0xd0, 0xd1, 0xd2, 0xd3, 0x7f, 0xe0, 0xff, 0x80, 0xc0, 0xca}[k.c.Rng.Intn(14)]
		}
		k.add(fmt.Sprintf("codec.mp.unmarshal %d %s %s", bits, sg, hexs(b)), name+".UnmarshalMsg", func() string {
			var out T
			rest, err := P(&out).UnmarshalMsg(b)
			if err != nil {
				return "err Other"
			}
			return fmt.Sprintf("ok %s %d", fmtInt(out, signed), len(rest))
		})
	}
}

func fmtInt[T mpInt](v T, signed bool) string {
	if signed {
		return strconv.FormatInt(int64(v), 10)
	}
	return strconv.FormatUint(uint64(v), 10)
}

func rangeVals(lo, hi int64) []int64 {
	vs := make([]int64, 0, hi-lo+1)
	for v := lo; v <= hi; v++ {
		vs = append(vs, v)
	}
	return vs
}

func runC16(c *Ctx) error {
	c.Res.Rule = "exhaustive: all 2^16 ExposureBias codes (marshal, unmarshal, round trip, idempotence), whole 8/16-bit domains of every scalar msgp type (MarshalMsg bytes, UnmarshalMsg with trailing bytes, Msgsize bound), all enum members and all 2^16 values of the text enums; random: UUIDs in all six text forms, 64/256-bit hashes, floats at textual precision; adversarial byte strings into every text/binary decoder under recover. Non-trivial: every case; distinct by (operation, input)."
	c.Res.Exhaustive = true
	k := &c16{c: c}

	// ---- ExposureBias: all 2^16 codes
	for v := int64(-32768); v <= 32767; v++ {
		v := v
		eb := meta.ExposureBias(v)
		var text []byte
		k.add(fmt.Sprintf("codec.eb.marshal %d", v), "ExposureBias.MarshalText", func() string {
			t, err := eb.MarshalText()
			text = t
			return "ok " + hexs(t) + okErr(err)
		})
		k.add(fmt.Sprintf("codec.eb.unmarshal 0 %s", hexs(text)), "ExposureBias.UnmarshalText", func() string {
			var out meta.ExposureBias
			if err := out.UnmarshalText(text); err != nil {
				return "err Other"
			}
			k.spec(out == eb, "ExposureBias.UnmarshalText", string(text), fmt.Sprint(v), fmt.Sprint(int(out)), "text-roundtrip")
			t2, _ := out.MarshalText()
			k.spec(bytes.Equal(t2, text), "ExposureBias.MarshalText", string(text), string(text), string(t2), "marshal-idempotent")
			return fmt.Sprintf("ok %d", int(out))
		})
	}
	// stale receiver + adversarial texts
	advTexts := [][]byte{nil, []byte("0"), []byte("+"), []byte("-"), []byte("/"), []byte("1/"), []byte("/1"), []byte("+/"), []byte("-/"), []byte("+1/3"), []byte("-2/3"),
		[]byte("1/3"), []byte("0/3"), []byte("+0/3"), []byte("//"), []byte("+1//3"), []byte("99999999999999999999/7"), []byte("+a/b"), []byte("m"), []byte("mm"), []byte("1mm"),
		[]byte("1/0"), []byte("0/0"), []byte("65536/65536"), []byte("1/65536"), []byte("x"), []byte("12.5mm"), []byte("mmm"), []byte(" "), []byte("\x00")}
	for i := 0; i < c.N(3000, 100000); i++ {
		n := c.Rng.Intn(9)
		b := make([]byte, n)
		al := []byte("0123456789+-/ m.")
		for j := range b {
			if c.Rng.Intn(8) == 0 {
				b[j] = byte(c.Rng.Intn(256))
			} else {
				b[j] = al[c.Rng.Intn(len(al))]
			}
		}
		advTexts = append(advTexts, b)
	}
	for _, t := range advTexts {
		t := t
		for _, prev := range []int64{0, 7} {
			prev := prev
			k.add(fmt.Sprintf("codec.eb.unmarshal %d %s", prev, hexs(t)), "ExposureBias.UnmarshalText", func() string {
				out := meta.ExposureBias(prev)
				if err := out.UnmarshalText(t); err != nil {
					return "err Other"
				}
				return fmt.Sprintf("ok %d", int(out))
			})
		}
		k.add("codec.aperture "+hexs(t), "Aperture.ParseString", func() string {
			var a meta.Aperture
			if err := a.ParseString(t); err != nil {
				return "err Other"
			}
			return fmt.Sprintf("ok %d", int(a))
		})
		// FocalLength.UnmarshalText: the model says which bytes reach strconv.ParseFloat; the same Go expression is applied here
		k.add("codec.focal "+hexs(t), "FocalLength.UnmarshalText", func() string {
			fl := meta.FocalLength(-1)
			err := fl.UnmarshalText(t)
			// reconstruct what was parsed from the observable result
			if len(t) == 0 {
				if err == nil && fl == -1 {
					return "ok none"
				}
				return "ok ?"
			}
			cand := t
			if len(t) > 1 && t[len(t)-1] == 'm' && t[len(t)-2] == 'm' {
				cand = t[:len(t)-2]
			}
			f, e2 := strconv.ParseFloat(string(cand), 32)
			same := (err == nil) == (e2 == nil) && (math.Float32bits(float32(fl)) == math.Float32bits(float32(f)))
			if same {
				return "ok " + hexs(cand)
			}
			return fmt.Sprintf("ok mismatch(%v,%v)", fl, err)
		})
		for _, fn := range []struct {
			n string
			f func() error
		}{
			{"Aperture.UnmarshalText", func() error { var a meta.Aperture; return a.UnmarshalText(t) }},
			{"MeteringMode.UnmarshalJSON", func() error { var a meta.MeteringMode; return a.UnmarshalJSON(t) }},
			{"UUID.UnmarshalText", func() error { var a meta.UUID; return a.UnmarshalText(t) }},
			{"UUID.UnmarshalBinary", func() error { var a meta.UUID; return a.UnmarshalBinary(t) }},
			{"ImageType.UnmarshalText", func() error { var a imagetype.ImageType; return a.UnmarshalText(t) }},
		} {
			p, fr, _ := safely(func() { fn.f() })
			c.Count(fn.n+hexs(t), true)
			if p {
				c.Violate(Case{Entry: fn.n, Input: hexs(t), Expected: "a value or an error", Actual: "panic", Kind: "panic", Frame: fr, Class: "decoder-panics"})
			}
		}
	}
	// NewExposureBias (generated model)
	for n := int64(-130); n <= 130; n += 1 {
		for _, d := range []int64{0, 1, 2, 3, 10, 100, 127, 128, 255, 256, 257, -1, -3, 32767, -32768} {
			n, d := n, d
			k.add(fmt.Sprintf("codec.iii meta_NewExposureBias %d %d", n, d), "NewExposureBias", func() string {
				return fmt.Sprintf("ok %d", int(meta.NewExposureBias(int16(n), int16(d))))
			})
		}
	}

	// ---- text enums: whole 2^16 domain, MarshalText = generated String; UnmarshalText = table lookup
	type tenum struct {
		name, lean, tbl string
		marshal         func(v int64) ([]byte, error)
		unmarshal       func(t []byte) int64
		members         []int64
	}
	tenums := []tenum{
		{"MeteringMode", "meta_MeteringMode_String", "MeteringMode", func(v int64) ([]byte, error) { return meta.MeteringMode(v).MarshalText() },
			func(t []byte) int64 { var x meta.MeteringMode; x.UnmarshalText(t); return int64(x) }, []int64{0, 1, 2, 3, 4, 5, 6, 255}},
		{"ExposureMode", "meta_ExposureMode_String", "ExposureMode", func(v int64) ([]byte, error) { return meta.ExposureMode(v).MarshalText() },
			func(t []byte) int64 { var x meta.ExposureMode; x.UnmarshalText(t); return int64(x) }, []int64{0, 1, 2}},
		{"ExposureProgram", "meta_ExposureProgram_String", "ExposureProgram", func(v int64) ([]byte, error) { return meta.ExposureProgram(v).MarshalText() },
			func(t []byte) int64 { var x meta.ExposureProgram; x.UnmarshalText(t); return int64(x) }, []int64{0, 1, 2, 3, 4, 5, 6, 7, 8, 9}},
	}
	for _, e := range tenums {
		e := e
		isMember := map[int64]bool{}
		for _, m := range e.members {
			isMember[m] = true
		}
		for v := int64(0); v < 65536; v++ {
			v := v
			var text []byte
			k.add(fmt.Sprintf("codec.ib %s %d", e.lean, v), e.name+".MarshalText", func() string {
				t, err := e.marshal(v)
				text = t
				return "ok " + hexs(t) + okErr(err)
			})
			if v < 300 || v%251 == 0 {
				k.add(fmt.Sprintf("codec.enum.unmarshal %s %s", e.tbl, hexs(text)), e.name+".UnmarshalText", func() string {
					out := e.unmarshal(text)
					if isMember[v] {
						k.spec(out == v, e.name+".UnmarshalText", string(text), fmt.Sprint(v), fmt.Sprint(out), "text-roundtrip")
					}
					return fmt.Sprintf("ok %d", out)
				})
			}
		}
		for _, t := range advTexts[:200] {
			t := t
			k.add(fmt.Sprintf("codec.enum.unmarshal %s %s", e.tbl, hexs(t)), e.name+".UnmarshalText", func() string { return fmt.Sprintf("ok %d", e.unmarshal(t)) })
		}
	}
	// MeteringMode JSON: documented members round-trip
	for _, v := range []int64{0, 1, 2, 3, 4, 5, 6, 255} {
		mm := meta.MeteringMode(v)
		b, _ := mm.MarshalJSON()
		var out meta.MeteringMode
		err := out.UnmarshalJSON(b)
		k.spec(err == nil && out == mm, "MeteringMode.UnmarshalJSON", string(b), fmt.Sprint(v), fmt.Sprint(out, err), "json-roundtrip")
		c.Count("mmjson"+fmt.Sprint(v), true)
	}
	// MeteringMode JSON, every value of the type: what MarshalJSON writes, UnmarshalJSON reads back (Marshal(Unmarshal(Marshal(v))) == Marshal(v))
	for v := int64(0); v < 65536; v++ {
		mm := meta.MeteringMode(v)
		b, _ := mm.MarshalJSON()
		var out meta.MeteringMode
		err := out.UnmarshalJSON(b)
		b2, _ := out.MarshalJSON()
		k.spec(bytes.Equal(b, b2), "MeteringMode.UnmarshalJSON", string(b), string(b), fmt.Sprint(string(b2), " ", err), "json-marshal-idempotent")
	}
	c.Count("mmjson-all", true)
	// ImageType: all 256 values, text form
	for v := int64(0); v < 256; v++ {
		v := v
		var text []byte
		k.add(fmt.Sprintf("codec.ib imagetype_ImageType_String %d", v), "ImageType.MarshalText", func() string {
			t, err := imagetype.ImageType(v).MarshalText()
			text = t
			return "ok " + hexs(t) + okErr(err)
		})
		k.add("codec.bi imagetype_FromString "+hexs(text), "ImageType.UnmarshalText", func() string {
			var out imagetype.ImageType
			out.UnmarshalText(text)
			if v < 24 {
				k.spec(int64(out) == v, "ImageType.UnmarshalText", string(text), fmt.Sprint(v), fmt.Sprint(int(out)), "text-roundtrip")
			}
			return fmt.Sprintf("ok %d", int(out))
		})
	}
	// encoding/json on a containing struct, documented members
	type holder struct {
		IT imagetype.ImageType
		EB meta.ExposureBias
		MM meta.MeteringMode
		EM meta.ExposureMode
		EP meta.ExposureProgram
		U  meta.UUID
		D  meta.Dimensions
	}
	for i := 0; i < c.N(300, 5000); i++ {
		h := holder{IT: imagetype.ImageType(c.Rng.Intn(24)), EB: meta.ExposureBias(int16(c.Rng.Intn(65536))), MM: meta.MeteringMode([]int{0, 1, 2, 3, 4, 5, 6, 255}[c.Rng.Intn(8)]),
			EM: meta.ExposureMode(c.Rng.Intn(3)), EP: meta.ExposureProgram(c.Rng.Intn(10)), D: meta.Dimensions{Width: c.Rng.Uint32(), Height: c.Rng.Uint32()}}
		c.Rng.Read(h.U[:])
		p, fr, _ := safely(func() {
			b, err := json.Marshal(h)
			var out holder
			err2 := json.Unmarshal(b, &out)
			k.spec(err == nil && err2 == nil && out == h, "encoding/json", string(b), fmt.Sprint(h), fmt.Sprint(out, err, err2), "json-roundtrip")
		})
		c.Count(fmt.Sprint("json", i), true)
		if p {
			c.Violate(Case{Entry: "encoding/json", Input: fmt.Sprint(h), Kind: "panic", Frame: fr, Class: "decoder-panics"})
		}
	}

	// ---- UUID
	for i := 0; i < c.N(2000, 100000); i++ {
		var u meta.UUID
		switch i {
		case 0:
		case 1:
			for j := range u {
				u[j] = 0xff
			}
		default:
			c.Rng.Read(u[:])
		}
		var text []byte
		k.add("codec.uuid.marshal "+hexs(u[:]), "UUID.MarshalText", func() string {
			t, err := u.MarshalText()
			text = t
			return "ok " + hexs(t) + okErr(err)
		})
		s := string(text)
		plain := strings.ReplaceAll(s, "-", "")
		forms := []string{s, plain, "{" + s + "}", "{" + plain + "}", "urn:uuid:" + s, "urn:uuid:" + plain, strings.ToUpper(s)}
		// near misses
		forms = append(forms, s[:35], s+"0", strings.Replace(s, "-", "+", 1), "{"+s+")", "urn:uuiD:"+s, s[:8]+"-"+s[8:35], strings.Replace(plain, plain[5:6], "g", 1))
		for fi, f := range forms {
			f, fi := f, fi
			k.add("codec.uuid.unmarshal "+hexs([]byte(f)), "UUID.UnmarshalText", func() string {
				var out meta.UUID
				if err := out.UnmarshalText([]byte(f)); err != nil {
					if fi < 7 {
						k.spec(false, "UUID.UnmarshalText", f, hexs(u[:]), "error: "+err.Error(), "uuid-accepted-form")
					}
					return "err Other"
				}
				if fi < 7 {
					k.spec(out == u, "UUID.UnmarshalText", f, hexs(u[:]), hexs(out[:]), "uuid-accepted-form")
				}
				return "ok " + hexs(out[:])
			})
		}
		if i < 200 {
			b, _ := u.MarshalBinary()
			var out meta.UUID
			err := out.UnmarshalBinary(b)
			k.spec(err == nil && out == u, "UUID.UnmarshalBinary", hexs(b), hexs(u[:]), hexs(out[:]), "binary-roundtrip")
		}
	}
	// random strings at the accepted lengths
	for i := 0; i < c.N(2000, 50000); i++ {
		l := []int{32, 36, 34, 38, 41, 45, 0, 1, 35, 37, 46}[c.Rng.Intn(11)]
		b := make([]byte, l)
		al := []byte("0123456789abcdefABCDEF-{}urn:id g")
		for j := range b {
			b[j] = al[c.Rng.Intn(len(al))]
		}
		if l >= 36 && c.Rng.Intn(2) == 0 {
			// mostly well-formed canonical core
			core := fmt.Sprintf("%08x-%04x-%04x-%04x-%012x", c.Rng.Uint32(), c.Rng.Intn(65536), c.Rng.Intn(65536), c.Rng.Intn(65536), c.Rng.Int63n(1<<48))
			switch l {
			case 36:
				copy(b, core)
			case 38:
				copy(b, "{"+core+"}")
			case 45:
				copy(b, "urn:uuid:"+core)
			}
			if c.Rng.Intn(3) == 0 {
				b[c.Rng.Intn(l)] = al[c.Rng.Intn(len(al))]
			}
		}
		k.add("codec.uuid.unmarshal "+hexs(b), "UUID.UnmarshalText", func() string {
			var out meta.UUID
			if err := out.UnmarshalText(b); err != nil {
				return "err Other"
			}
			return "ok " + hexs(out[:])
		})
	}

	// ---- hashes
	for i := 0; i < c.N(2000, 100000); i++ {
		v := c.Rng.Uint64()
		if i < 4 {
			v = []uint64{0, 1, math.MaxUint64, 1 << 63}[i]
		}
		k.add(fmt.Sprintf("codec.hash64 %d", v), "PHash64.Encode/Decode", func() string {
			var buf [8]byte
			imagehash.PHash64(v).Encode(buf[:])
			var out imagehash.PHash64
			out.Decode(buf[:])
			k.spec(uint64(out) == v, "PHash64.Decode", hexs(buf[:]), fmt.Sprint(v), fmt.Sprint(uint64(out)), "binary-roundtrip")
			return fmt.Sprintf("ok %s %d", hexs(buf[:]), uint64(out))
		})
		h := imagehash.PHash256{c.Rng.Uint64(), v, c.Rng.Uint64(), c.Rng.Uint64()}
		var b32 [32]byte
		h.Encode(b32[:])
		var o imagehash.PHash256
		o.Decode(b32[:])
		k.spec(o == h, "PHash256.Decode", hexs(b32[:]), fmt.Sprint(h), fmt.Sprint(o), "binary-roundtrip")
		// msgp forms of the non-scalar types (not modelled; round trip and size bound only)
		mb, err := h.MarshalMsg(nil)
		var o2 imagehash.PHash256
		_, err2 := o2.UnmarshalMsg(mb)
		k.spec(err == nil && err2 == nil && o2 == h && len(mb) <= h.Msgsize(), "PHash256.UnmarshalMsg", hexs(mb), fmt.Sprint(h), fmt.Sprint(o2), "msgp-roundtrip")
		d := meta.Dimensions{Width: uint32(v), Height: uint32(v >> 32)}
		db, err := d.MarshalMsg(nil)
		var d2 meta.Dimensions
		_, err2 = d2.UnmarshalMsg(db)
		k.spec(err == nil && err2 == nil && d2 == d && len(db) <= d.Msgsize(), "Dimensions.UnmarshalMsg", hexs(db), fmt.Sprint(d), fmt.Sprint(d2), "msgp-roundtrip")
		fd := canon.FocusDistance{int16(v), int16(v >> 16)}
		fb, err := fd.MarshalMsg(nil)
		var fd2 canon.FocusDistance
		_, err2 = fd2.UnmarshalMsg(fb)
		k.spec(err == nil && err2 == nil && fd2 == fd && len(fb) <= fd.Msgsize(), "FocusDistance.UnmarshalMsg", hexs(fb), fmt.Sprint(fd), fmt.Sprint(fd2), "msgp-roundtrip")
		c.Count(fmt.Sprint("h256", i), true)
	}
	// floats at textual precision (2 decimals): text round trip
	for i := 0; i < c.N(20000, 400000); i++ {
		s := fmt.Sprintf("%d.%02d", c.Rng.Intn(2000), c.Rng.Intn(100))
		f64, _ := strconv.ParseFloat(s, 32)
		v := float32(f64)
		fl := meta.FocalLength(v)
		t, _ := fl.MarshalText()
		var fl2 meta.FocalLength
		err := fl2.UnmarshalText(t)
		k.spec(err == nil && fl2 == fl && string(t) == s+"mm", "FocalLength.UnmarshalText", s, s+"mm", string(t)+fmt.Sprint(" -> ", fl2, err), "text-roundtrip")
		ap := meta.Aperture(v)
		t, _ = ap.MarshalText()
		var ap2 meta.Aperture
		err = ap2.UnmarshalText(t)
		k.spec(err == nil && ap2 == ap && string(t) == s, "Aperture.UnmarshalText", s, s, string(t)+fmt.Sprint(" -> ", ap2, err), "text-roundtrip")
		// float msgp forms
		mb, _ := ap.MarshalMsg(nil)
		var ap3 meta.Aperture
		_, err = ap3.UnmarshalMsg(mb)
		k.spec(err == nil && ap3 == ap && len(mb) <= ap.Msgsize(), "Aperture.UnmarshalMsg", hexs(mb), s, fmt.Sprint(ap3), "msgp-roundtrip")
		c.Count("float"+s, true)
	}

	// ---- msgp scalar types, whole domains
	u8 := rangeVals(0, 255)
	u16 := rangeVals(0, 65535)
	i16 := rangeVals(-32768, 32767)
	var u64 []int64
	for _, e := range []int64{0, 1, 127, 128, 255, 256, 65535, 65536, 1<<32 - 1, 1 << 32, math.MaxInt64} {
		u64 = append(u64, e)
	}
	for i := 0; i < c.N(2000, 50000); i++ {
		u64 = append(u64, c.Rng.Int63()>>uint(c.Rng.Intn(63)))
	}
	mpIntType[imagetype.ImageType](k, "imagetype.ImageType", 8, false, u8)
	mpIntType[meta.ExposureBias](k, "meta.ExposureBias", 16, true, i16)
	mpIntType[meta.MeteringMode](k, "meta.MeteringMode", 16, false, u16)
	mpIntType[meta.ExposureMode](k, "meta.ExposureMode", 16, false, u16)
	mpIntType[meta.ExposureProgram](k, "meta.ExposureProgram", 16, false, u16)
	mpIntType[meta.Flash](k, "meta.Flash", 16, false, u16)
	mpIntType[meta.Orientation](k, "meta.Orientation", 16, false, u16)
	mpIntType[meta.Compression](k, "meta.Compression", 16, false, u16)
	mpIntType[meta.FlashMode](k, "meta.FlashMode", 8, false, u8)
	mpIntType[canon.ContinuousDrive](k, "canon.ContinuousDrive", 16, true, i16)
	mpIntType[canon.FocusMode](k, "canon.FocusMode", 16, true, i16)
	mpIntType[canon.MeteringMode](k, "canon.MeteringMode", 16, true, i16)
	mpIntType[canon.FocusRange](k, "canon.FocusRange", 16, true, i16)
	mpIntType[canon.ExposureMode](k, "canon.ExposureMode", 16, true, i16)
	mpIntType[canon.BracketMode](k, "canon.BracketMode", 16, true, i16)
	mpIntType[canon.AESetting](k, "canon.AESetting", 16, true, i16)
	mpIntType[canon.AFAreaMode](k, "canon.AFAreaMode", 16, true, i16)
	mpIntType[imagehash.PHash64](k, "imagehash.PHash64", 64, false, u64)
	mpIntType[imagehash.Ahash](k, "imagehash.Ahash", 64, false, u64)

	// ---- compare with the model
	model, err := drv.Batch(k.reqs)
	if err != nil {
		return err
	}
	for i, r := range k.reqs {
		c.Count(r, true)
		c.Stat("fn." + k.entries[i])
		if i%200000 == 0 {
			c.Sample(map[string]string{"op": r, "impl": k.impl[i], "model": model[i]})
		}
		m := model[i]
		if strings.HasPrefix(m, "panic") {
			m = "panic"
		}
		if strings.HasPrefix(m, "err ") {
			m = "err Other"
		}
		if k.impl[i] != m {
			c.Disagree(Case{Entry: k.entries[i], Input: r, Expected: m, Actual: k.impl[i], Frame: k.frames[i]})
		}
	}
	c.Res.NotModelled = []string{"float32/float64 text forms go through strconv (parameter); compared through the same Go expression",
		"msgp forms of Dimensions (map), FocusDistance/PHash256 (arrays) and float32 types: Go-side round trip and Msgsize bound only",
		"msgp.Writer/Reader streaming forms: Go-side round trip on a subset"}
	return nil
}
