package main

import (
	"math/rand"
	"sort"
	"errors"
	"fmt"
	"io"
	"runtime"
	"strings"
	"bufio"

	"github.com/evanoberholster/imagemeta/imagetype"
	"github.com/evanoberholster/imagemeta/meta"
)

const repoPkg = "github.com/evanoberholster/imagemeta"

// safely runs f under recover. On panic it returns the top /repo frame
// (pkg.func, normalised: no pointer arguments, no closure suffix numbers).
func safely(f func()) (panicked bool, frame string, val string) {
	defer func() {
		if r := recover(); r != nil {
			panicked = true
			val = fmt.Sprint(r)
			pcs := make([]uintptr, 64)
			n := runtime.Callers(2, pcs)
			fr := runtime.CallersFrames(pcs[:n])
			for {
				f, more := fr.Next()
				if strings.Contains(f.Function, repoPkg) {
					frame = strings.TrimPrefix(f.Function, repoPkg)
					frame = strings.TrimPrefix(frame, "/")
					if frame == "" {
						frame = "imagemeta"
					}
					break
				}
				if !more {
					break
				}
			}
		}
	}()
	f()
	return
}

// errKind canonicalises a Go error to the model's ErrKind names.
func errKind(err error) string {
	if err == nil {
		return "nil"
	}
	type causer interface{ Cause() error }
	for i := 0; i < 8; i++ {
		switch {
		case errors.Is(err, meta.ErrNoExif):
			return "NoExif"
		case errors.Is(err, imagetype.ErrDataLength):
			return "DataLength"
		case errors.Is(err, imagetype.ErrImageTypeNotFound):
			return "TypeNotFound"
		case errors.Is(err, io.ErrUnexpectedEOF):
			return "UnexpectedEOF"
		case errors.Is(err, io.EOF):
			return "EOF"
		case errors.Is(err, bufio.ErrBufferFull):
			return "BufferFull"
		case errors.Is(err, bufio.ErrNegativeCount):
			return "NegativeCount"
		case errors.Is(err, meta.ErrBufLength):
			return "BufLength"
		}
		if c, ok := err.(causer); ok && c.Cause() != nil && c.Cause() != err {
			err = c.Cause()
			continue
		}
		break
	}
	return "Other"
}

// chunkReader delivers its data in the chunk sizes of sched (cycled), optionally
// returning the last chunk together with io.EOF.
type chunkReader struct {
	data    []byte
	sched   []int
	i       int
	dataEOF bool
	failAt  int   // fail with failErr once this many bytes were delivered (<0: never)
	failErr error
	served  int
	reads   int
	requested int
}

func (c *chunkReader) Read(p []byte) (int, error) {
	c.reads++
	c.requested += len(p)
	if c.failErr != nil && c.failAt >= 0 && c.served >= c.failAt {
		return 0, c.failErr
	}
	if len(c.data) == 0 {
		return 0, io.EOF
	}
	if len(p) == 0 {
		return 0, nil
	}
	n := len(p)
	if len(c.sched) > 0 {
		k := c.sched[c.i%len(c.sched)]
		c.i++
		if k < 1 {
			k = 1
		}
		if k < n {
			n = k
		}
	}
	if n > len(c.data) {
		n = len(c.data)
	}
	if c.failErr != nil && c.failAt >= 0 && c.served+n > c.failAt {
		n = c.failAt - c.served
	}
	copy(p, c.data[:n])
	c.data = c.data[n:]
	c.served += n
	if len(c.data) == 0 && c.dataEOF {
		return n, io.EOF
	}
	return n, nil
}

func sortStrings(s []string) { sort.Strings(s) }

func newRand(seed int64) *rand.Rand { return rand.New(rand.NewSource(seed)) }
