package main

// C13 — XMP properties are extracted exactly, in attribute or element form alike.
// Generator of well-formed packets from property records, the expectation (the record's tuples fed to the library's own
// value parsers through the verif hook), the instrumented run of xmp.ParseXmp, and the correspondence with the Lean
// model of the streaming reader (the model produces the tuple stream; the hook turns it into the struct).

import (
	"bytes"
	"encoding/json"
	"errors"
	"fmt"
	"runtime"
	"strings"
	"time"

	"vh/internal/drv"

	"github.com/evanoberholster/imagemeta/xmp"
	"github.com/evanoberholster/imagemeta/xmp/xmpns"
)

type xprop struct {
	prefix, name string
	val          string
	array        string   // "", "Seq", "Bag", "Alt"
	items        []string // for arrays
}

var xmpNamespaces = map[string]string{
	"tiff": "http://ns.adobe.com/tiff/1.0/", "exif": "http://ns.adobe.com/exif/1.0/", "aux": "http://ns.adobe.com/exif/1.0/aux/",
	"xmp": "http://ns.adobe.com/xap/1.0/", "xap": "http://ns.adobe.com/xap/1.0/", "xmpMM": "http://ns.adobe.com/xap/1.0/mm/", "crs": "http://ns.adobe.com/camera-raw-settings/1.0/",
	"dc": "http://purl.org/dc/elements/1.1/", "photoshop": "http://ns.adobe.com/photoshop/1.0/", "foo": "http://example.com/foo/",
}

func xmpErr(err error) string {
	if err == nil {
		return "nil"
	}
	var re runtime.Error
	switch {
	case errors.As(err, &re) || strings.HasPrefix(err.Error(), "panic:"):
		return "Recovered"
	case strings.Contains(err.Error(), xmp.ErrNegativeRead.Error()):
		return "NegativeRead"
	}
	return canonErr(err)
}

func xmpText(c *Ctx, n int) string {
	const alpha = "abcdefghijklmnopqrstuvwxyzABCDEFGHIJKLMNOPQRSTUVWXYZ0123456789 .,:;-_/()+*#@!?=[]{}|~^%$>"
	b := make([]byte, n)
	for i := range b {
		b[i] = alpha[c.Rng.Intn(len(alpha))]
	}
	// leading white space is trimmed by the reader; a leading '>' or "/>" is kept (repaired, see known_findings)
	if n > 0 && b[0] == ' ' {
		b[0] = 'x'
	}
	if n > 2 && c.Rng.Intn(12) == 0 {
		copy(b, []string{">", "/>", "/", ">>"}[c.Rng.Intn(4)])
	}
	return string(b)
}

func genXProps(c *Ctx) []xprop {
	lens := []int{1, 2, 5, 20, 60, 100, 120, 127, 128, 129, 200, 250, 251, 252, 253, 254, 255, 256, 257, 400, 500, 507, 508, 509, 510, 511, 512, 513, 700, 763, 764, 765, 766, 767, 768, 1000, 1019, 1020, 1021, 1022, 1023, 1024}
	if c.Rng.Intn(6) == 0 {
		lens = []int{1100, 1279, 1280, 1281, 1500, 1530, 1536, 1538, 1539, 1600, 3000}
	}
	str := func() string { return xmpText(c, lens[c.Rng.Intn(len(lens))]) }
	short := func() string { return xmpText(c, 1+c.Rng.Intn(40)) }
	num := func(max int) string { return fmt.Sprint(c.Rng.Intn(max)) }
	rat := func() string { return fmt.Sprintf("%d/%d", c.Rng.Intn(100000), 1+c.Rng.Intn(1000)) }
	date := func() string {
		t := time.Date(1990+c.Rng.Intn(40), time.Month(1+c.Rng.Intn(12)), 1+c.Rng.Intn(28), c.Rng.Intn(24), c.Rng.Intn(60), c.Rng.Intn(60), 0, time.UTC)
		return []string{t.Format("2006-01-02T15:04:05"), t.Format("2006-01-02T15:04:05") + "+03:00", t.Format("2006-01-02T15:04:05") + ".00", t.Format("2006-01-02T15:04:05") + "Z"}[c.Rng.Intn(4)]
	}
	uuid := func() string {
		return fmt.Sprintf("%s%08x-%04x-%04x-%04x-%012x", []string{"", "xmp.did:", "xmp.iid:", "uuid:"}[c.Rng.Intn(4)], c.Rng.Uint32(), c.Rng.Intn(65536), c.Rng.Intn(65536), c.Rng.Intn(65536), c.Rng.Int63n(1<<48))
	}
	all := []func() xprop{
		func() xprop { return xprop{"tiff", "Make", str(), "", nil} },
		func() xprop { return xprop{"tiff", "Model", str(), "", nil} },
		func() xprop { return xprop{"tiff", "ImageWidth", num(65000), "", nil} },
		func() xprop { return xprop{"tiff", "ImageLength", num(65000), "", nil} },
		func() xprop { return xprop{"tiff", "Orientation", num(9), "", nil} },
		func() xprop { return xprop{"exif", "PixelXDimension", num(100000), "", nil} },
		func() xprop { return xprop{"exif", "PixelYDimension", num(100000), "", nil} },
		func() xprop { return xprop{"exif", "DateTimeOriginal", date(), "", nil} },
		func() xprop { return xprop{"exif", "ExposureTime", rat(), "", nil} },
		func() xprop { return xprop{"exif", "ExposureProgram", num(9), "", nil} },
		func() xprop { return xprop{"exif", "ExposureMode", num(3), "", nil} },
		func() xprop {
			return xprop{"exif", "ExposureBiasValue", fmt.Sprintf("%d/%d", c.Rng.Intn(7)-3, 1+c.Rng.Intn(3)), "", nil}
		},
		func() xprop { return xprop{"exif", "FocalLength", rat(), "", nil} },
		func() xprop { return xprop{"exif", "SubjectDistance", rat(), "", nil} },
		func() xprop { return xprop{"exif", "MeteringMode", num(7), "", nil} },
		func() xprop { return xprop{"exif", "FNumber", rat(), "", nil} },
		func() xprop {
			return xprop{"exif", "GPSLatitude", fmt.Sprintf("%.6f", c.Rng.Float64()*180-90), "", nil}
		},
		func() xprop {
			return xprop{"exif", "GPSLongitude", fmt.Sprintf("%.6f", c.Rng.Float64()*360-180), "", nil}
		},
		func() xprop { return xprop{"exif", "GPSAltitude", fmt.Sprintf("%.2f", c.Rng.Float64()*8000), "", nil} },
		func() xprop { return xprop{"aux", "SerialNumber", short(), "", nil} },
		func() xprop { return xprop{"aux", "Lens", str(), "", nil} },
		func() xprop { return xprop{"aux", "LensInfo", short(), "", nil} },
		func() xprop { return xprop{"aux", "LensID", num(100000), "", nil} },
		func() xprop { return xprop{"aux", "LensSerialNumber", short(), "", nil} },
		func() xprop { return xprop{"aux", "ImageNumber", num(65000), "", nil} },
		func() xprop {
			return xprop{"aux", "FlashCompensation", fmt.Sprintf("%d/%d", c.Rng.Intn(7)-3, 1+c.Rng.Intn(3)), "", nil}
		},
		func() xprop { return xprop{[]string{"xmp", "xap"}[c.Rng.Intn(2)], "CreateDate", date(), "", nil} },
		func() xprop { return xprop{"xmp", "CreatorTool", str(), "", nil} },
		func() xprop { return xprop{"xmp", "Label", short(), "", nil} },
		func() xprop { return xprop{"xmp", "MetadataDate", date(), "", nil} },
		func() xprop { return xprop{"xmp", "ModifyDate", date(), "", nil} },
		func() xprop { return xprop{"xmp", "Rating", num(6), "", nil} },
		func() xprop { return xprop{"xmpMM", "DocumentID", uuid(), "", nil} },
		func() xprop { return xprop{"xmpMM", "OriginalDocumentID", uuid(), "", nil} },
		func() xprop { return xprop{"xmpMM", "InstanceID", uuid(), "", nil} },
		func() xprop { return xprop{"xmpMM", "PreservedFileName", short(), "", nil} },
		func() xprop { return xprop{"crs", "RawFileName", short(), "", nil} },
		func() xprop {
			return xprop{"dc", "format", []string{"image/jpeg", "image/x-canon-cr2", "image/tiff"}[c.Rng.Intn(3)], "", nil}
		},
	}
	arrays := []func() xprop{
		func() xprop { return xprop{"dc", "creator", "", "Seq", nil} },
		func() xprop { return xprop{"dc", "subject", "", "Bag", nil} },
		func() xprop { return xprop{"dc", "description", "", "Alt", nil} },
		func() xprop { return xprop{"dc", "rights", "", "Alt", nil} },
		func() xprop { return xprop{"dc", "title", "", "Alt", nil} },
	}
	perm := c.Rng.Perm(len(all))
	var out []xprop
	for _, i := range perm[:1+c.Rng.Intn(12)] {
		out = append(out, all[i]())
	}
	for _, i := range c.Rng.Perm(len(arrays))[:c.Rng.Intn(3)] {
		p := arrays[i]()
		for k := 0; k < 1+c.Rng.Intn(4); k++ {
			// a quarter of the items repeat an earlier item byte for byte (a Bag may list a keyword twice; arrays report
			// their items in document order, repeated ones included)
			if len(p.items) > 0 && c.Rng.Intn(4) == 0 {
				p.items = append(p.items, p.items[c.Rng.Intn(len(p.items))])
			} else {
				p.items = append(p.items, str())
			}
		}
		out = append(out, p)
	}
	// unknown properties interleaved
	for k := 0; k < c.Rng.Intn(3); k++ {
		out = append(out, xprop{[]string{"foo", "photoshop"}[c.Rng.Intn(2)], []string{"Bar", "Unheard", "DateCreated"}[c.Rng.Intn(3)], short(), "", nil})
	}
	c.Rng.Shuffle(len(out), func(i, j int) { out[i], out[j] = out[j], out[i] })
	return out
}

type xmpStyle struct {
	quote    byte
	form     []bool // per property: true = attribute form (simple properties only)
	pad      func() string
	inTag    func() string // white space before the '>' or "/>" of a tag (nil: none)
	emptyArr func() string // "" or an empty array of a foreign property (self-closing or open/close form) to put between elements
	junk     string
	nlIndent bool
}

func serialiseXMP(c *Ctx, props []xprop, st xmpStyle) []byte {
	var b bytes.Buffer
	b.WriteString(st.junk)
	q := string(st.quote)
	// after the '=' only a few blanks: that white space lies inside the value's look-ahead window and counts against it
	inShort := func() string {
		if st.inTag == nil {
			return ""
		}
		return []string{"", " ", "\n", "\t "}[c.Rng.Intn(4)]
	}
	inT := func() string {
		if st.inTag == nil {
			return ""
		}
		return st.inTag()
	}
	b.WriteString("<x:xmpmeta xmlns:x=" + q + "adobe:ns:meta/" + q + " x:xmptk=" + q + "Adobe XMP Core 5.6" + q + ">" + st.pad())
	b.WriteString("<rdf:RDF xmlns:rdf=" + q + "http://www.w3.org/1999/02/22-rdf-syntax-ns#" + q + ">" + st.pad())
	b.WriteString("<rdf:Description rdf:about=" + q + q)
	used := map[string]bool{}
	for _, p := range props {
		if !used[p.prefix] {
			used[p.prefix] = true
			b.WriteString(st.pad() + " xmlns:" + p.prefix + "=" + q + xmpNamespaces[p.prefix] + q)
		}
	}
	for i, p := range props {
		if p.array == "" && st.form[i] {
			b.WriteString(st.pad() + " " + p.prefix + ":" + p.name + inT() + "=" + inShort() + q + p.val + q)
		}
	}
	b.WriteString(inT() + ">" + st.pad())
	for i, p := range props {
		if st.emptyArr != nil {
			b.WriteString(st.emptyArr())
		}
		if p.array == "" && !st.form[i] {
			b.WriteString("<" + p.prefix + ":" + p.name + inT() + ">" + p.val + "</" + p.prefix + ":" + p.name + inT() + ">" + st.pad())
		}
		if p.array != "" {
			b.WriteString("<" + p.prefix + ":" + p.name + inT() + ">" + st.pad() + "<rdf:" + p.array + inT() + ">" + st.pad())
			for _, it := range p.items {
				if p.array == "Alt" {
					b.WriteString("<rdf:li xml:lang=" + q + "x-default" + q + ">" + it + "</rdf:li>" + st.pad())
				} else {
					b.WriteString("<rdf:li>" + it + "</rdf:li>" + st.pad())
				}
			}
			b.WriteString("</rdf:" + p.array + ">" + st.pad() + "</" + p.prefix + ":" + p.name + ">" + st.pad())
		}
	}
	b.WriteString("</rdf:Description>" + st.pad() + "</rdf:RDF>" + st.pad() + "</x:xmpmeta>" + st.pad() + "<?xpacket end=" + q + "w" + q + "?>")
	return b.Bytes()
}

// expectedXMP: the record's tuples through the library's own value parsers
func expectedXMP(props []xprop, forms []bool) string {
	var x xmp.XMP
	desc := xmpns.IdentifyProperty([]byte("rdf"), []byte("Description"))
	// attributes come first in the document, then the elements: apply in document order
	apply := func(kind uint8, parent xmpns.Property, p xprop, v string) {
		xmp.VerifApply(&x, kind, [2]uint8(parent), [2]uint8(xmpns.IdentifyProperty([]byte(p.prefix), []byte(p.name))), []byte(v))
	}
	for i, p := range props {
		if p.array == "" && forms[i] {
			apply(1, desc, p, p.val)
		}
	}
	for i, p := range props {
		if p.array == "" && !forms[i] {
			apply(2, desc, p, p.val)
		}
		if p.array != "" {
			arr := xmpns.IdentifyProperty([]byte("rdf"), []byte(p.array))
			self := xmpns.IdentifyProperty([]byte(p.prefix), []byte(p.name))
			for _, it := range p.items {
				if p.array == "Alt" {
					// the xml:lang attribute of the item: parent = xml:lang, self = the property
					xmp.VerifApply(&x, 1, [2]uint8(xmpns.IdentifyProperty([]byte("xml"), []byte("lang"))), [2]uint8(self), []byte("x-default"))
				}
				xmp.VerifApply(&x, 2, [2]uint8(arr), [2]uint8(self), []byte(it))
			}
		}
	}
	return fullXMP(x)
}

func init() {
	props["C13"] = runC13
	workerOps["xmpimpl"] = func(a []string) string {
		x, err := xmp.ParseXmp(bytes.NewReader(unhex(a[0])))
		return xmpErr(err) + " " + fullXMP(x)
	}
	// xmparr <hex>: the array properties as the library reports them
	workerOps["xmparr"] = func(a []string) string {
		x, err := xmp.ParseXmp(bytes.NewReader(unhex(a[0])))
		return xmpErr(err) + " " + arraysJSON(x.DC.Creator, x.DC.Subject, x.DC.Description, x.DC.Rights, x.DC.Title)
	}
	// xmpapply <modelErr> <tok>... : the model's tuple stream through the library's value parsers
	workerOps["xmpapply"] = func(a []string) string {
		var x xmp.XMP
		e := a[0]
		for _, t := range a[1:] {
			var pt, pns, pn, sns, sn int
			var hv string
			t = strings.NewReplacer(":", " ", ".", " ").Replace(t)
			fmt.Sscanf(t, "%d %d %d %d %d %s", &pt, &pns, &pn, &sns, &sn, &hv)
			if err := xmp.VerifApply(&x, uint8(pt), [2]uint8{uint8(pns), uint8(pn)}, [2]uint8{uint8(sns), uint8(sn)}, unhex(hv)); err != nil && strings.HasPrefix(err.Error(), "panic:") {
				e = "Recovered"
				break
			}
		}
		return e + " " + fullXMP(x)
	}
}

func runC13(c *Ctx) error {
	c.Res.Rule = "property records (random subsets of the supported simple properties of the tiff, exif, aux, xmp/xap, xmpMM, crs and dc namespaces, array properties dc:creator/subject/description/rights/title with 1-4 items, unknown properties interleaved; values of 1..1024 characters at and around the reader's 128/256/512-byte look-ahead steps) x serialisations (each simple property as attribute of rdf:Description or as child element, either quote character, shuffled order, padding of spaces and newlines between tokens, junk before the root element): xmp.ParseXmp must report exactly what the library's own value parsers make of the record (expectation through the verif hook), attribute-only and element-only serialisations must agree; values longer than the 1538-byte window must give an error or the same result, never another value. Correspondence: the same packets and their mutations against the Lean model of the streaming reader (tuple stream, error class). Non-trivial: packets with at least 3 recognised properties."
	n := c.N(300, 8000)
	type job struct {
		req, mreq, expect, tag string
		arrays                 string // the array properties of the record, written down independently of the library (items in document order)
		pair                   int
		long                   bool // some value is longer than the 1024 bytes the reader must handle: an error is then acceptable
	}
	var jobs []job
	for i := 0; i < n; i++ {
		props := genXProps(c)
		padSets := [][]string{{""}, {" ", "\n", "\n  ", "   "}, {" ", "\n", "\t", "\r\n", "\r\n\t"}, {" ", "\n", "\n \n", strings.Repeat(" ", 130), strings.Repeat("\n ", 200)}}
		wsInTags := c.Rng.Intn(3) == 0
		if wsInTags {
			c.Stat("style.white-space-before-tag-end")
		}
		emptyArrays := c.Rng.Intn(3) == 0
		if emptyArrays {
			c.Stat("style.empty-arrays-and-solo-elements")
		}
		pi := c.Rng.Intn(len(padSets) + 1)
		var pads []string
		if pi < len(padSets) {
			pads = padSets[pi]
		}
		padFn := func() string { return pads[c.Rng.Intn(len(pads))] }
		if pads == nil {
			// white-space runs of every length around the reader's 128-byte look-ahead steps
			c.Stat("pad.runs-around-window-steps")
			padFn = func() string {
				var n int
				switch c.Rng.Intn(5) {
				case 0:
					n = c.Rng.Intn(3)
				case 1:
					n = 100 + c.Rng.Intn(40)
				case 2:
					n = 128*(1+c.Rng.Intn(4)) - 20 + c.Rng.Intn(24)
				case 3:
					n = c.Rng.Intn(700)
				default:
					n = 1
				}
				b := make([]byte, n)
				for i := range b {
					b[i] = " \n\t "[c.Rng.Intn(4)]
				}
				return string(b)
			}
		}
		mk := func(attr func(i int) bool) ([]byte, []bool) {
			st := xmpStyle{quote: []byte{'"', '\''}[c.Rng.Intn(2)], pad: padFn}
			if wsInTags {
				st.inTag = func() string { return []string{"", " ", "\n", "  \t", padFn()}[c.Rng.Intn(5)] }
			}
			if emptyArrays {
				st.emptyArr = func() string {
					kind := []string{"Bag", "Seq", "Alt"}[c.Rng.Intn(3)]
					switch c.Rng.Intn(6) {
					case 0:
						return "<foo:tags><rdf:" + kind + "/></foo:tags>" + padFn()
					case 1:
						return "<foo:tags>" + padFn() + "<rdf:" + kind + "></rdf:" + kind + ">" + padFn() + "</foo:tags>"
					case 2:
						return "<foo:solo/>" + padFn()
					}
					return ""
				}
			}
			st.junk = []string{"", "<?xpacket begin=\"\" id=\"W5M0MpCehiHzreSzNTczkc9d\"?>\n", "junk < not a tag <y:z> " + strings.Repeat("#", c.Rng.Intn(3000)),
				"<", "<<", "<y:z>", "<!-- c --><a>", "<?xpacket begin=\"\"?>", "x:xmpmeta <x:xmpmet", strings.Repeat("<", 1+c.Rng.Intn(12))}[c.Rng.Intn(10)]
			for i := range props {
				st.form = append(st.form, attr(i))
			}
			return serialiseXMP(c, props, st), st.form
		}
		arrWant := map[string][]string{}
		for _, p := range props {
			if p.array != "" {
				arrWant[p.name] = append([]string{}, p.items...)
			}
		}
		arrJSON := arraysJSON(arrWant["creator"], arrWant["subject"], arrWant["description"], arrWant["rights"], arrWant["title"])
		long := false
		for _, p := range props {
			if len(p.val) > 1024 {
				long = true
			}
			for _, it := range p.items {
				if len(it) > 1024 {
					long = true
				}
			}
		}
		mixed, forms := mk(func(int) bool { return c.Rng.Intn(2) == 0 })
		nontag := "mixed" + []string{"", "", "-tabs-cr", "-longws", "-wsruns"}[pi]
		jobs = append(jobs, job{req: "xmpimpl " + hexs(mixed), mreq: "xmp.parse " + hexs(mixed), expect: "nil " + expectedXMP(props, forms), tag: nontag, pair: -1, long: long, arrays: arrJSON})
		a, fa := mk(func(int) bool { return true })
		ia := len(jobs)
		jobs = append(jobs, job{req: "xmpimpl " + hexs(a), mreq: "xmp.parse " + hexs(a), expect: "nil " + expectedXMP(props, fa), tag: "attr" + []string{"", "", "-tabs-cr", "-longws", "-wsruns"}[pi], pair: -1, long: long, arrays: arrJSON})
		e, fe := mk(func(int) bool { return false })
		jobs = append(jobs, job{req: "xmpimpl " + hexs(e), mreq: "xmp.parse " + hexs(e), expect: "nil " + expectedXMP(props, fe), tag: "elem" + []string{"", "", "-tabs-cr", "-longws", "-wsruns"}[pi], pair: ia, long: long, arrays: arrJSON})
		if i%2 == 0 {
			for _, m := range mutate(c, epInput{Data: mixed}, 2) {
				jobs = append(jobs, job{req: "xmpimpl " + hexs(m.Data), mreq: "xmp.parse " + hexs(m.Data), tag: "malformed", pair: -1})
			}
		}
	}
	// feature cases: element text starting with '>' resp. "/>" (the reader used to drop those characters; repaired)
	for _, lead := range []string{">", "/>"} {
		pr := []xprop{{"tiff", "Make", lead + "Canon", "", nil}, {"tiff", "Model", "EOS", "", nil}}
		st := xmpStyle{quote: '"', pad: func() string { return " " }, form: []bool{false, true}}
		pkt := serialiseXMP(c, pr, st)
		jobs = append(jobs, job{req: "xmpimpl " + hexs(pkt), mreq: "xmp.parse " + hexs(pkt), expect: "nil " + expectedXMP(pr, st.form), tag: "elem-text-starts-with-" + map[string]string{">": "gt", "/>": "slash-gt"}[lead], pair: -1})
	}
	for _, in := range append(sampleFiles(), craftedInputs()...) {
		if strings.Contains(strings.ToLower(in.Name), "xmp") {
			jobs = append(jobs, job{req: "xmpimpl " + hexs(in.Data), mreq: "xmp.parse " + hexs(in.Data), tag: "sample", pair: -1})
		}
	}
	ans := make([]string, len(jobs))
	runPool(len(jobs), 8*time.Second, func(wk *Worker, i int) { ans[i] = wk.Call(jobs[i].req) })
	var mreq []string
	for _, j := range jobs {
		mreq = append(mreq, j.mreq)
	}
	model, err := drv.Batch(mreq)
	if err != nil {
		return err
	}
	// the model's tuple streams through the value parsers
	fin := make([]string, len(jobs))
	runPool(len(jobs), 8*time.Second, func(wk *Worker, i int) { fin[i] = wk.Call("xmpapply " + model[i]) })
	// independent expectation for the array properties (the hook-based expectation above shares the library's value parsers)
	arrAns := make([]string, len(jobs))
	runPool(len(jobs), 8*time.Second, func(wk *Worker, i int) {
		if jobs[i].arrays != "" {
			arrAns[i] = wk.Call("xmparr " + strings.TrimPrefix(jobs[i].req, "xmpimpl "))
		}
	})
	wsInsideTags(c)
	numericBoundaries(c)
	for i, j := range jobs {
		if j.arrays != "" && !j.long && strings.HasPrefix(arrAns[i], "nil ") {
			c.Stat("arrays.compared")
			if got := strings.TrimPrefix(arrAns[i], "nil "); got != j.arrays {
				c.Violate(Case{Entry: "xmp.ParseXmp", Input: j.req, Expected: j.arrays, Actual: got, Kind: "wrong-value", Class: "array-items:" + arrayDiff(j.arrays, got)})
			}
		}
	}
	for i, j := range jobs {
		got := ans[i]
		c.Count(j.req, strings.Count(j.expect, ":") >= 3 || j.expect == "")
		c.Stat("gen." + j.tag)
		if i%1500 == 0 {
			c.Sample(map[string]string{"op": j.req[:min(len(j.req), 400)], "impl": got[:min(len(got), 400)], "model": fin[i][:min(len(fin[i]), 400)]})
		}
		crashed := strings.HasPrefix(got, "panic") || strings.HasPrefix(got, "crash") || got == "hang"
		if crashed {
			c.Violate(Case{Entry: "xmp.ParseXmp", Input: j.req, Expected: "returns", Actual: got, Kind: "panic", Frame: frameOf(got), Class: "panic"})
			continue
		}
		tooLong := j.long && strings.HasPrefix(got, "BufferFull ")
		if tooLong {
			c.Stat("long-token.error")
		}
		if j.expect != "" && got != j.expect && !tooLong {
			c.Violate(Case{Entry: "xmp.ParseXmp", Input: j.req, Expected: j.expect, Actual: got, Kind: "wrong-value", Class: "roundtrip:" + j.tag + ":" + func() string {
				if strings.HasPrefix(j.tag, "elem-text-starts-with") {
					return "leading-characters-dropped"
				}
				return diffClass(j.expect, got, "")
			}()})
		}
		if j.pair >= 0 && ans[j.pair] != got && !tooLong && !(j.long && strings.HasPrefix(ans[j.pair], "BufferFull ")) {
			c.Violate(Case{Entry: "xmp.ParseXmp", Input: j.req, Expected: ans[j.pair], Actual: got, Kind: "wrong-value", Class: "attr-vs-elem:" + diffClass(ans[j.pair], got, "")})
		}
		c.Stat("corr.compared")
		if fin[i] != got {
			c.Disagree(Case{Entry: "xmp.ParseXmp", Input: j.req, Expected: fin[i], Actual: got})
		}
	}
	return nil
}

// bigPads = 1 includes runs of white space longer than the reader's 128-byte header window
var bigPads = 0

func arraysJSON(creator, subject, description, rights, title []string) string {
	b, _ := json.Marshal(map[string][]string{"creator": creator, "subject": subject, "description": description, "rights": rights, "title": title})
	return strings.ReplaceAll(string(b), " ", "\\u0020")
}

// arrayDiff names the first array property on which two arraysJSON strings differ
func arrayDiff(a, b string) string {
	var x, y map[string][]string
	json.Unmarshal([]byte(strings.ReplaceAll(a, "\\u0020", " ")), &x)
	json.Unmarshal([]byte(strings.ReplaceAll(b, "\\u0020", " ")), &y)
	for _, k := range []string{"creator", "subject", "description", "rights", "title"} {
		if fmt.Sprint(x[k]) != fmt.Sprint(y[k]) || len(x[k]) != len(y[k]) {
			return k
		}
	}
	return "none"
}

func fullXMP(x xmp.XMP) string {
	return strings.ReplaceAll(strings.ReplaceAll(fmt.Sprintf("%+v", x), " ", "_"), "\n", "\\n")
}


// wsInsideTags: white space (and a comment) at the places inside or between tags where the serialisers of the generator
// never put it: before '>' and "/>", around '=', and an XML comment between two elements. Each packet carries
// tiff:Make = "Canon" and tiff:Model = "EOS"; every deviation is reported under a class of its own (see known_findings).
func wsInsideTags(c *Ctx) {
	pre := `<x:xmpmeta xmlns:x="adobe:ns:meta/"><rdf:RDF xmlns:rdf="http://www.w3.org/1999/02/22-rdf-syntax-ns#">`
	post := `</rdf:RDF></x:xmpmeta>`
	cases := [][2]string{
		{"ws-in-tag:before-gt", `<rdf:Description rdf:about="" tiff:Make="Canon" ><tiff:Model>EOS</tiff:Model></rdf:Description>`},
		{"ws-in-tag:elem-start", `<rdf:Description rdf:about=""><tiff:Make >Canon</tiff:Make><tiff:Model>EOS</tiff:Model></rdf:Description>`},
		{"ws-in-tag:elem-end", `<rdf:Description rdf:about=""><tiff:Make>Canon</tiff:Make ><tiff:Model>EOS</tiff:Model></rdf:Description>`},
		{"ws-in-tag:before-solo-close", `<rdf:Description rdf:about="" tiff:Make="Canon" tiff:Model="EOS" />`},
		{"ws-in-tag:around-eq", `<rdf:Description rdf:about="" tiff:Make = "Canon" tiff:Model="EOS"/>`},
		{"comment-between-elements", `<rdf:Description rdf:about=""><tiff:Make>Canon</tiff:Make><!-- c --><tiff:Model>EOS</tiff:Model></rdf:Description>`},
		{"two-descriptions", `<rdf:Description rdf:about="" tiff:Make="Canon"/><rdf:Description rdf:about="" tiff:Model="EOS"/>`},
	}
	for _, cs := range cases {
		doc := pre + cs[1] + post
		var x xmp.XMP
		var err error
		p, fr, _ := safely(func() { x, err = xmp.ParseXmp(bytes.NewReader([]byte(doc))) })
		c.Count("wsInsideTags "+cs[0], true)
		c.Stat("crafted." + cs[0])
		got := fmt.Sprintf("err=%s make=%q model=%q", xmpErr(err), x.Tiff.Make, x.Tiff.Model)
		if p {
			c.Violate(Case{Entry: "xmp.ParseXmp", Input: doc, Expected: "returns", Actual: "panic", Kind: "panic", Frame: fr, Class: cs[0]})
		} else if want := `err=nil make="Canon" model="EOS"`; got != want {
			c.Violate(Case{Entry: "xmp.ParseXmp", Input: doc, Expected: want, Actual: got, Kind: "wrong-value", Class: cs[0]})
		}
	}
}

// numericBoundaries: the largest value of each numeric property's type, and its neighbours, in attribute and element
// form, against an expectation written down here (the record expectation of the generated packets goes through the
// library's own value parsers and moves with them). A value the type can hold must be reported as written.
func numericBoundaries(c *Ctx) {
	pre := `<x:xmpmeta xmlns:x="adobe:ns:meta/"><rdf:RDF xmlns:rdf="http://www.w3.org/1999/02/22-rdf-syntax-ns#">`
	post := `</rdf:RDF></x:xmpmeta>`
	type nb struct {
		prefix, name string
		val          uint64
		get          func(x *xmp.XMP) uint64
	}
	var cases []nb
	for _, v := range []uint64{0, 1, 9, 10, 254, 255, 256, 65534, 65535, 4294967294, 4294967295} {
		v := v
		if v <= 255 && (v < 7 || v == 255) {
			// exif:MeteringMode: 0..6 and 255 ("other") are the documented values
			cases = append(cases, nb{"exif", "MeteringMode", v, func(x *xmp.XMP) uint64 { return uint64(x.Exif.MeteringMode) }})
		}
		if v <= 8 {
			cases = append(cases, nb{"exif", "ExposureProgram", v, func(x *xmp.XMP) uint64 { return uint64(x.Exif.ExposureProgram) }})
		}
		if v <= 65535 {
			cases = append(cases, nb{"tiff", "ImageWidth", v, func(x *xmp.XMP) uint64 { return uint64(x.Tiff.ImageWidth) }})
			cases = append(cases, nb{"tiff", "ImageLength", v, func(x *xmp.XMP) uint64 { return uint64(x.Tiff.ImageLength) }})
			cases = append(cases, nb{"aux", "ImageNumber", v, func(x *xmp.XMP) uint64 { return uint64(x.Aux.ImageNumber) }})
		}
		cases = append(cases, nb{"exif", "PixelXDimension", v, func(x *xmp.XMP) uint64 { return uint64(x.Exif.PixelXDimension) }})
		cases = append(cases, nb{"exif", "PixelYDimension", v, func(x *xmp.XMP) uint64 { return uint64(x.Exif.PixelYDimension) }})
		cases = append(cases, nb{"aux", "LensID", v, func(x *xmp.XMP) uint64 { return uint64(x.Aux.LensID) }})
	}
	for _, cs := range cases {
		for form := 0; form < 2; form++ {
			var doc string
			if form == 0 {
				doc = fmt.Sprintf(`%s<rdf:Description rdf:about="" %s:%s="%d"/>%s`, pre, cs.prefix, cs.name, cs.val, post)
			} else {
				doc = fmt.Sprintf(`%s<rdf:Description rdf:about=""><%s:%s>%d</%s:%s></rdf:Description>%s`, pre, cs.prefix, cs.name, cs.val, cs.prefix, cs.name, post)
			}
			var x xmp.XMP
			var err error
			p, fr, _ := safely(func() { x, err = xmp.ParseXmp(bytes.NewReader([]byte(doc))) })
			c.Count("numericBoundaries", true)
			c.Stat("numeric." + cs.prefix + ":" + cs.name)
			class := fmt.Sprintf("numeric-boundary:%s:%s", cs.prefix, cs.name)
			if p {
				c.Violate(Case{Entry: "xmp.ParseXmp", Input: doc, Expected: "returns", Actual: "panic", Kind: "panic", Frame: fr, Class: class})
				continue
			}
			got := fmt.Sprintf("err=%s value=%d", xmpErr(err), cs.get(&x))
			if want := fmt.Sprintf("err=nil value=%d", cs.val); got != want {
				c.Violate(Case{Entry: "xmp.ParseXmp", Input: doc, Expected: want, Actual: got, Kind: "wrong-value", Class: class})
			}
		}
	}
}
