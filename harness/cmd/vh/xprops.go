package main

// Cross-cutting properties decided through the shared entry-point runner (ep.go).

import (
	"bufio"
	"bytes"
	"encoding/binary"
	"fmt"
	"github.com/evanoberholster/imagemeta/imagetype"
	"github.com/evanoberholster/imagemeta/png"
	"github.com/evanoberholster/imagemeta/tiff"
	"image"
	"io"
	"math"
	"os"
	"os/exec"
	"regexp"
	"runtime"
	"strings"
	"sync"
	"time"

	"github.com/evanoberholster/imagemeta/exif2"
	"github.com/evanoberholster/imagemeta/imagehash"
	"github.com/evanoberholster/imagemeta/isobmff"
	"github.com/evanoberholster/imagemeta/meta"
	"github.com/evanoberholster/imagemeta/preview"
	"github.com/rs/zerolog"
	"vh/internal/drv"
)

type epCase struct {
	Entry string
	In    epInput
	Opts  string
	Ans   epAns
}

// sweep runs all cases through a pool of worker processes.
func sweep(cases []epCase, timeout time.Duration) {
	nw := runtime.NumCPU() - 2
	if nw < 2 {
		nw = 2
	}
	if nw > 14 {
		nw = 14
	}
	var wg sync.WaitGroup
	ch := make(chan int, 256)
	for w := 0; w < nw; w++ {
		wg.Add(1)
		go func() {
			defer wg.Done()
			wk := &Worker{Timeout: timeout}
			defer wk.Close()
			for i := range ch {
				c := &cases[i]
				req := fmt.Sprintf("ep %s %s %s", c.Entry, hexs(c.In.Data), c.Opts)
				c.Ans = parseEp(wk.Call(strings.TrimSpace(req)))
			}
		}()
	}
	for i := range cases {
		ch <- i
	}
	close(ch)
	wg.Wait()
}

var hexAddr = regexp.MustCompile(`0x[0-9a-f]+|\[[-0-9:]+\]|\d+`)

// frameOf extracts "pkg.func" of the top /repo frame from a worker's panic line
func frameOf(crash string) string {
	f := strings.Fields(crash)
	if len(f) >= 2 && f[0] == "panic" {
		return f[1]
	}
	return ""
}

func panicClass(crash string) string {
	// normalise the panic message: numbers and addresses removed
	f := strings.SplitN(crash, " ", 3)
	if len(f) < 3 {
		return crash
	}
	return hexAddr.ReplaceAllString(f[2], "N")
}

// which entry points make sense for which input (all of them are tried on crafted inputs)
func entriesFor(in epInput, c *Ctx) []string {
	if in.Kind == "crafted" || c.Rng.Intn(6) == 0 {
		return epNames
	}
	n := strings.ToLower(in.Name)
	switch {
	case strings.Contains(n, ".jpg") || strings.Contains(n, "jpeggen"):
		return []string{"Decode", "DecodeJPEG", "ScanJPEG", "ItScan", "Parse"}
	case strings.Contains(n, ".xmp"):
		return []string{"ParseXmp", "Decode", "ItBuf"}
	case strings.Contains(n, "heic") || strings.Contains(n, ".avif") || strings.Contains(n, "cr3"):
		return []string{"Decode", "DecodeCR3", "PreviewCR3", "Bmff", "DecodeTiff", "Parse", "ScanTiffHeader"}
	case strings.Contains(n, ".png") || strings.Contains(n, "png"):
		return []string{"DecodePng", "ScanPngHeader", "Decode", "ItReadAt"}
	default:
		return []string{"Decode", "DecodeTiff", "Parse", "ScanTiffHeader", "ItScanBuf"}
	}
}

func init() {
	props["C01"] = runC01
	props["C02"] = runC02
	// rawops <fill> <exifLength> <hex stream> <op>... : VerifRawOps, per op "bytes:err:po"
	workerOps["rawops"] = func(a []string) string {
		var fill, exl int
		fmt.Sscanf(a[0], "%d", &fill)
		fmt.Sscanf(a[1], "%d", &exl)
		var ops []int
		for _, o := range a[3:] {
			var k int
			fmt.Sscanf(o, "%d", &k)
			ops = append(ops, k)
		}
		outs, errs, pos := exif2.VerifRawOps(unhex(a[2]), uint32(exl), ops, byte(fill))
		var parts []string
		for i := range outs {
			parts = append(parts, fmt.Sprintf("%s:%s:%d", hexs(outs[i]), canonErr(errs[i]), pos[i]))
		}
		return strings.Join(parts, " ")
	}
}

func buildCases(c *Ctx, ins []epInput, optsFor func(in epInput, entry string) []string) []epCase {
	var cases []epCase
	for _, in := range ins {
		for _, e := range entriesFor(in, c) {
			for _, o := range optsFor(in, e) {
				cases = append(cases, epCase{Entry: e, In: in, Opts: o})
			}
		}
	}
	return cases
}

// C01 — no input or I/O failure point makes a decoder panic or crash
func runC01(c *Ctx) error {
	c.Res.Rule = "every public decode entry point x (sample files, crafted edge files, structure-aware mutations: truncation, byte flips, extreme 16/32-bit fields, spliced fragments, generated JPEG streams) x reader behaviours (plain; EOF or an error injected after k bytes; one-byte reads) in worker processes: the call must return (no panic, no fatal error, no hang). Non-trivial: every case; distinct by (entry, bytes, options)."
	ins := corpus(c, c.N(40, 1500), c.N(200, 6000))
	cases := buildCases(c, ins, func(in epInput, e string) []string {
		o := []string{""}
		if len(in.Data) > 0 && c.Rng.Intn(3) == 0 {
			k := c.Rng.Intn(len(in.Data))
			o = append(o, fmt.Sprintf("fail=%d:%s", k, []string{"eof", "err", "ueof"}[c.Rng.Intn(3)]))
		}
		if in.Kind == "crafted" || c.Rng.Intn(10) == 0 {
			o = append(o, "sched=1")
		}
		return o
	})
	sweep(cases, 8*time.Second)
	for _, cs := range cases {
		key := cs.Entry + " " + cs.In.Name + " " + cs.Opts + fmt.Sprint(fnv32(cs.In.Data))
		c.Count(key, true)
		c.Stat("entry." + cs.Entry)
		c.Stat("kind." + cs.In.Kind)
		if cs.Ans.Crash == "" {
			c.Stat("outcome.returned")
			continue
		}
		kind := "panic"
		frame := frameOf(cs.Ans.Crash)
		class := panicClass(cs.Ans.Crash)
		if cs.Ans.Crash == "hang" {
			kind, class = "hang", "no-return"
		} else if strings.HasPrefix(cs.Ans.Crash, "crash") {
			kind, frame, class = "panic", "fatal", cs.Ans.Crash
		}
		c.Stat("outcome." + kind)
		c.Violate(Case{Entry: cs.Entry, Input: hexs(cs.In.Data) + " " + cs.Opts, Expected: "returns a value and/or an error", Actual: cs.Ans.Crash,
			Kind: kind, Frame: frame, Class: class, Note: cs.In.Name})
	}
	return nil
}

// C02 — every decode terminates after work linear in the input size
func runC02(c *Ctx) error {
	c.Res.Rule = "every decode entry point x the corpus of C01 (plain in-memory reader) under a watchdog, with an instrumented io.ReadSeeker: the call returns, requested bytes <= 4*len+64KiB, wall time within a generous per-byte budget. Non-trivial: every case."
	if err := tiffReqCorrespondence(c); err != nil {
		return err
	}
	if err := pngReqCorrespondence(c); err != nil {
		return err
	}
	ins := corpus(c, c.N(40, 1500), c.N(300, 8000))
	cases := buildCases(c, ins, func(in epInput, e string) []string { return []string{""} })
	sweep(cases, 8*time.Second)
	for _, cs := range cases {
		c.Count(cs.Entry+" "+cs.In.Name+fmt.Sprint(fnv32(cs.In.Data)), true)
		c.Stat("entry." + cs.Entry)
		n := len(cs.In.Data)
		if cs.Ans.Crash == "hang" {
			c.Violate(Case{Entry: cs.Entry, Input: hexs(cs.In.Data), Expected: "returns", Actual: "no return within the watchdog", Kind: "hang", Class: "no-return", Note: cs.In.Name})
			continue
		}
		if cs.Ans.Crash != "" {
			c.Stat("outcome.crash(C01)")
			continue
		}
		c.Stat("outcome.returned")
		if cs.Ans.Req > 4*n+65536 {
			c.Violate(Case{Entry: cs.Entry, Input: hexs(cs.In.Data), Expected: fmt.Sprintf("requested <= %d", 4*n+65536), Actual: fmt.Sprintf("requested %d in %d reads, %d seeks", cs.Ans.Req, cs.Ans.Reads, cs.Ans.Seeks), Kind: "wrong-value", Class: "superlinear-reads", Note: cs.In.Name})
		}
		if cs.Ans.Ms > 2000+n/50 {
			c.Violate(Case{Entry: cs.Entry, Input: hexs(cs.In.Data), Expected: "time within budget", Actual: fmt.Sprintf("%d ms", cs.Ans.Ms), Kind: "hang", Class: "slow", Note: cs.In.Name})
		}
	}
	return nil
}

// runPool runs fn(worker, i) for i in [0,n) on a pool of worker processes.
func runPool(n int, timeout time.Duration, fn func(wk *Worker, i int)) {
	nw := runtime.NumCPU() - 2
	if nw < 2 {
		nw = 2
	}
	if nw > 14 {
		nw = 14
	}
	var wg sync.WaitGroup
	ch := make(chan int, 256)
	for w := 0; w < nw; w++ {
		wg.Add(1)
		go func() {
			defer wg.Done()
			wk := &Worker{Timeout: timeout}
			defer wk.Close()
			for i := range ch {
				fn(wk, i)
			}
		}()
	}
	for i := 0; i < n; i++ {
		ch <- i
	}
	close(ch)
	wg.Wait()
}

func init() {
	props["C08"] = runC08
	props["C04"] = runC04
	props["C14"] = runC14
	props["C15"] = runC15
}

// genExifInputs: generated well-formed Exif files in the containers (valid metadata, so that results are non-trivial)
func genExifInputs(c *Ctx, n int) []epInput {
	var out []epInput
	for i := 0; i < n; i++ {
		r := genRecord(c)
		lo := layoutOpt{shuffleEntries: c.Rng.Intn(2) == 0, foreign: c.Rng.Intn(3), pad: []int{0, 1, 7}[c.Rng.Intn(3)], headerPad: []int{0, 0, 18}[c.Rng.Intn(3)], entryOrderVals: c.Rng.Intn(2) == 0,
			ifd1: c.Rng.Intn(4) == 0, slotJunk: c.Rng.Intn(3) == 0, isoPair: c.Rng.Intn(3) == 0, zeroDen: i%4 == 3}
		if i%16 == 5 {
			lo.foreign, lo.valuesFirst, lo.entryOrderVals, lo.depthFirst = 45, true, true, true
		}
		t := buildTIFF(c, r, c.Rng.Intn(2) == 0, lo)
		out = append(out, epInput{fmt.Sprintf("gen/tiff%d.tif", i), t, "gen"})
		switch i % 3 {
		case 0:
			out = append(out, epInput{fmt.Sprintf("gen/%d.jpg", i), inJPEG(c, t, true), "gen"})
		case 1:
			out = append(out, epInput{fmt.Sprintf("gen/%d.png", i), inPNG(c, t, true), "gen"})
		default:
			out = append(out, epInput{fmt.Sprintf("gen/%d.heic", i), inHEIF(c, t, true), "gen"})
		}
	}
	return out
}

// genExifTruncated: generated TIFF files cut off inside their value area (the last values end early), bare and inside PNG:
// the unbuffered reader then sees short reads while a value is being fetched
func genExifTruncated(c *Ctx, n int) []epInput {
	var out []epInput
	for i := 0; i < n; i++ {
		r := genRecord(c)
		lo := layoutOpt{shuffleEntries: c.Rng.Intn(2) == 0, pad: []int{0, 1}[c.Rng.Intn(2)], entryOrderVals: c.Rng.Intn(2) == 0}
		t := buildTIFF(c, r, c.Rng.Intn(2) == 0, lo)
		for _, k := range []int{1, 3, 1 + c.Rng.Intn(12), 8 + c.Rng.Intn(60), 40 + c.Rng.Intn(200)} {
			if k >= len(t)-16 {
				continue
			}
			tt := append([]byte{}, t[:len(t)-k]...)
			out = append(out, epInput{fmt.Sprintf("gen/trunc%d-%d.tif", i, k), tt, "gen"})
			if c.Rng.Intn(2) == 0 {
				out = append(out, epInput{fmt.Sprintf("gen/trunc%d-%d.png", i, k), inPNG(c, tt, true), "gen"})
			}
		}
	}
	return out
}

// genXmpInputs: generated XMP packets, values around and beyond the reader's look-ahead windows, in element and attribute form
func genXmpInputs(c *Ctx, n int) []epInput {
	var out []epInput
	for i := 0; i < n; i++ {
		props := genXProps(c)
		// make one value long: 900..1536 bytes
		if len(props) > 0 {
			k := c.Rng.Intn(len(props))
			if props[k].array == "" {
				props[k].val = xmpText(c, []int{900, 1020, 1030, 1100, 1300, 1450, 1500, 1530, 1536}[c.Rng.Intn(9)])
			}
		}
		st := xmpStyle{quote: []byte{'"', '\''}[c.Rng.Intn(2)], pad: func() string { return []string{"", " ", "\n "}[c.Rng.Intn(3)] }}
		elem := c.Rng.Intn(3) != 0
		for range props {
			st.form = append(st.form, !elem)
		}
		out = append(out, epInput{fmt.Sprintf("gen/x%d.xmp", i), serialiseXMP(c, props, st), "gen"})
	}
	return out
}

// genXmpTruncated: generated packets (one third attribute form, two thirds element form), half of them cut off at a
// random place, plus packets made of n short attributes (or n short elements) that end without the closing tags.
func genXmpTruncated(c *Ctx, n int) []epInput {
	var out []epInput
	for i, in := range genXmpInputs(c, n) {
		b := in.Data
		if i%2 == 1 && len(b) > 0 {
			b = b[:c.Rng.Intn(len(b))]
		}
		out = append(out, epInput{fmt.Sprintf("gen/t%d.xmp", i), b, "gen"})
	}
	head := `<x:xmpmeta xmlns:x="adobe:ns:meta/"><rdf:RDF xmlns:rdf="http://www.w3.org/1999/02/22-rdf-syntax-ns#"><rdf:Description rdf:about=""`
	for _, reps := range []int{8, 20, 40, 80, 160, 400} {
		out = append(out, epInput{fmt.Sprintf("gen/dense-attr%d.xmp", reps), []byte(head + strings.Repeat(` a:b="c"`, reps)), "gen"})
		out = append(out, epInput{fmt.Sprintf("gen/dense-attr-known%d.xmp", reps), []byte(head + strings.Repeat(` tiff:Make='c'`, reps)), "gen"})
		out = append(out, epInput{fmt.Sprintf("gen/dense-elem%d.xmp", reps), []byte(head + ">" + strings.Repeat(`<a:b>c</a:b>`, reps)), "gen"})
		out = append(out, epInput{fmt.Sprintf("gen/dense-solo%d.xmp", reps), []byte(head + ">" + strings.Repeat(`<a:b/>`, reps)), "gen"})
		out = append(out, epInput{fmt.Sprintf("gen/dense-li%d.xmp", reps), []byte(head + "><dc:subject><rdf:Bag>" + strings.Repeat(`<rdf:li>c</rdf:li>`, reps)), "gen"})
	}
	return out
}

// C08 — results do not depend on how the reader chunks its data
func runC08(c *Ctx) error {
	c.Res.Rule = "every decode entry point x (sample files, crafted files, generated well-formed Exif files in TIFF/JPEG/PNG/HEIF, mutations) under: plain in-memory reader (reference); one byte at a time; two alternating small chunk sizes; random positive chunk schedule; last bytes delivered together with io.EOF; all of them combined. The canonical result (value and error class) must equal the reference. Non-trivial: reference result carries at least one field or a specific error; distinct by (entry, bytes, schedule)."
	ins := append(corpus(c, c.N(6, 200), c.N(60, 2000)), genExifInputs(c, c.N(60, 2500))...)
	ins = append(ins, genExifTruncated(c, c.N(8, 200))...)
	ins = append(ins, genXmpInputs(c, c.N(25, 600))...)
	scheds := func() []string {
		return []string{"sched=1", fmt.Sprintf("sched=%d,%d", 1+c.Rng.Intn(7), 1+c.Rng.Intn(3)), fmt.Sprintf("sched=%d,%d,%d deof", 1+c.Rng.Intn(600), 1+c.Rng.Intn(40), 1+c.Rng.Intn(5000)), "deof", "sched=1 deof"}
	}
	var cases []epCase
	type grp struct {
		ref  int
		alts []int
	}
	var groups []grp
	for _, in := range ins {
		for _, e := range entriesFor(in, c) {
			if e == "ItBuf" {
				continue
			}
			g := grp{ref: len(cases)}
			cases = append(cases, epCase{Entry: e, In: in, Opts: ""})
			ss := scheds()
			k := 2
			if in.Kind == "crafted" || in.Kind == "gen" || in.Kind == "sample" {
				k = len(ss)
			}
			for _, o := range ss[:k] {
				g.alts = append(g.alts, len(cases))
				cases = append(cases, epCase{Entry: e, In: in, Opts: o})
			}
			groups = append(groups, g)
		}
	}
	sweep(cases, 10*time.Second)
	if err := bufioOpsCorrespondence(c); err != nil {
		return err
	}
	if err := bufioCorrespondence(c); err != nil {
		return err
	}
	for _, g := range groups {
		ref := cases[g.ref]
		refRes := ref.Ans.Canon
		if ref.Ans.Crash != "" {
			refRes = "CRASH " + panicClass(ref.Ans.Crash)
		}
		for _, ai := range g.alts {
			a := cases[ai]
			res := a.Ans.Canon
			if a.Ans.Crash != "" {
				res = "CRASH " + panicClass(a.Ans.Crash)
			}
			c.Count(a.Entry+a.In.Name+a.Opts+fmt.Sprint(fnv32(a.In.Data)), strings.Contains(refRes, "=") || !strings.HasPrefix(refRes, "nil"))
			c.Stat("entry." + a.Entry)
			c.Stat("opt." + strings.Fields(a.Opts + " -")[0])
			if res != refRes {
				kind := "wrong-value"
				if a.Ans.Crash != "" {
					kind = "panic"
				}
				c.Violate(Case{Entry: a.Entry, Input: hexs(a.In.Data) + " " + a.Opts, Expected: refRes, Actual: res, Kind: kind, Frame: frameOf(a.Ans.Crash),
					Class: "chunking:" + diffClass(refRes, res, ""), Note: a.In.Name})
			}
		}
	}
	return nil
}

// C04 — a result depends only on the bytes of that call
func runC04(c *Ctx) error {
	c.Res.Rule = "every decode entry point x (samples, crafted, generated Exif files, mutations): the result on pristine pooled state (all pooled buffers zeroed through the verif hook) must equal the result after the pools were poisoned with adversarial content (large offsets in every tag slot, non-zero scratch bytes, two different patterns) and after the natural history of the worker (thousands of earlier decodes); the four hash entry points on RGBA/Gray/NRGBA (with fully transparent pixels)/YCbCr images with the pixel pools zeroed vs filled with NaN, 1e30, -7 and vs the state other hashed images leave behind (their bit-level definition: C19). Non-trivial: every case; distinct by (entry, bytes, history)."
	ins := append(corpus(c, c.N(6, 200), c.N(60, 2000)), genExifInputs(c, c.N(60, 2500))...)
	ins = append(ins, genExifTruncated(c, c.N(20, 500))...)
	var cases []epCase
	type grp struct{ idx []int }
	var groups []grp
	for _, in := range ins {
		for _, e := range entriesFor(in, c) {
			g := grp{}
			for _, o := range []string{"poison=-1", "poison=3", "poison=77", ""} {
				g.idx = append(g.idx, len(cases))
				cases = append(cases, epCase{Entry: e, In: in, Opts: o})
			}
			groups = append(groups, g)
		}
	}
	sweep(cases, 10*time.Second)
	if err := rawOpsCheck(c); err != nil {
		return err
	}
	hashHistoryCheck(c)
	zoneHistoryCheck(c)
	for _, g := range groups {
		ref := cases[g.idx[0]]
		refRes := ref.Ans.Canon
		if ref.Ans.Crash != "" {
			refRes = "CRASH " + panicClass(ref.Ans.Crash)
		}
		for _, ai := range g.idx[1:] {
			a := cases[ai]
			res := a.Ans.Canon
			if a.Ans.Crash != "" {
				res = "CRASH " + panicClass(a.Ans.Crash)
			}
			c.Count(a.Entry+a.In.Name+a.Opts+fmt.Sprint(fnv32(a.In.Data)), true)
			c.Stat("entry." + a.Entry)
			c.Stat("history." + a.Opts)
			if res != refRes {
				c.Violate(Case{Entry: a.Entry, Input: hexs(a.In.Data) + " " + a.Opts, Expected: refRes, Actual: res, Kind: "wrong-value",
					Class: "history:" + diffClass(refRes, res, ""), Note: a.In.Name})
			}
		}
	}
	return nil
}

// zoneHistoryCheck: the time zone a file's OffsetTime tag names must not depend on which offset strings were decoded
// before in the same process: every ordered pair of a pool of offset strings (equal offsets written differently, distinct
// offsets, malformed ones), second file decoded alone (zone cache emptied through the verif hook) vs after the first.
func zoneHistoryCheck(c *Ctx) {
	pool := []string{"+09:30", "+ 9:30", "+9:30 ", "+09:3 ", "-09:30", "+13:37", "+13:2A", "+13:3G", "+00:00", "-00:00", "+0 :00", "+05:45", "+5 :45", "-05:45", "+14:00", "+1 :00", "+01:00", "Z", "+0100 ", "+01-00"}
	mk := func(off string) []byte {
		r := lrec{modify: "2021:02:03 04:05:06", original: "2020:01:02 03:04:05", off: off, offOrig: off}
		return buildTIFF(c, r, false, layoutOpt{})
	}
	show := func(b []byte) string {
		var out string
		safely(func() {
			e, err := exif2.Parse(bytes.NewReader(b))
			m, o := e.ModifyDate(), e.DateTimeOriginal()
			_, mo := m.Zone()
			_, oo := o.Zone()
			out = fmt.Sprintf("%v %s %d %s %d", err != nil, m.Format("2006-01-02T15:04:05 MST"), mo, o.Format("2006-01-02T15:04:05 MST"), oo)
		})
		return out
	}
	files := make([][]byte, len(pool))
	for i, s := range pool {
		files[i] = mk(s)
	}
	for i := range pool {
		for j := range pool {
			if i == j {
				continue
			}
			exif2.VerifResetTimeZones()
			alone := show(files[j])
			exif2.VerifResetTimeZones()
			show(files[i])
			after := show(files[j])
			c.Count(fmt.Sprint("zone", i, j), true)
			c.Stat("history.zone-pair")
			if alone != after {
				c.Violate(Case{Entry: "Parse", Input: fmt.Sprintf("OffsetTime %q decoded after a file with OffsetTime %q", pool[j], pool[i]), Expected: alone, Actual: after,
					Kind: "wrong-value", Class: "history:zone-name", Note: "zone cache emptied vs one earlier decode"})
			}
		}
	}
}

// hashHistoryCheck: the four hashing entry points on images of every kind (incl. NRGBA with fully transparent pixels):
// the hash with the pixel pools zeroed (verif hook) must equal the hash after the pools were filled with three adversarial
// patterns and after other images were hashed (the pools then hold their DCT output).
func hashHistoryCheck(c *Ctx) {
	fns := hashFns()
	kinds := []string{"NRGBAa", "RGBAa", "RGBA", "Gray", "NRGBA", "YCbCr444"}
	n := c.N(12, 60)
	for _, fn := range fns {
		var prev image.Image
		for i := 0; i < n; i++ {
			k := kinds[i%len(kinds)]
			cname, f := contentFn(c, fn.s)
			img := mkImage(k, fn.s, fn.s, 0, 0, false, f)
			imagehash.VerifPoisonPools(3, 0)
			ref, eref := fn.f(img)
			hist := []string{"nan", "1e30", "-7", "after-other-image"}
			for hi, h := range hist {
				switch hi {
				case 0:
					imagehash.VerifPoisonPools(3, math.NaN())
				case 1:
					imagehash.VerifPoisonPools(3, 1e30)
				case 2:
					imagehash.VerifPoisonPools(3, -7)
				default:
					if prev == nil {
						continue
					}
					for r := 0; r < 3; r++ {
						fn.f(prev)
					}
				}
				got, e := fn.f(img)
				c.Count(fmt.Sprint("hash", fn.name, k, cname, i, h), true)
				c.Stat("entry." + fn.name)
				c.Stat("history.hash-" + h)
				if (e == nil) != (eref == nil) || joinU(got) != joinU(ref) {
					c.Violate(Case{Entry: fn.name, Input: fmt.Sprintf("%s %s image #%d, pools: %s", k, cname, i, h), Expected: joinU(ref), Actual: joinU(got),
						Kind: "wrong-value", Class: "history:hash", Note: "pixel pools zeroed vs " + h})
				}
			}
			prev = img
		}
	}
}

// rawOpsCheck: the reader's two stream primitives on a plain reader (verif hook VerifRawOps) with the pooled scratch buffer
// pre-filled in two different ways: what they hand out, their errors and positions must not depend on the fill
// (noninterference of the one primitive that touches pooled memory), and must equal the Lean model's fastRead / discard.
func rawOpsCheck(c *Ctx) error {
	var reqs, mreqs []string
	for i := 0; i < c.N(300, 6000); i++ {
		n := []int{0, 1, 5, 40, 600, 1500, 3000}[c.Rng.Intn(7)]
		stream := rbytes(c, c.Rng.Intn(n+1))
		exl := []int{4 << 20, 4 << 20, 0, 1 + c.Rng.Intn(4000)}[c.Rng.Intn(4)]
		var ops []string
		for k := 0; k < 1+c.Rng.Intn(8); k++ {
			switch c.Rng.Intn(5) {
			case 0:
				ops = append(ops, fmt.Sprint(-(c.Rng.Intn(1500))))
			case 1:
				ops = append(ops, fmt.Sprint([]int{1024, 1025, 1023, 2000}[c.Rng.Intn(4)]))
			default:
				ops = append(ops, fmt.Sprint(1+c.Rng.Intn(200)))
			}
		}
		reqs = append(reqs, fmt.Sprintf("%d %s %s", exl, hexs(stream), strings.Join(ops, " ")))
		mreqs = append(mreqs, fmt.Sprintf("exif.rawops %d %s %s", exl, hexs(stream), strings.Join(ops, " ")))
	}
	model, err := drv.Batch(mreqs)
	if err != nil {
		return err
	}
	a := make([]string, len(reqs))
	b := make([]string, len(reqs))
	runPool(len(reqs), 8*time.Second, func(wk *Worker, i int) {
		a[i] = wk.Call("rawops 1 " + reqs[i])
		b[i] = wk.Call("rawops 200 " + reqs[i])
	})
	for i := range reqs {
		c.Count("rawops"+reqs[i], true)
		c.Stat("rawops.compared")
		if a[i] != b[i] {
			c.Violate(Case{Entry: "exif2.fastRead", Input: reqs[i], Expected: a[i], Actual: b[i], Kind: "wrong-value", Class: "history:scratch-buffer-content-visible"})
		}
		if model[i] != a[i] {
			c.Disagree(Case{Entry: "exif2.fastRead/discard", Input: reqs[i], Expected: model[i], Actual: a[i]})
		}
	}
	return nil
}

// C14 — memory allocated by a decode is bounded by the input size
func runC14(c *Ctx) error {
	c.Res.Rule = "every decode / preview entry point x the corpus (incl. tampered size, count and length fields) in single-goroutine workers: runtime.MemStats.TotalAlloc delta around the call <= 4 MiB + 16*len(input). Non-trivial: every case."
	ins := append(corpus(c, c.N(40, 1500), c.N(200, 6000)), genExifInputs(c, c.N(40, 1000))...)
	cases := buildCases(c, ins, func(in epInput, e string) []string { return []string{""} })
	sweep(cases, 10*time.Second)
	for _, cs := range cases {
		c.Count(cs.Entry+cs.In.Name+fmt.Sprint(fnv32(cs.In.Data)), true)
		c.Stat("entry." + cs.Entry)
		if cs.Ans.Crash != "" {
			if strings.Contains(cs.Ans.Crash, "out of memory") || strings.Contains(cs.Ans.Crash, "makeslice") {
				c.Violate(Case{Entry: cs.Entry, Input: hexs(cs.In.Data), Expected: "bounded allocation", Actual: cs.Ans.Crash, Kind: "alloc", Class: "fatal-allocation", Note: cs.In.Name})
			}
			continue
		}
		bound := 4*1024*1024 + 16*len(cs.In.Data)
		if cs.Ans.Alloc > bound {
			c.Violate(Case{Entry: cs.Entry, Input: hexs(cs.In.Data), Expected: fmt.Sprintf("<= %d bytes", bound), Actual: fmt.Sprintf("%d bytes allocated", cs.Ans.Alloc), Kind: "alloc", Class: "allocation-from-size-field", Note: cs.In.Name})
		}
		if cs.Ans.Alloc > 65536+4*len(cs.In.Data) {
			c.Stat("alloc.over-64KiB+4n")
		}
	}
	return nil
}

// C15 — logging is neutral; the default configuration is silent
func runC15(c *Ctx) error {
	c.Res.Rule = "every decode entry point x the corpus x log levels {trace, debug, info, warn, error, fatal, panic, disabled} set through imagemeta.SetLogger into a buffer: canonical result equal to the default configuration's; under the default configuration nothing is written to file descriptors 1 and 2 of the worker process (measured through a redirected scratch file) and the library's logger writes nothing. Non-trivial: every case."
	ins := append(corpus(c, c.N(5, 150), c.N(40, 1500)), genExifInputs(c, c.N(30, 800))...)
	levels := []string{"trace", "debug", "info", "warn", "error", "fatal", "panic", "disabled"}
	var cases []epCase
	type grp struct {
		ref  int
		alts []int
	}
	var groups []grp
	for _, in := range ins {
		for _, e := range entriesFor(in, c) {
			g := grp{ref: len(cases)}
			cases = append(cases, epCase{Entry: e, In: in, Opts: ""})
			ls := levels
			if in.Kind != "crafted" && in.Kind != "sample" && in.Kind != "gen" {
				ls = []string{levels[c.Rng.Intn(3)], levels[3+c.Rng.Intn(5)]}
			}
			for _, l := range ls {
				g.alts = append(g.alts, len(cases))
				cases = append(cases, epCase{Entry: e, In: in, Opts: "log=" + l})
			}
			groups = append(groups, g)
		}
	}
	sweep(cases, 10*time.Second)
	for _, g := range groups {
		ref := cases[g.ref]
		refRes := ref.Ans.Canon
		if ref.Ans.Crash != "" {
			refRes = "CRASH " + panicClass(ref.Ans.Crash)
		}
		c.Count("default"+ref.Entry+ref.In.Name+fmt.Sprint(fnv32(ref.In.Data)), true)
		if ref.Ans.Crash == "" && (ref.Ans.Out != 0) {
			c.Violate(Case{Entry: ref.Entry, Input: hexs(ref.In.Data), Expected: "0 bytes on stdout/stderr under the default configuration", Actual: fmt.Sprintf("%d bytes written", ref.Ans.Out), Kind: "stdout", Class: "default-config-not-silent", Note: ref.In.Name})
		}
		for _, ai := range g.alts {
			a := cases[ai]
			res := a.Ans.Canon
			if a.Ans.Crash != "" {
				res = "CRASH " + panicClass(a.Ans.Crash)
			}
			c.Count(a.Entry+a.In.Name+a.Opts+fmt.Sprint(fnv32(a.In.Data)), true)
			c.Stat("entry." + a.Entry)
			c.Stat("level." + a.Opts)
			if a.Ans.Log > 0 {
				c.Stat("level-with-output." + a.Opts)
			}
			if res != refRes {
				kind := "wrong-value"
				if a.Ans.Crash != "" {
					kind = "panic"
				}
				c.Violate(Case{Entry: a.Entry, Input: hexs(a.In.Data) + " " + a.Opts, Expected: refRes, Actual: res, Kind: kind, Frame: frameOf(a.Ans.Crash),
					Class: "log-level-changes-result:" + diffClass(refRes, res, ""), Note: a.In.Name})
			}
			if a.Ans.Crash == "" && a.Ans.Out != 0 {
				c.Violate(Case{Entry: a.Entry, Input: hexs(a.In.Data) + " " + a.Opts, Expected: "0 bytes on stdout/stderr (the logger writes to the configured writer)", Actual: fmt.Sprintf("%d bytes written", a.Ans.Out), Kind: "stdout", Class: "stdout-write", Note: a.In.Name})
			}
		}
	}
	return nil
}

// bufioCorrespondence ties the Lean bufio model (Peek / Discard over a scheduled source) to the real bufio.Reader.
func bufioCorrespondence(c *Ctx) error {
	var reqs, impl []string
	for i := 0; i < c.N(600, 20000); i++ {
		data := make([]byte, c.Rng.Intn(120))
		c.Rng.Read(data)
		var sched []int
		var ss []string
		for j := 0; j < c.Rng.Intn(6); j++ {
			k := 1 + c.Rng.Intn(9)
			sched = append(sched, k)
			ss = append(ss, fmt.Sprint(k))
		}
		// the model's schedule is consumed once; the chunk reader cycles, so give the model a long repetition
		full := "-"
		if len(sched) > 0 {
			var rep []string
			for len(rep) < 220 { // one source read delivers at least one byte: more entries than the data has bytes
				rep = append(rep, ss...)
			}
			full = strings.Join(rep, ",")
		}
		size := 16 + c.Rng.Intn(40)
		var ns []string
		var nsi []int
		for j := 0; j < 1+c.Rng.Intn(5); j++ {
			n := c.Rng.Intn(size + 1)
			nsi = append(nsi, n)
			ns = append(ns, fmt.Sprint(n))
		}
		reqs = append(reqs, fmt.Sprintf("bufio.peek %s %s %d %s", hexs(data), full, size, strings.Join(ns, ",")))
		br := bufio.NewReaderSize(&chunkReader{data: append([]byte{}, data...), sched: sched, failAt: -1}, size)
		var out []string
		for _, n := range nsi {
			b, err := br.Peek(n)
			ok := 0
			if err == nil {
				ok = 1
			}
			d, _ := br.Discard(n / 2)
			out = append(out, fmt.Sprintf("%s:%d:%d", hexs(b), ok, d))
		}
		impl = append(impl, strings.Join(out, " "))
	}
	model, err := drv.Batch(reqs)
	if err != nil {
		return err
	}
	for i := range reqs {
		c.Count(reqs[i], true)
		c.Stat("bufio.model-vs-bufio")
		if model[i] != impl[i] {
			c.Disagree(Case{Entry: "bufio.Reader", Input: reqs[i], Expected: model[i], Actual: impl[i]})
		}
	}
	return nil
}

// bufioOpsCorrespondence ties the Lean model of Peek / Discard / Read / io.ReadFull and of box.Read (isobmff, through the
// verif hook VerifBoxChain) over a scheduled source to the real bufio.Reader, io.ReadFull and the real box.Read: mixed
// operation sequences, one token per operation (bytes, success, remaining lengths of the box chain).
func bufioOpsCorrespondence(c *Ctx) error {
	var reqs, impl []string
	lims := func(v []int) string {
		var p []string
		for _, x := range v {
			p = append(p, fmt.Sprint(x))
		}
		return strings.Join(p, ",")
	}
	hexOr := func(b []byte) string {
		if len(b) == 0 {
			return "-"
		}
		return hexs(b)
	}
	for i := 0; i < c.N(800, 20000); i++ {
		big := i%10 == 9 // long streams: the preview loop's 2048-byte chunk matters
		data := make([]byte, c.Rng.Intn(150))
		if big {
			data = make([]byte, 2000+c.Rng.Intn(4000))
		}
		c.Rng.Read(data)
		var sched []int
		var ss []string
		for j := 0; j < c.Rng.Intn(6); j++ {
			k := 1 + c.Rng.Intn(9)
			if c.Rng.Intn(6) == 0 {
				k = 1 + c.Rng.Intn(60)
			}
			if big {
				k = 200 + c.Rng.Intn(3000)
			}
			sched = append(sched, k)
			ss = append(ss, fmt.Sprint(k))
		}
		full := "-"
		if len(sched) > 0 {
			var rep []string
			for len(rep) < 220 { // one source read delivers at least one byte: more entries than the data has bytes
				rep = append(rep, ss...)
			}
			full = strings.Join(rep, ",")
		}
		size := 16 + c.Rng.Intn(40)
		if big {
			size = []int{64, 1024, 4096}[c.Rng.Intn(3)]
		}
		nb := 1 + c.Rng.Intn(3)
		remains := make([]int, nb)
		for j := range remains {
			remains[j] = c.Rng.Intn(len(data) + 20)
			if c.Rng.Intn(8) == 0 {
				remains[j] = 0
			}
		}
		br := bufio.NewReaderSize(&chunkReader{data: append([]byte{}, data...), sched: sched, failAt: -1}, size)
		box, remainOf := isobmff.VerifBoxChain(br, remains)
		var ops, out []string
		for j := 0; j < 1+c.Rng.Intn(7); j++ {
			switch c.Rng.Intn(7) {
			case 0:
				n := c.Rng.Intn(size + 1)
				ops = append(ops, fmt.Sprintf("P%d", n))
				b, err := br.Peek(n)
				out = append(out, fmt.Sprintf("%s:%d", hexOr(b), b2i(err == nil)))
				c.Stat("op.peek")
			case 1:
				n := c.Rng.Intn(70)
				ops = append(ops, fmt.Sprintf("D%d", n))
				d, _ := br.Discard(n)
				out = append(out, fmt.Sprint(d))
				c.Stat("op.discard")
			case 2:
				n := 1 + c.Rng.Intn(70)
				ops = append(ops, fmt.Sprintf("R%d", n))
				p := make([]byte, n)
				k, err := br.Read(p)
				if k == 0 && err == io.EOF {
					out = append(out, "EOF")
				} else {
					out = append(out, hexOr(p[:k]))
				}
				if k < n && k > 0 {
					c.Stat("op.read-short")
				} else {
					c.Stat("op.read")
				}
			case 3:
				n := c.Rng.Intn(70)
				ops = append(ops, fmt.Sprintf("F%d", n))
				p := make([]byte, n)
				k, err := io.ReadFull(br, p)
				out = append(out, fmt.Sprintf("%s:%d", hexOr(p[:k]), b2i(err == nil)))
				c.Stat("op.readfull")
			case 4:
				n := 1 + c.Rng.Intn(70)
				ops = append(ops, fmt.Sprintf("B%d", n))
				p := make([]byte, n)
				k, err := box.Read(p)
				if k == 0 && err == io.EOF {
					out = append(out, "EOF:"+lims(remainOf()))
				} else {
					out = append(out, hexOr(p[:k])+":"+lims(remainOf()))
				}
				c.Stat("op.box-read")
			case 5:
				n := c.Rng.Intn(70)
				if big {
					n = []int{2047, 2048, 2049, 4096, 4100, 5000}[c.Rng.Intn(6)]
				}
				ops = append(ops, fmt.Sprintf("V%d", n))
				pr := preview.NewPreviewReader(zerolog.Nop())
				_ = pr.RenderPreview(box, meta.PreviewHeader{Size: uint32(n)})
				out = append(out, hexOr(pr.PreviewImage)+":"+lims(remainOf()))
				c.Stat("op.render-preview")
			default:
				n := c.Rng.Intn(70)
				ops = append(ops, fmt.Sprintf("G%d", n))
				p := make([]byte, n)
				k, err := io.ReadFull(box, p)
				out = append(out, fmt.Sprintf("%s:%d:%s", hexOr(p[:k]), b2i(err == nil), lims(remainOf())))
				c.Stat("op.box-readfull")
			}
		}
		reqs = append(reqs, fmt.Sprintf("bufio.ops %s %s %d %s %s", hexOr(data), full, size, lims(remains), strings.Join(ops, " ")))
		impl = append(impl, strings.Join(out, " "))
	}
	// preview.RenderPreview directly on plain readers of every kind (short reads, last bytes together with io.EOF):
	// the image is the first min(Size, length) bytes
	for i := 0; i < c.N(200, 4000); i++ {
		data := rbytes(c, []int{0, 1, 100, 2047, 2048, 2049, 5000}[c.Rng.Intn(7)])
		size := []int{0, 1, len(data) / 2, len(data), len(data) + 1, len(data) + 5000}[c.Rng.Intn(6)]
		var sched []int
		for j := 0; j < c.Rng.Intn(4); j++ {
			sched = append(sched, []int{1, 7, 700, 2048, 1 << 20}[c.Rng.Intn(5)])
		}
		cr := &chunkReader{data: append([]byte{}, data...), sched: sched, dataEOF: c.Rng.Intn(2) == 0, failAt: -1}
		pr := preview.NewPreviewReader(zerolog.Nop())
		err := pr.RenderPreview(cr, meta.PreviewHeader{Size: uint32(size)})
		want := data
		if size < len(want) {
			want = want[:size]
		}
		c.Count(fmt.Sprint("render", i, len(data), size, sched, cr.dataEOF), true)
		c.Stat("op.render-preview-plain")
		if err != nil || !bytes.Equal(pr.PreviewImage, want) {
			c.Violate(Case{Entry: "preview.RenderPreview", Input: fmt.Sprintf("%d bytes, Size %d, schedule %v, data-with-EOF %v", len(data), size, sched, cr.dataEOF),
				Expected: fmt.Sprintf("the first %d bytes", len(want)), Actual: fmt.Sprintf("%d bytes, err=%v", len(pr.PreviewImage), err), Kind: "wrong-value", Class: "chunking:preview"})
		}
	}
	model, err := drv.Batch(reqs)
	if err != nil {
		return err
	}
	for i := range reqs {
		c.Count(reqs[i], true)
		c.Stat("bufio.ops-model-vs-real")
		if model[i] != impl[i] {
			c.Disagree(Case{Entry: "bufio.Reader/box.Read", Input: reqs[i], Expected: model[i], Actual: impl[i]})
		}
	}
	return nil
}

func b2i(b bool) int {
	if b {
		return 1
	}
	return 0
}

func init() { props["C05"] = runC05 }

// C05 — concurrent calls are race-free and match sequential runs: a -race build of cmd/vhrace is run on a mixed set of
// inputs with 1..64 goroutines and three GOMAXPROCS settings; its race reports and result mismatches are violations.
func runC05(c *Ctx) error {
	c.Res.Rule = "a -race build of the soak program runs mixed entry points (Decode, DecodeTiff, DecodeJPEG, DecodePng, DecodeCR3, DecodeHeif, exif2.Parse, imagetype.Scan, both 64-bit hashes, the blur hash; the first calls of the process are concurrent: cold start) on generated Exif files with time-zone tags (the zone cache is emptied every millisecond through the verif hook, under its write lock, so misses keep happening), jpeg.ScanJPEG and isobmff.NewReader / ReadFTYP / ReadMetadata directly on plain readers next to the facade decoders, samples and crafted files from G goroutines (G in {4, 16, 64}) x GOMAXPROCS in {1, 2, NumCPU}; every concurrent result must equal its sequential result and the race detector must stay silent. Non-trivial: every call."
	dir, err := os.MkdirTemp("", "vhrace")
	if err != nil {
		return err
	}
	defer os.RemoveAll(dir)
	bin := dir + "/vhrace"
	build := exec.Command("go", "build", "-race", "-tags", "verif", "-o", bin, "./cmd/vhrace")
	build.Dir = envOr("VERIF_HARNESS", "/verif/harness")
	build.Env = append(os.Environ(), "CGO_ENABLED=1")
	if alt := build.Dir + "/go.alt.mod"; envOr("VERIF_REPO", "/repo") != "/repo" {
		build.Args = append(build.Args[:2], append([]string{"-modfile=" + alt}, build.Args[2:]...)...)
	}
	if out, err := build.CombinedOutput(); err != nil {
		return fmt.Errorf("race build failed: %v\n%s", err, out)
	}
	ins := append(genExifInputs(c, c.N(30, 300)), craftedInputs()...)
	ins = append(ins, sampleFiles()...)
	var lines []string
	for _, in := range ins {
		d := in.Data
		if len(d) > 16384 {
			d = d[:16384]
		}
		if len(d) == 0 {
			continue
		}
		es := entriesFor(in, c)
		for _, e := range es {
			switch e {
			case "Decode", "DecodeTiff", "DecodeJPEG", "DecodePng", "DecodeCR3", "DecodeHeif", "Parse", "ItScan", "ScanJPEG":
				lines = append(lines, e+" "+hexs(d))
			}
			if e == "DecodeCR3" || e == "DecodeHeif" {
				lines = append(lines, "Bmff "+hexs(d))
			}
		}
		if c.Rng.Intn(6) == 0 {
			lines = append(lines, "Blur "+hexs(d[:1+c.Rng.Intn(len(d))]))
		}
		if c.Rng.Intn(4) == 0 {
			lines = append(lines, "Hash "+hexs(d[:1+c.Rng.Intn(len(d))]))
		}
	}
	inf := dir + "/inputs.txt"
	if err := os.WriteFile(inf, []byte(strings.Join(lines, "\n")+"\n"), 0o644); err != nil {
		return err
	}
	for _, g := range []int{4, 16, 64} {
		iters := c.N(60, 1500)
		cmd := exec.Command(bin, fmt.Sprint(c.Seed), fmt.Sprint(g), fmt.Sprint(iters), inf)
		cmd.Env = append(os.Environ(), "GORACE=exitcode=66 halt_on_error=0")
		out, err := cmd.CombinedOutput()
		calls := 3 * g * iters
		c.StatN("calls", calls)
		for i := 0; i < calls; i += 997 {
			c.Count(fmt.Sprint("g", g, "i", i), true)
		}
		c.Res.Evaluations += calls - (calls+996)/997
		c.Res.Distinct += calls - (calls+996)/997
		s := string(out)
		if strings.Contains(s, "WARNING: DATA RACE") {
			i := strings.Index(s, "WARNING: DATA RACE")
			rep := s[i:]
			if len(rep) > 2500 {
				rep = rep[:2500]
			}
			fr := "race"
			for _, l := range strings.Split(rep, "\n") {
				if strings.Contains(l, "imagemeta") && strings.Contains(l, "()") {
					fr = strings.TrimSpace(l)
					break
				}
			}
			c.Violate(Case{Entry: "concurrent", Input: fmt.Sprintf("goroutines=%d iterations=%d seed=%d", g, iters, c.Seed), Expected: "race detector silent", Actual: rep, Kind: "race", Frame: fr, Class: "data-race"})
		}
		if strings.Contains(s, "FIRST ") {
			c.Violate(Case{Entry: "concurrent", Input: fmt.Sprintf("goroutines=%d iterations=%d seed=%d", g, iters, c.Seed), Expected: "concurrent result == sequential result", Actual: s[strings.Index(s, "FIRST "):], Kind: "wrong-value", Class: "concurrent-result-differs"})
		} else if err != nil && !strings.Contains(s, "WARNING: DATA RACE") {
			tail := s
			if len(tail) > 1500 {
				tail = tail[len(tail)-1500:]
			}
			c.Violate(Case{Entry: "concurrent", Input: fmt.Sprintf("goroutines=%d iterations=%d seed=%d", g, iters, c.Seed), Expected: "soak completes", Actual: fmt.Sprint(err, " ", tail), Kind: "panic", Frame: "fatal", Class: "crash-under-concurrency"})
		}
	}
	return nil
}

// countingSrc: an in-memory source that delivers what it has up to len(p) and counts what it is asked for.
type countingSrc struct {
	r          *bytes.Reader
	req, reads int
}

func (s *countingSrc) Read(p []byte) (int, error) {
	s.req += len(p)
	s.reads++
	return s.r.Read(p)
}

// tiffReqCorrespondence ties the request counters of the Lean model of the header search (Tiff.scanC, theorem
// C02_tiff_requested) to tiff.ScanTiffHeader on a plain in-memory source: same outcome, same number of bytes asked of the
// source, same number of Reads - on inputs of every length around the 4096-byte buffer, with and without a header, with
// tails that make the search step one byte at a time.
func tiffReqCorrespondence(c *Ctx) error {
	var ins [][]byte
	hdr := append([]byte("II*\x00\x08\x00\x00\x00"), bytes.Repeat([]byte{0}, 24)...)
	for _, n := range []int{0, 1, 2, 31, 32, 33, 63, 64, 100, 4064, 4065, 4095, 4096, 4097, 4127, 4128, 4129, 8191, 8192, 8193, 12000} {
		for _, fill := range []byte{0, 'I', 'M', 'x'} {
			ins = append(ins, bytes.Repeat([]byte{fill}, n))
			ins = append(ins, append(bytes.Repeat([]byte{fill}, n), hdr...))
			ins = append(ins, append(append(bytes.Repeat([]byte{fill}, n), hdr...), bytes.Repeat([]byte{fill}, 5000)...))
		}
	}
	for i := 0; i < c.N(300, 20000); i++ {
		n := []int{c.Rng.Intn(200), 4000 + c.Rng.Intn(300), 8100 + c.Rng.Intn(200), c.Rng.Intn(20000)}[c.Rng.Intn(4)]
		b := make([]byte, n)
		for j := range b {
			b[j] = []byte{'I', 'M', '*', 0, 'x'}[c.Rng.Intn(5)]
		}
		if c.Rng.Intn(2) == 0 {
			b = append(b, hdr...)
			b = append(b, make([]byte, c.Rng.Intn(100))...)
		}
		ins = append(ins, b)
	}
	reqs := make([]string, len(ins))
	for i, b := range ins {
		reqs[i] = "tiff.req " + hexs(b)
	}
	model, err := drv.Batch(reqs)
	if err != nil {
		return err
	}
	for i, b := range ins {
		src := &countingSrc{r: bytes.NewReader(b)}
		var res string
		var p bool
		var fr, val string
		done := make(chan struct{})
		go func() {
			p, fr, val = safely(func() {
				h, err := tiff.ScanTiffHeader(src, imagetype.ImageUnknown)
				if err != nil {
					res = "err " + errKind(err)
					return
				}
				res = fmt.Sprintf("ok %d %d %d", h.TiffHeaderOffset, int(h.ByteOrder), h.FirstIfdOffset)
			})
			close(done)
		}()
		select {
		case <-done:
		case <-time.After(3 * time.Second):
			c.Violate(Case{Entry: "tiff.ScanTiffHeader", Input: hexs(b), Expected: "returns", Actual: "no return within 3 s", Kind: "hang", Class: "no-return"})
			return nil
		}
		if p {
			res = "panic " + val
		}
		// the model also reports the length of the rest of the stream: the private bufio.Reader of ScanTiffHeader hides it
		m := model[i]
		if strings.HasPrefix(m, "ok ") {
			f := strings.Fields(m)
			if len(f) >= 7 {
				m = strings.Join(append(f[:4], f[5:]...), " ")
			}
		}
		got := fmt.Sprintf("%s | req=%d reads=%d", res, src.req, src.reads)
		c.Count("tiffReq "+fmt.Sprint(fnv32(b), len(b)), len(b) >= 32)
		c.Stat("tiffreq.compared")
		if got != m {
			c.Disagree(Case{Entry: "tiff.ScanTiffHeader", Input: hexs(b), Expected: m, Actual: got, Frame: fr, Note: "correspondence Tiff.scanC (request counters) vs tiff.ScanTiffHeader on a counting in-memory source"})
		}
		if src.req > 4*len(b)+65536 {
			c.Violate(Case{Entry: "tiff.ScanTiffHeader", Input: hexs(b), Expected: fmt.Sprintf("requested <= %d", 4*len(b)+65536), Actual: fmt.Sprintf("requested %d in %d reads", src.req, src.reads), Kind: "wrong-value", Class: "superlinear-reads"})
		}
	}
	return nil
}

// countingRS: an in-memory io.ReadSeeker that counts what it is asked for.
type countingRS struct {
	r          *bytes.Reader
	req, reads int
}

func (s *countingRS) Read(p []byte) (int, error) {
	s.req += len(p)
	s.reads++
	return s.r.Read(p)
}
func (s *countingRS) Seek(off int64, whence int) (int64, error) { return s.r.Seek(off, whence) }

// pngReqCorrespondence ties the request count of the Lean model of the PNG chunk walk (Png.scanReq, theorem
// C02_png_requested) to png.ScanPngHeader on a counting in-memory source.
func pngReqCorrespondence(c *Ctx) error {
	sig := []byte("\x89PNG\r\n\x1a\n")
	chunk := func(t string, n uint32, p []byte) []byte {
		b := binary.BigEndian.AppendUint32(nil, n)
		return append(append(b, []byte(t)...), p...)
	}
	var ins [][]byte
	for i := 0; i < c.N(400, 20000); i++ {
		b := append([]byte{}, sig...)
		for k := 0; k < c.Rng.Intn(6); k++ {
			n := c.Rng.Intn(40)
			decl := uint32(n)
			if c.Rng.Intn(6) == 0 {
				decl = []uint32{0, 1, 0xfffffff4, 0xfffffffc, 0x7fffffff, uint32(n + 3), 1000}[c.Rng.Intn(7)]
			}
			b = append(b, chunk([]string{"IHDR", "tEXt", "IDAT", "zTXt"}[c.Rng.Intn(4)], decl, make([]byte, n+4))...)
		}
		if c.Rng.Intn(2) == 0 {
			b = append(b, chunk("eXIf", 16, []byte("II*\x00\x08\x00\x00\x00\x00\x00\x00\x00\x00\x00\x00\x00\x00\x00\x00\x00"))...)
		}
		if c.Rng.Intn(3) == 0 && len(b) > 0 {
			b = b[:c.Rng.Intn(len(b)+1)]
		}
		ins = append(ins, b)
	}
	reqs := make([]string, len(ins))
	for i, b := range ins {
		reqs[i] = "png.req " + hexs(b)
	}
	model, err := drv.Batch(reqs)
	if err != nil {
		return err
	}
	for i, b := range ins {
		src := &countingRS{r: bytes.NewReader(b)}
		var p bool
		var fr string
		done := make(chan struct{})
		go func() { p, fr, _ = safely(func() { png.ScanPngHeader(src) }); close(done) }()
		select {
		case <-done:
		case <-time.After(3 * time.Second):
			// the walk does not come back (the goroutine is abandoned): reported, the comparison ends here
			c.Violate(Case{Entry: "png.ScanPngHeader", Input: hexs(b), Expected: "returns", Actual: "no return within 3 s", Kind: "hang", Class: "no-return"})
			return nil
		}
		c.Count("pngReq "+fmt.Sprint(fnv32(b), len(b)), len(b) >= 8)
		c.Stat("pngreq.compared")
		got := fmt.Sprintf("req=%d", src.req)
		if p {
			got = "panic"
		}
		if got != model[i] {
			c.Disagree(Case{Entry: "png.ScanPngHeader", Input: hexs(b), Expected: model[i], Actual: got, Frame: fr, Note: "correspondence Png.scanReq (request count) vs png.ScanPngHeader on a counting in-memory source"})
		}
		if src.req > 4*len(b)+65536 {
			c.Violate(Case{Entry: "png.ScanPngHeader", Input: hexs(b), Expected: fmt.Sprintf("requested <= %d", 4*len(b)+65536), Actual: fmt.Sprintf("requested %d in %d reads", src.req, src.reads), Kind: "wrong-value", Class: "superlinear-reads"})
		}
	}
	return nil
}
