package main

// Cross-cutting properties decided through the shared entry-point runner (ep.go).

import (
	"fmt"
	"regexp"
	"runtime"
	"strings"
	"sync"
	"time"
)

type epCase struct {
	Entry string
	In    epInput
	Opts  string
	Ans   epAns
}

// sweep runs all cases through a pool of worker processes.
func sweep(cases []epCase, timeout time.Duration) {
	nw := runtime.NumCPU() - 2
	if nw < 2 {
		nw = 2
	}
	if nw > 14 {
		nw = 14
	}
	var wg sync.WaitGroup
	ch := make(chan int, 256)
	for w := 0; w < nw; w++ {
		wg.Add(1)
		go func() {
			defer wg.Done()
			wk := &Worker{Timeout: timeout}
			defer wk.Close()
			for i := range ch {
				c := &cases[i]
				req := fmt.Sprintf("ep %s %s %s", c.Entry, hexs(c.In.Data), c.Opts)
				c.Ans = parseEp(wk.Call(strings.TrimSpace(req)))
			}
		}()
	}
	for i := range cases {
		ch <- i
	}
	close(ch)
	wg.Wait()
}

var hexAddr = regexp.MustCompile(`0x[0-9a-f]+|\[[-0-9:]+\]|\d+`)

// frameOf extracts "pkg.func" of the top /repo frame from a worker's panic line
func frameOf(crash string) string {
	f := strings.Fields(crash)
	if len(f) >= 2 && f[0] == "panic" {
		return f[1]
	}
	return ""
}

func panicClass(crash string) string {
	// normalise the panic message: numbers and addresses removed
	f := strings.SplitN(crash, " ", 3)
	if len(f) < 3 {
		return crash
	}
	return hexAddr.ReplaceAllString(f[2], "N")
}

// which entry points make sense for which input (all of them are tried on crafted inputs)
func entriesFor(in epInput, c *Ctx) []string {
	if in.Kind == "crafted" || c.Rng.Intn(6) == 0 {
		return epNames
	}
	n := strings.ToLower(in.Name)
	switch {
	case strings.Contains(n, ".jpg") || strings.Contains(n, "jpeggen"):
		return []string{"Decode", "DecodeJPEG", "ScanJPEG", "ItScan", "Parse"}
	case strings.Contains(n, ".xmp"):
		return []string{"ParseXmp", "Decode", "ItBuf"}
	case strings.Contains(n, "heic") || strings.Contains(n, ".avif") || strings.Contains(n, "cr3"):
		return []string{"Decode", "DecodeCR3", "PreviewCR3", "Bmff", "DecodeTiff", "Parse", "ScanTiffHeader"}
	case strings.Contains(n, ".png") || strings.Contains(n, "png"):
		return []string{"DecodePng", "ScanPngHeader", "Decode", "ItReadAt"}
	default:
		return []string{"Decode", "DecodeTiff", "Parse", "ScanTiffHeader", "ItScanBuf"}
	}
}

func init() {
	props["C01"] = runC01
	props["C02"] = runC02
}

func buildCases(c *Ctx, ins []epInput, optsFor func(in epInput, entry string) []string) []epCase {
	var cases []epCase
	for _, in := range ins {
		for _, e := range entriesFor(in, c) {
			for _, o := range optsFor(in, e) {
				cases = append(cases, epCase{Entry: e, In: in, Opts: o})
			}
		}
	}
	return cases
}

// C01 — no input or I/O failure point makes a decoder panic or crash
func runC01(c *Ctx) error {
	c.Res.Rule = "every public decode entry point x (sample files, crafted edge files, structure-aware mutations: truncation, byte flips, extreme 16/32-bit fields, spliced fragments, generated JPEG streams) x reader behaviours (plain; EOF or an error injected after k bytes; one-byte reads) in worker processes: the call must return (no panic, no fatal error, no hang). Non-trivial: every case; distinct by (entry, bytes, options)."
	ins := corpus(c, c.N(40, 1500), c.N(200, 6000))
	cases := buildCases(c, ins, func(in epInput, e string) []string {
		o := []string{""}
		if len(in.Data) > 0 && c.Rng.Intn(3) == 0 {
			k := c.Rng.Intn(len(in.Data))
			o = append(o, fmt.Sprintf("fail=%d:%s", k, []string{"eof", "err", "ueof"}[c.Rng.Intn(3)]))
		}
		if in.Kind == "crafted" || c.Rng.Intn(10) == 0 {
			o = append(o, "sched=1")
		}
		return o
	})
	sweep(cases, 8*time.Second)
	for _, cs := range cases {
		key := cs.Entry + " " + cs.In.Name + " " + cs.Opts + fmt.Sprint(fnv32(cs.In.Data))
		c.Count(key, true)
		c.Stat("entry." + cs.Entry)
		c.Stat("kind." + cs.In.Kind)
		if cs.Ans.Crash == "" {
			c.Stat("outcome.returned")
			continue
		}
		kind := "panic"
		frame := frameOf(cs.Ans.Crash)
		class := panicClass(cs.Ans.Crash)
		if cs.Ans.Crash == "hang" {
			kind, class = "hang", "no-return"
		} else if strings.HasPrefix(cs.Ans.Crash, "crash") {
			kind, frame, class = "panic", "fatal", cs.Ans.Crash
		}
		c.Stat("outcome." + kind)
		c.Violate(Case{Entry: cs.Entry, Input: hexs(cs.In.Data) + " " + cs.Opts, Expected: "returns a value and/or an error", Actual: cs.Ans.Crash,
			Kind: kind, Frame: frame, Class: class, Note: cs.In.Name})
	}
	return nil
}

// C02 — every decode terminates after work linear in the input size
func runC02(c *Ctx) error {
	c.Res.Rule = "every decode entry point x the corpus of C01 (plain in-memory reader) under a watchdog, with an instrumented io.ReadSeeker: the call returns, requested bytes <= 4*len+64KiB, wall time within a generous per-byte budget. Non-trivial: every case."
	ins := corpus(c, c.N(40, 1500), c.N(300, 8000))
	cases := buildCases(c, ins, func(in epInput, e string) []string { return []string{""} })
	sweep(cases, 8*time.Second)
	for _, cs := range cases {
		c.Count(cs.Entry+" "+cs.In.Name+fmt.Sprint(fnv32(cs.In.Data)), true)
		c.Stat("entry." + cs.Entry)
		n := len(cs.In.Data)
		if cs.Ans.Crash == "hang" {
			c.Violate(Case{Entry: cs.Entry, Input: hexs(cs.In.Data), Expected: "returns", Actual: "no return within the watchdog", Kind: "hang", Class: "no-return", Note: cs.In.Name})
			continue
		}
		if cs.Ans.Crash != "" {
			c.Stat("outcome.crash(C01)")
			continue
		}
		c.Stat("outcome.returned")
		if cs.Ans.Req > 4*n+65536 {
			c.Violate(Case{Entry: cs.Entry, Input: hexs(cs.In.Data), Expected: fmt.Sprintf("requested <= %d", 4*n+65536), Actual: fmt.Sprintf("requested %d in %d reads, %d seeks", cs.Ans.Req, cs.Ans.Reads, cs.Ans.Seeks), Kind: "wrong-value", Class: "superlinear-reads", Note: cs.In.Name})
		}
		if cs.Ans.Ms > 2000+n/50 {
			c.Violate(Case{Entry: cs.Entry, Input: hexs(cs.In.Data), Expected: "time within budget", Actual: fmt.Sprintf("%d ms", cs.Ans.Ms), Kind: "hang", Class: "slow", Note: cs.In.Name})
		}
	}
	return nil
}

// runPool runs fn(worker, i) for i in [0,n) on a pool of worker processes.
func runPool(n int, timeout time.Duration, fn func(wk *Worker, i int)) {
	nw := runtime.NumCPU() - 2
	if nw < 2 {
		nw = 2
	}
	if nw > 14 {
		nw = 14
	}
	var wg sync.WaitGroup
	ch := make(chan int, 256)
	for w := 0; w < nw; w++ {
		wg.Add(1)
		go func() {
			defer wg.Done()
			wk := &Worker{Timeout: timeout}
			defer wk.Close()
			for i := range ch {
				fn(wk, i)
			}
		}()
	}
	for i := 0; i < n; i++ {
		ch <- i
	}
	close(ch)
	wg.Wait()
}
