package main

// Input corpus for the cross-cutting properties: the repository's own sample files (bounded prefixes),
// structure-aware mutations of them (truncation at many k, byte flips, extreme 16/32-bit fields, spliced
// fragments), generated JPEG marker sequences (C10), and small hand-made files that sit on known edges.

import (
	"bytes"
	"encoding/binary"
	"fmt"
	"strings"
	"os"
	"path/filepath"
	"sort"
)

type epInput struct {
	Name string
	Data []byte
	Kind string // sample | trunc | flip | field | splice | crafted | jpeggen
}

var repoDir = envOr("VERIF_REPO", "/repo")

func envOr(k, d string) string {
	if v := os.Getenv(k); v != "" {
		return v
	}
	return d
}

const samplePrefix = 48 * 1024

func sampleFiles() []epInput {
	var out []epInput
	for _, dir := range []string{"testImages", "assets", "imagehash/testImages"} {
		ents, err := os.ReadDir(filepath.Join(repoDir, dir))
		if err != nil {
			continue
		}
		for _, e := range ents {
			n := e.Name()
			if e.IsDir() || filepath.Ext(n) == ".json" || filepath.Ext(n) == ".go" {
				continue
			}
			b, err := os.ReadFile(filepath.Join(repoDir, dir, n))
			if err != nil {
				continue
			}
			if len(b) > samplePrefix {
				b = b[:samplePrefix]
			}
			out = append(out, epInput{dir + "/" + n, b, "sample"})
		}
	}
	sort.Slice(out, func(i, j int) bool { return out[i].Name < out[j].Name })
	// de-duplicate identical content (assets/ and testImages/ share files)
	seen := map[uint32]bool{}
	var ded []epInput
	for _, s := range out {
		h := fnv32(s.Data)
		if !seen[h] {
			seen[h] = true
			ded = append(ded, s)
		}
	}
	return ded
}

// tiny TIFF builder for crafted cases
type ifdEntry struct {
	tag, typ uint16
	count    uint32
	value    []byte // 4 bytes (embedded / offset)
}

func tiffLE(entries []ifdEntry, next uint32, tail []byte) []byte {
	b := []byte("II*\x00\x08\x00\x00\x00")
	b = binary.LittleEndian.AppendUint16(b, uint16(len(entries)))
	for _, e := range entries {
		b = binary.LittleEndian.AppendUint16(b, e.tag)
		b = binary.LittleEndian.AppendUint16(b, e.typ)
		b = binary.LittleEndian.AppendUint32(b, e.count)
		v := append([]byte{}, e.value...)
		for len(v) < 4 {
			v = append(v, 0)
		}
		b = append(b, v[:4]...)
	}
	b = binary.LittleEndian.AppendUint32(b, next)
	return append(b, tail...)
}

func le32(v uint32) []byte { return binary.LittleEndian.AppendUint32(nil, v) }

func craftedInputs() []epInput {
	var out []epInput
	add := func(n string, b []byte) { out = append(out, epInput{"crafted/" + n, b, "crafted"}) }
	// two embedded entries, file ends right after them (no next-IFD pointer): history dependence (C04)
	two := tiffLE([]ifdEntry{{0x0112, 3, 1, []byte{6, 0}}, {0x0100, 3, 1, []byte{0x80, 0x02}}}, 0, nil)
	add("ifd0-two-embedded-no-next", two[:len(two)-4])
	add("ifd0-two-embedded", two)
	// 100 entries: 1200 bytes of directory against the 1024-byte scratch buffer (unbuffered Parse)
	var many []ifdEntry
	for i := 0; i < 100; i++ {
		many = append(many, ifdEntry{uint16(0x9000 + i), 3, 1, []byte{1, 0}})
	}
	add("ifd0-100-entries", tiffLE(many, 0, make([]byte, 64)))
	// more out-of-line values than the 84 slots of the pending-tag buffer, in ascending and in descending offset order (a
	// tag with an offset below every pending one arrives when the buffer is full), in IFD0 and behind an Exif pointer
	for _, n := range []int{83, 84, 85, 86, 100, 128} {
		for _, desc := range []bool{false, true} {
			base := 8 + 2 + 12*n + 4
			var es []ifdEntry
			for i := 0; i < n; i++ {
				k := i
				if desc {
					k = n - 1 - i
				}
				es = append(es, ifdEntry{[]uint16{0x013b, 0x8298, 0x0131, 0x010e, 0x9c9b}[i%5], 2, 8, le32(uint32(base + 8*k))})
			}
			name := fmt.Sprintf("ifd0-%d-out-of-line-values-%s", n, map[bool]string{false: "ascending", true: "descending"}[desc])
			add(name, tiffLE(es, 0, bytes.Repeat([]byte("abcdefg\x00"), n+2)))
		}
	}
	// 80 string values that all lie beyond the end of a 1 KB file: once the stream has ended, the remaining pending tags
	// must not cost a read each (C02 read budget); bare, and inside JPEG / PNG below
	var beyond []ifdEntry
	for i := 0; i < 80; i++ {
		beyond = append(beyond, ifdEntry{[]uint16{0x013b, 0x8298, 0x0131, 0x010e}[i%4], 2, 40, le32(uint32(2000 + 50*i))})
	}
	add("ifd0-80-values-beyond-eof", tiffLE(beyond, 0, make([]byte, 32)))
	{
		// the same directory as the CMT1 box of a CR3 file and as the Exif item of a HEIF file whose boxes declare room for
		// the values but whose bytes end right after the directory: the Exif reader then reads through an ISOBMFF box
		bt := tiffLE(beyond, 0, make([]byte, 32))
		padded := append(append([]byte{}, bt...), make([]byte, 1<<20)...) // the boxes declare a megabyte; the file is cut below
		meta := &bnode{typ: "uuid", prefix: uuidCR3Meta, kids: []*bnode{{typ: "CNCV", payload: []byte("CanonCR3_001/00.10.00/00.00.00")}, {typ: "CMT1", payload: padded}}}
		cr3 := (&bmffTree{top: []*bnode{{typ: "ftyp", payload: []byte("crx \x00\x00\x00\x01crx isom")}, {typ: "moov", kids: []*bnode{meta}}}}).bytes()
		if i := bytes.Index(cr3, bt[:40]); i > 0 {
			add("cr3-cmt1-80-values-beyond-eof", cr3[:i+len(bt)])
		}
		box := func(t string, p []byte) []byte {
			b := binary.BigEndian.AppendUint32(nil, uint32(8+len(p)))
			return append(append(b, []byte(t)...), p...)
		}
		heif := append(box("ftyp", []byte("heic\x00\x00\x00\x00mif1heic")), box("mdat", append([]byte{0, 0, 0, 6, 'E', 'x', 'i', 'f', 0, 0}, padded...))...)
		if i := bytes.Index(heif, bt[:40]); i > 0 {
			add("heif-mdat-80-values-beyond-eof", heif[:i+len(bt)])
		}
	}
	// first IFD offset pointing at the last byte of a 32-byte file
	short := append([]byte("II*\x00\x1f\x00\x00\x00"), make([]byte, 24)...)
	add("ifd-at-byte-31", short)
	// out-of-line ASCII values of awkward sizes: 0, 1, 3 (DateTime shorter than 20), huge
	for _, n := range []uint32{0, 1, 3, 19, 20, 21, 1025, 5000, 0x7fffffff, 0xffffffff} {
		tl := bytes.Repeat([]byte("2021:02:03 04:05:06\x00"), 4)
		add(fmt.Sprintf("datetime-count-%d", n), tiffLE([]ifdEntry{{0x0132, 2, n, le32(26)}}, 0, tl))
		add(fmt.Sprintf("make-count-%d", n), tiffLE([]ifdEntry{{0x010f, 2, n, le32(26)}}, 0, tl))
	}
	// Exif sub-IFD with OffsetTime / SubSecTime / LensSpecification / GPS values that are too short
	exifIfd := func(entries []ifdEntry, tail []byte) []byte {
		// IFD0 with one ExifTag pointing to offset 26
		b := tiffLE([]ifdEntry{{0x8769, 4, 1, le32(26)}}, 0, nil)
		sub := binary.LittleEndian.AppendUint16(nil, uint16(len(entries)))
		for _, e := range entries {
			sub = binary.LittleEndian.AppendUint16(sub, e.tag)
			sub = binary.LittleEndian.AppendUint16(sub, e.typ)
			sub = binary.LittleEndian.AppendUint32(sub, e.count)
			v := append([]byte{}, e.value...)
			for len(v) < 4 {
				v = append(v, 0)
			}
			sub = append(sub, v[:4]...)
		}
		sub = append(sub, 0, 0, 0, 0)
		return append(append(b, sub...), tail...)
	}
	for _, n := range []uint32{5, 6, 7, 2} {
		add(fmt.Sprintf("offsettime-count-%d", n), exifIfd([]ifdEntry{{0x9010, 2, n, le32(44)}}, []byte("+01:00\x00\x00\x00\x00")))
	}
	add("lensspec-count-1", exifIfd([]ifdEntry{{0xa432, 5, 1, le32(44)}}, make([]byte, 40)))
	add("lensspec-count-4", exifIfd([]ifdEntry{{0xa432, 5, 4, le32(44)}}, make([]byte, 40)))
	add("rational-count-0", exifIfd([]ifdEntry{{0x829a, 5, 0, le32(44)}}, make([]byte, 40)))
	add("subsectime-embedded", exifIfd([]ifdEntry{{0x9290, 2, 3, []byte("50\x00")}}, nil))
	add("makernote-canonless", exifIfd([]ifdEntry{{0x927c, 7, 40, le32(44)}}, make([]byte, 60)))
	// PNG: signature + eXIf chunk holding a little-endian payload
	pngFile := func(payload []byte) []byte {
		b := []byte("\x89PNG\r\n\x1a\n")
		b = binary.BigEndian.AppendUint32(b, 13)
		b = append(b, []byte("IHDR")...)
		b = append(b, make([]byte, 13+4)...)
		b = binary.BigEndian.AppendUint32(b, uint32(len(payload)))
		b = append(b, []byte("eXIf")...)
		b = append(b, payload...)
		return append(b, make([]byte, 4+12)...)
	}
	add("png-exif-le", pngFile(two))
	be := []byte("MM\x00*\x00\x00\x00\x08\x00\x01\x01\x12\x00\x03\x00\x00\x00\x01\x00\x06\x00\x00\x00\x00\x00\x00")
	add("png-exif-be", pngFile(be))
	add("png-no-exif", pngFile(nil)[:40])
	// PNG chunk lengths with the top bit set (small negative numbers when read as signed): a walker that adds length + 4 in a
	// signed type steps backwards over them and never ends; length + 4 wrapping to a small number is the other half
	for _, l := range []uint32{0xfffffff4, 0xfffffff0, 0xffffffe8, 0xffffffec, 0xfffffffc, 0xfffffff8, 0x80000000, 0x7fffffff, 0xffffffff} {
		b := []byte("\x89PNG\r\n\x1a\n")
		b = binary.BigEndian.AppendUint32(b, 13)
		b = append(append(b, []byte("IHDR")...), make([]byte, 13+4)...)
		one := binary.BigEndian.AppendUint32(append([]byte{}, b...), l)
		one = append(append(one, []byte("tEXt")...), make([]byte, 64)...)
		add(fmt.Sprintf("png-chunk-length-%08x", l), one)
		// an empty chunk first, then the odd length (a backward step of 24 lands on the empty chunk again)
		two := binary.BigEndian.AppendUint32(append([]byte{}, b...), 0)
		two = append(append(two, []byte("tEXt")...), make([]byte, 4)...)
		two = binary.BigEndian.AppendUint32(two, l)
		two = append(append(two, []byte("zTXt")...), make([]byte, 64)...)
		add(fmt.Sprintf("png-empty-chunk-then-length-%08x", l), two)
	}
	// no TIFF header, and a tail made of order-mark bytes: the header search steps one byte at a time there, and a search
	// that keeps looking ahead near the end of the stream asks the source once per step
	for _, t := range []string{strings.Repeat("M", 64), strings.Repeat("I", 40), strings.Repeat("x", 100) + strings.Repeat("MI", 40), strings.Repeat("IIMM", 16), strings.Repeat("\x00", 300) + strings.Repeat("I", 33)} {
		add(fmt.Sprintf("no-tiff-header-order-mark-tail-%d-%c", len(t), t[len(t)-1]), []byte(t))
	}
	// ISOBMFF: ftyp + free + moov-less; ftyp crx + moov with tiny children; meta with zero-size infe
	box := func(t string, p []byte) []byte {
		b := binary.BigEndian.AppendUint32(nil, uint32(8+len(p)))
		return append(append(b, []byte(t)...), p...)
	}
	ftypCrx := box("ftyp", []byte("crx \x00\x00\x00\x01crx isom"))
	ftypHeic := box("ftyp", []byte("heic\x00\x00\x00\x00mif1heic"))
	add("bmff-ftyp-only", ftypCrx)
	add("bmff-ftyp-free-moov", append(append(append([]byte{}, ftypCrx...), box("free", make([]byte, 40))...), box("moov", box("uuid", make([]byte, 40)))...))
	add("bmff-ftyp-moov-empty", append(append([]byte{}, ftypCrx...), box("moov", nil)...))
	infe0 := append([]byte{0, 0, 0, 0, 0, 1}, box("infe", nil)[:8]...)
	infe0[6], infe0[7], infe0[8], infe0[9] = 0, 0, 0, 0 // size field zero
	meta := box("meta", append([]byte{0, 0, 0, 0}, box("iinf", append(infe0, make([]byte, 40)...))...))
	add("bmff-infe-zero-size", append(append(append([]byte{}, ftypHeic...), meta...), make([]byte, 64)...))
	add("bmff-size-1-64bit", append(append([]byte{}, ftypCrx...), append([]byte{0, 0, 0, 1, 'm', 'd', 'a', 't', 0x80, 0, 0, 0, 0, 0, 0, 0}, make([]byte, 64)...)...))
	// boxes whose short payload ends exactly at the end of the 4096-byte read window: indexing past the peeked bytes then
	// also runs past the capacity of the slice bufio hands out
	alignEnd := func(name string, tail []byte, after []byte) {
		pad := 4096 - len(ftypHeic) - len(tail) - 8
		f := append(append([]byte{}, ftypHeic...), box("free", make([]byte, pad))...)
		f = append(f, tail...)
		add(name, append(f, after...))
	}
	alignEnd("bmff-hdlr-short-at-window-end", box("meta", append(append([]byte{0, 0, 0, 0}, box("hdlr", []byte{0, 0, 0, 0, 1, 2, 3})...), 0)), make([]byte, 64))
	cr3uuid := []byte{0x85, 0xc0, 0xb6, 0x87, 0x82, 0x0f, 0x11, 0xe0, 0x81, 0x11, 0xf4, 0xce, 0x46, 0x2b, 0x6a, 0x48}
	alignEnd("bmff-ctbo-short-at-window-end", box("moov", box("uuid", append(append([]byte{}, cr3uuid...), box("CTBO", []byte{0, 1})...))), make([]byte, 64))
	{
		// meta with an Exif item whose data carries no "Exif" marker, placed so that the 16 peeked bytes end the window
		infe := box("infe", append([]byte{2, 0, 0, 0, 0, 5, 0, 0}, []byte("Exif\x00")...))
		iinf := box("iinf", append([]byte{0, 0, 0, 0, 0, 1}, infe...))
		iloc := box("iloc", append([]byte{0, 0, 0, 0, 0x44, 0, 0, 1, 0, 5, 0, 0, 0, 1}, append(binary.BigEndian.AppendUint32(nil, 4088), 0, 0, 0, 40)...))
		metaB := box("meta", append([]byte{0, 0, 0, 0}, append(iinf, iloc...)...))
		pre := append(append([]byte{}, ftypHeic...), metaB...)
		// mdat header at 4080-8-? : the reader discards offset-b.offset-16 after the 8-byte header, i.e. stands at offset-8 = 4080
		lead := 4080 - len(pre) - 8
		f := append(pre, box("mdat", make([]byte, lead+200))...)
		add("bmff-exif-item-no-marker-at-window-end", f)
	}
	{
		// an inner box that cannot be closed (it claims more than its parents hold) followed by the boxes that locate an Exif
		// item: whether the loop stops there must not depend on the log level (C15). Variant 1: the box is a reference box
		// inside an overstated iref; variant 2: a free box directly inside meta; variant 3: inside moov before the Canon uuid.
		tiffB := []byte{'I', 'I', 42, 0, 8, 0, 0, 0, 1, 0, 0x0f, 0x01, 2, 0, 6, 0, 0, 0, 26, 0, 0, 0, 0, 0, 0, 0, 'C', 'a', 'n', 'o', 'n', 0}
		exifItem := append([]byte{0, 0, 0, 6, 'E', 'x', 'i', 'f', 0, 0}, tiffB...)
		ftypAvif := box("ftyp", []byte("avif\x00\x00\x00\x00avifmif1miaf"))
		hdlr := box("hdlr", append(append(make([]byte, 8), []byte("pict")...), make([]byte, 13)...))
		infe := box("infe", append([]byte{2, 0, 0, 0, 0, 1, 0, 0}, []byte("Exif\x00")...))
		iinf := box("iinf", append([]byte{0, 0, 0, 0, 0, 1}, infe...))
		for v, bad := range [][]byte{
			append(append(binary.BigEndian.AppendUint32(nil, 0x10000), []byte("iref\x00\x00\x00\x00")...), append(binary.BigEndian.AppendUint32(nil, 0x8000), []byte("cdsc")...)...),
			append(binary.BigEndian.AppendUint32(nil, 0x8000), []byte("free")...),
		} {
			mkIloc := func(off uint32) []byte {
				return box("iloc", append([]byte{0, 0, 0, 0, 0x44, 0, 0, 1, 0, 1, 0, 0, 0, 1}, append(binary.BigEndian.AppendUint32(nil, off), binary.BigEndian.AppendUint32(nil, uint32(len(exifItem)+16))...)...))
			}
			metaLen := 8 + 4 + len(hdlr) + len(iinf) + len(bad) + len(mkIloc(0))
			off := uint32(len(ftypAvif) + metaLen + 8 + 8)
			body := append([]byte{0, 0, 0, 0}, hdlr...)
			body = append(append(append(body, iinf...), bad...), mkIloc(off)...)
			f := append(append([]byte{}, ftypAvif...), box("meta", body)...)
			f = append(f, box("mdat", append(append(make([]byte, 8), exifItem...), make([]byte, 16)...))...)
			add(fmt.Sprintf("bmff-unclosable-inner-box-then-iloc-%d", v+1), f)
		}
		cmt1 := box("CMT1", tiffB)
		moov := box("moov", append(append(binary.BigEndian.AppendUint32(nil, 0x8000), []byte("free")...), box("uuid", append(append([]byte{}, cr3uuid...), cmt1...))...))
		add("bmff-unclosable-inner-box-then-uuid", append(append(append([]byte{}, ftypCrx...), moov...), box("free", make([]byte, 32))...))
	}
	{
		// a 64-bit-size box whose header starts 8 bytes before the end of the read window
		pad := 4088 - len(ftypCrx) - 8
		f := append(append([]byte{}, ftypCrx...), box("free", make([]byte, pad))...)
		f = append(f, 0, 0, 0, 1, 'm', 'd', 'a', 't', 0, 0, 0, 0, 0, 0, 0, 48)
		add("bmff-largesize-header-at-window-end", append(f, make([]byte, 64)...))
		// a preview whose PRVW header declares 64 MiB (resp. 512 KiB) of JPEG in a file of about two hundred bytes, with dimensions that
		// make the size look plausible (8000 x 8000) or not (16 x 16, 0 x 0): no field of the header may size an allocation
		for _, dim := range [][2]uint16{{8000, 8000}, {16, 16}, {0, 0}, {65535, 65535}} {
			for _, declared := range []uint32{64 << 20, 512 << 10, 0x7fffffff} {
				u32 := func(v uint32) []byte { return binary.BigEndian.AppendUint32(nil, v) }
				f := append(append([]byte{}, u32(16)...), []byte("ftypcrx \x00\x00\x00\x01")...)
				f = append(append(f, u32(8)...), []byte("free")...)
				f = append(append(f, u32(8)...), []byte("free")...)
				f = append(append(f, u32(8+16+8+24+declared)...), []byte("uuid")...)
				f = append(f, 0xea, 0xf4, 0x2b, 0x5e, 0x1c, 0x98, 0x4b, 0x88, 0xb9, 0xfb, 0xb7, 0xdc, 0x40, 0x6e, 0x4d, 0x16)
				f = append(f, 0, 0, 0, 0, 0, 0, 0, 1)
				f = append(append(f, u32(24+declared)...), []byte("PRVW")...)
				f = append(f, 0, 0, 0, 0, 0, 1)
				f = binary.BigEndian.AppendUint16(f, dim[0])
				f = binary.BigEndian.AppendUint16(f, dim[1])
				f = append(f, 0, 1)
				f = append(f, u32(declared)...)
				f = append(append(f, 0xff, 0xd8), bytes.Repeat([]byte{0x55}, 98)...)
				add(fmt.Sprintf("cr3-prvw-declares-%d-dims-%dx%d-truncated", declared, dim[0], dim[1]), f)
			}
		}
		// size fields far beyond the file: meta and iloc each declare 64 MiB in a file of about a hundred bytes
		big := func(t string, declared uint32, p []byte) []byte {
			return append(append(binary.BigEndian.AppendUint32(nil, declared), []byte(t)...), p...)
		}
		iloc := big("iloc", 64<<20, []byte{0, 0, 0, 0, 0x44, 0, 0, 1, 0, 5, 0, 0, 0, 1, 0, 0, 0, 200, 0, 0, 0, 40})
		for _, ft := range [][]byte{ftypCrx, box("ftyp", []byte("avif\x00\x00\x00\x00mif1avif"))} {
			add("bmff-meta-iloc-declare-64MiB", append(append([]byte{}, ft...), big("meta", 64<<20+12, append([]byte{0, 0, 0, 0}, iloc...))...))
		}
		// iloc entries that declare 65535 extents each while offset_size = length_size = 0 (an extent then takes no bytes),
		// and with 4-byte fields (the extents then run off the box): counts from the file must not drive allocation
		for _, szb := range []byte{0x00, 0x44, 0x04, 0x40} {
			var ents []byte
			for k := 0; k < 20; k++ {
				ents = append(ents, 0, byte(k+1), 0, 0, 0xff, 0xff)
			}
			il := box("iloc", append([]byte{0, 0, 0, 0, szb, 0, 0, 20}, ents...))
			hdl := box("hdlr", append(append(make([]byte, 8), []byte("pict")...), make([]byte, 13)...))
			for _, ft := range [][]byte{ftypCrx, box("ftyp", []byte("avif\x00\x00\x00\x00mif1avif"))} {
				add(fmt.Sprintf("bmff-iloc-65535-extents-sizes-%02x", szb), append(append([]byte{}, ft...), box("meta", append(append([]byte{0, 0, 0, 0}, hdl...), il...))...))
			}
		}
		// many small iloc boxes that each declare 65535 items: the item count must not drive allocation either, and the
		// cost must not add up over repeated boxes
		for _, nb := range []int{2, 16, 64} {
			var ils []byte
			for k := 0; k < nb; k++ {
				ils = append(ils, box("iloc", []byte{0, 0, 0, 0, 0x44, 0x00, 0xff, 0xff})...)
			}
			hdl := box("hdlr", append(append(make([]byte, 8), []byte("pict")...), make([]byte, 13)...))
			for _, ft := range [][]byte{ftypCrx, box("ftyp", []byte("avif\x00\x00\x00\x00mif1avif"))} {
				add(fmt.Sprintf("bmff-%d-iloc-boxes-65535-items", nb), append(append([]byte{}, ft...), box("meta", append(append([]byte{0, 0, 0, 0}, hdl...), ils...))...))
			}
		}
		hd := big("hdlr", 8<<20, []byte{0, 0, 0, 0, 0, 0, 0, 0, 'p', 'i', 'c', 't'})
		add("bmff-meta-hdlr-declare-8MiB", append(append([]byte{}, ftypCrx...), big("meta", 8<<20+12, append([]byte{0, 0, 0, 0}, hd...))...))
		add("bmff-ftyp-declares-16MiB", big("ftyp", 16<<20, []byte("crx \x00\x00\x00\x01crx isom")))
	}
	// two out-of-line values of almost 4 MiB each in a file of a few hundred bytes (value offsets inside the file)
	for _, cnt := range []uint32{4000000, 4194304 - 300, 1 << 20} {
		tl := make([]byte, 200)
		b := tiffLE([]ifdEntry{{0x010f, 2, cnt, le32(50)}, {0x0110, 2, cnt, le32(54)}, {0x0131, 2, cnt, le32(58)}}, 0, tl)
		add(fmt.Sprintf("two-values-count-%d", cnt), b)
		add(fmt.Sprintf("png-two-values-count-%d", cnt), pngFile(b))
	}
	// entries whose TYPE is invalid while the tag ID is one the parser acts on (after a valid entry for the same tag)
	for _, ty := range []uint16{0, 6, 13, 14, 255, 0x0300} {
		add(fmt.Sprintf("ifd0-orientation-then-invalid-type-%d", ty), tiffLE([]ifdEntry{{0x0112, 3, 1, []byte{6, 0}}, {0x0112, ty, 1, []byte{0, 0}}, {0x0100, 3, 1, []byte{0x80, 0x02}}}, 0, make([]byte, 16)))
		add(fmt.Sprintf("ifd0-invalid-type-%d-then-orientation", ty), tiffLE([]ifdEntry{{0x010f, ty, 6, le32(50)}, {0x0112, 3, 1, []byte{6, 0}}}, 0, append(make([]byte, 12), []byte("Canon\x00")...)))
	}
	// infe entries of item type mime that end right at / before their content type
	for _, sz := range []int{20, 21, 22, 23} {
		e := append([]byte{2, 0, 0, 0, 0, 7, 0, 0}, []byte("mime\x00ab\x00")...)
		infe := box("infe", e)[:sz]
		binary.BigEndian.PutUint32(infe, uint32(sz))
		iinf := box("iinf", append([]byte{0, 0, 0, 0, 0, 1}, infe...))
		add(fmt.Sprintf("bmff-infe-mime-size-%d", sz), append(append(append([]byte{}, ftypHeic...), box("meta", append([]byte{0, 0, 0, 0}, iinf...))...), make([]byte, 32)...))
		add(fmt.Sprintf("bmff-crx-infe-mime-size-%d", sz), append(append(append([]byte{}, ftypCrx...), box("meta", append([]byte{0, 0, 0, 0}, iinf...))...), make([]byte, 32)...))
	}
	// JPEG edge cases
	add("jpeg-eoi-then-marker", append([]byte{0xFF, 0xD8, 0xFF, 0xD9, 0xFF, 0xE0, 0x00, 0x10}, make([]byte, 100)...))
	add("jpeg-ff-start", append([]byte{0xFF, 0xE0, 0x00, 0x10}, make([]byte, 100)...))
	// every segment kind with a length field at the boundaries of the 16-bit range, followed by enough bytes to skip over
	for _, mk := range []byte{0xE0, 0xE1, 0xE2, 0xEE, 0xC0, 0xC4, 0xDB, 0xFE, 0xDD} {
		for _, ln := range []int{0, 1, 2, 3, 0xFFFD, 0xFFFE, 0xFFFF} {
			j := []byte{0xFF, 0xD8, 0xFF, mk, byte(ln >> 8), byte(ln)}
			j = append(j, make([]byte, 0x10010)...)
			j = append(j, 0xFF, 0xD9)
			add(fmt.Sprintf("jpeg-seg-%02x-len-%d", mk, ln), j)
		}
	}
	// XMP edge cases
	add("xmp-tab-separated", []byte("<x:xmpmeta xmlns:x=\"adobe:ns:meta/\"><rdf:RDF><rdf:Description\ttiff:Make=\"Canon\"\ttiff:Model=\"X\"/></rdf:RDF></x:xmpmeta>"))
	// white space in front of an element that puts its '<' at the end of the 128-byte look-ahead window, and a run longer
	// than the 512-byte value window in front of an array item (both repaired, see known_findings)
	for _, n := range []int{111, 120, 127, 255, 383, 600} {
		ws := strings.Repeat(" ", n)
		add(fmt.Sprintf("xmp-ws-%d-between-elements", n), []byte("<x:xmpmeta xmlns:x=\"adobe:ns:meta/\"><rdf:RDF xmlns:rdf=\"http://www.w3.org/1999/02/22-rdf-syntax-ns#\"><rdf:Description rdf:about=\"\" xmlns:tiff=\"http://ns.adobe.com/tiff/1.0/\" xmlns:dc=\"http://purl.org/dc/elements/1.1/\"><tiff:Make>Canon</tiff:Make>"+ws+"<tiff:Model>EOS</tiff:Model><dc:subject><rdf:Bag>"+ws+"<rdf:li>a</rdf:li></rdf:Bag></dc:subject></rdf:Description></rdf:RDF></x:xmpmeta>"))
	}
	add("xmp-unterminated", []byte("<x:xmpmeta xmlns:x=\"adobe:ns:meta/\"><rdf:RDF><rdf:Description tiff:Make=\"Canon"))
	return out
}

// mutate produces structure-aware variants of one input
func mutate(c *Ctx, in epInput, n int) []epInput {
	var out []epInput
	b := in.Data
	if len(b) == 0 {
		return nil
	}
	for i := 0; i < n; i++ {
		switch c.Rng.Intn(4) {
		case 0: // truncation, biased to the front where the structure is
			k := c.Rng.Intn(len(b))
			if c.Rng.Intn(2) == 0 && len(b) > 600 {
				k = c.Rng.Intn(600)
			}
			out = append(out, epInput{fmt.Sprintf("%s#trunc%d", in.Name, k), b[:k], "trunc"})
		case 1: // byte flips
			m := append([]byte{}, b...)
			for j := 0; j < 1+c.Rng.Intn(3); j++ {
				p := c.Rng.Intn(min(len(m), 4096))
				m[p] = byte(c.Rng.Intn(256))
			}
			out = append(out, epInput{in.Name + "#flip", m, "flip"})
		case 2: // extreme 16/32-bit fields at a 2-aligned position in the first 2 KiB
			m := append([]byte{}, b...)
			p := c.Rng.Intn(min(len(m), 2048)) &^ 1
			vals := [][]byte{{0, 0, 0, 0}, {0xff, 0xff, 0xff, 0xff}, {0, 0, 0, 1}, {1, 0, 0, 0}, {0x7f, 0xff, 0xff, 0xff}, {0xff, 0xff, 0xff, 0x7f}, {0, 0, 0x10, 0}, {0, 0x10, 0, 0}, {0x80, 0, 0, 0}, {0, 0, 0, 0x80}}
			copy(m[p:], vals[c.Rng.Intn(len(vals))])
			out = append(out, epInput{in.Name + "#field", m, "field"})
		default: // duplicate or delete a fragment
			p := c.Rng.Intn(min(len(b), 4096))
			l := 1 + c.Rng.Intn(64)
			if p+l > len(b) {
				l = len(b) - p
			}
			var m []byte
			if c.Rng.Intn(2) == 0 {
				m = append(append(append([]byte{}, b[:p+l]...), b[p:p+l]...), b[p+l:]...)
			} else {
				m = append(append([]byte{}, b[:p]...), b[p+l:]...)
			}
			out = append(out, epInput{in.Name + "#splice", m, "splice"})
		}
	}
	return out
}

func min(a, b int) int {
	if a < b {
		return a
	}
	return b
}

// generated well-formed and malformed JPEG streams (generator of C10)
func jpegGenInputs(c *Ctx, n int) []epInput {
	var out []epInput
	for i := 0; i < n; i++ {
		b := []byte{0xFF, 0xD8}
		for j := 0; j < c.Rng.Intn(6); j++ {
			b = append(b, genSeg(c).bytes()...)
		}
		b = append(b, 0xFF, 0xDB, 0x00, 0x43, 0x00)
		b = append(b, bytes.Repeat([]byte{0x10}, 130)...)
		if c.Rng.Intn(3) == 0 {
			b = b[:c.Rng.Intn(len(b)+1)]
		}
		out = append(out, epInput{fmt.Sprintf("jpeggen/%d", i), b, "jpeggen"})
	}
	return out
}

// the corpus for one run: samples + crafted + mutations
func corpus(c *Ctx, mutPerSample, jpegGen int) []epInput {
	s := sampleFiles()
	out := append([]epInput{}, s...)
	cr := craftedInputs()
	out = append(out, cr...)
	for _, in := range s {
		out = append(out, mutate(c, in, mutPerSample)...)
	}
	for _, in := range cr {
		out = append(out, mutate(c, in, mutPerSample/4+1)...)
	}
	out = append(out, jpegGenInputs(c, jpegGen)...)
	out = append(out, bmffGenInputs(c, jpegGen/3+4)...)
	// generated Exif files (TIFF and in JPEG / PNG / HEIF): valid metadata in every field parser, a quarter of them with
	// zero denominators in their rational values, IFD1, many-tag layouts
	out = append(out, genExifInputs(c, jpegGen/6+8)...)
	// generated XMP packets, whole and cut off at every kind of place, and attribute-dense packets that end inside a tag
	// (every look-ahead of the tokenizer near the end of the stream asks the source again unless it remembers the end)
	out = append(out, genXmpTruncated(c, jpegGen/6+8)...)
	return out
}

// generated ISOBMFF box trees (CR3- and HEIF-style, a third of them with wrong size fields, some truncated)
func bmffGenInputs(c *Ctx, n int) []epInput {
	var out []epInput
	for i := 0; i < n; i++ {
		t := genBmff(c, i%3 == 2)
		b := t.bytes()
		if i%7 == 6 {
			b = b[:c.Rng.Intn(len(b)+1)]
		}
		out = append(out, epInput{fmt.Sprintf("bmffgen/%d.cr3", i), b, "bmffgen"})
	}
	return out
}
