package main

import (
	"fmt"
	"strings"
	"time"

	"vh/internal/drv"
)

func init() {
	props["C11"] = runC11
	cmds["bmffdump"] = func(args []string) {
		c := &Ctx{Rng: newRand(7)}
		for i := 0; i < 6; i++ {
			t := genBmff(c, i%2 == 1)
			b := t.bytes()
			fmt.Printf("len=%d tags=", len(b))
			for _, n := range t.top {
				fmt.Printf("%s/%s ", n.typ, n.tag)
			}
			fmt.Println()
			fmt.Println("  run:", runBmff("all", 8, "exp", b))
			e, ok := expectedBmff(t, 8)
			fmt.Println("  exp:", ok, e)
		}
	}
}

func runC11(c *Ctx) error {
	c.Res.Rule = "generated box trees (CR3-style: ftyp, moov with the Canon uuid holding CNCV/CTBO/CMT1-4/unknown boxes, trak, xpacket uuid, preview uuid with PRVW; HEIF-style: meta with hdlr/pitm/iinf+infe/iref/iprp/idat/iloc and an mdat holding the Exif item; unknown boxes, 32- and 64-bit sizes, FullBox headers, a box ending exactly at the 4096-byte read window; a third of the trees with one or two size fields overstated or understated) x callback behaviours (io.ReadAll, Peek/Discard drain, read nothing, fail after 5 bytes, read 7 bytes) x which callbacks are set. Search on the real reader: no call consumes past the end its top-level box declares and a call without error stands exactly at that end; for well-formed CR3-style trees the callbacks receive exactly the payload bytes with the matching first directory and every top-level box ends where the tree says. Correspondence: the same runs against the Lean model. Non-trivial: trees with at least one callback event; distinct by (bytes, mode)."
	n := c.N(400, 20000)
	type job struct {
		req, mreq string
		data      []byte
		tree      *bmffTree
		mal       bool
		mode, set string
	}
	var jobs []job
	modes := []string{"all", "pd", "none", "fail", "k7"}
	mmode := map[string]string{"all": "drain", "pd": "drain", "none": "none", "fail": "fail", "k7": "k7"}
	for i := 0; i < n; i++ {
		mal := i%3 == 2
		t := genBmff(c, mal)
		b := t.bytes()
		if i%7 == 6 {
			b = b[:c.Rng.Intn(len(b)+1)] // truncated file
			mal = true
		}
		for k, m := range modes[:1+c.Rng.Intn(len(modes))] {
			set := "exp"
			if k > 0 {
				set = []string{"exp", "e", "p", "x", "ep", "-"}[c.Rng.Intn(6)]
			}
			jobs = append(jobs, job{req: fmt.Sprintf("bmff %s 8 %s %s", m, set, hexs(b)), mreq: fmt.Sprintf("bmff.run %s 8 %s %s", mmode[m], set, hexs(b)),
				data: b, tree: t, mal: mal, mode: m, set: set})
		}
	}
	ans := make([]string, len(jobs))
	runPool(len(jobs), 8*time.Second, func(wk *Worker, i int) { ans[i] = wk.Call(jobs[i].req) })
	var mreq []string
	for _, j := range jobs {
		mreq = append(mreq, j.mreq)
	}
	model, err := drv.Batch(mreq)
	if err != nil {
		return err
	}
	for i, j := range jobs {
		a := ans[i]
		c.Count(j.req, strings.Contains(a, "("))
		c.Stat("mode." + j.mode)
		c.Stat("set." + j.set)
		if j.mal {
			c.Stat("gen.malformed")
		} else {
			c.Stat("gen.wellformed")
		}
		for _, tok := range strings.Fields(a) {
			if k := strings.IndexAny(tok, "(="); k > 0 {
				name := tok[:k]
				if tok[k] == '=' {
					name += "=" + tok[k+1:strings.LastIndexByte(tok, '@')]
				}
				c.Stat("ev." + name)
			}
		}
		if i%3000 == 0 {
			c.Sample(map[string]string{"op": j.req[:min(len(j.req), 300)], "impl": a, "model": model[i]})
		}
		if strings.HasPrefix(a, "panic") || strings.HasPrefix(a, "crash") || a == "hang" {
			c.Violate(Case{Entry: "isobmff.Reader", Input: j.req, Expected: "returns", Actual: a, Kind: "panic", Frame: frameOf(a), Class: "panic:" + frameOf(a)})
			continue
		}
		if why := checkMarks(j.data, a); why != "" {
			c.Violate(Case{Entry: "isobmff.Reader", Input: j.req, Expected: "each call ends inside (without error: exactly at the end of) the top-level box it started on", Actual: why + " | " + a, Kind: "wrong-value", Class: "containment"})
		}
		if !j.mal && (j.mode == "all" || j.mode == "pd") && j.set == "exp" {
			if exp, ok := expectedBmff(j.tree, 8); ok {
				c.Stat("oracle.applied")
				if exp != a {
					c.Violate(Case{Entry: "isobmff.Reader", Input: j.req, Expected: exp, Actual: a, Kind: "wrong-value", Class: "payload-delivery"})
				}
			}
		}
		c.Stat("corr.compared")
		if model[i] != a {
			c.Disagree(Case{Entry: "isobmff.Reader", Input: j.req, Expected: model[i], Actual: a})
		}
	}
	return nil
}

func init() {
	cmds["ctbodemo"] = func(args []string) {
		p := []byte{0, 0, 0, 200}
		for j := 1; j <= 5; j++ {
			p = append(p, 0, 0, 0, byte(j), 0, 0, 0, 0, 0, 0, 0, 9, 0, 0, 0, 0, 0, 0, 0, 7)
		}
		t := &bmffTree{top: []*bnode{{typ: "ftyp", payload: []byte("crx \x00\x00\x00\x01crx isom")},
			{typ: "moov", kids: []*bnode{{typ: "uuid", prefix: uuidCR3Meta, kids: []*bnode{{typ: "CTBO", payload: p}}}}}}}
		fmt.Println(hexs(t.bytes()))
	}
}

func init() {
	cmds["prvwdemo"] = func(args []string) {
		hdr := make([]byte, 16)
		hdr[12], hdr[13], hdr[14], hdr[15] = 0x7f, 0xff, 0xff, 0xff
		prvw := &bnode{typ: "PRVW", payload: append(hdr, 1, 2, 3)}
		t := &bmffTree{top: []*bnode{{typ: "ftyp", payload: []byte("crx \x00\x00\x00\x01crx isom")},
			{typ: "moov", payload: make([]byte, 8)}, {typ: "uuid", prefix: uuidXPacket, payload: []byte("<x/>")},
			{typ: "uuid", prefix: append(append([]byte{}, uuidPreview...), make([]byte, 8)...), kids: []*bnode{prvw}}}}
		fmt.Println(hexs(t.bytes()))
	}
}
