package main

import (
	"bufio"
	"bytes"
	"errors"
	"fmt"
	"io"
	"strconv"
	"strings"

	"vh/internal/drv"

	"github.com/evanoberholster/imagemeta/jpeg"
	"github.com/evanoberholster/imagemeta/meta"
)

func init() {
	props["C10"] = runC10
	workerOps["jpegscan"] = func(a []string) string { return implJpegScan(unhex(a[0]), a[1], a[2], nil) }
}

func fnv32(b []byte) uint32 {
	h := uint32(2166136261)
	for _, x := range b {
		h = (h ^ uint32(x)) * 16777619
	}
	return h
}

var errCallback = errors.New("callback failed")

// implJpegScan runs jpeg.ScanJPEG with recording callbacks; canonical form as the driver's jpeg.scan.
// The Exif callback observes the stream through the *bufio.Reader it is handed (Peek), then consumes.
func implJpegScan(b []byte, em, xm string, wrap func(io.Reader) io.Reader) string {
	var evs strings.Builder
	mode := func(m string) (present bool, n int, all, fail bool) {
		switch {
		case m == "nil":
			return false, 0, false, false
		case m == "all":
			return true, 0, true, false
		case m == "fail":
			return true, 0, false, true
		default:
			k, _ := strconv.Atoi(m[1:])
			return true, k, false, false
		}
	}
	var exifCb func(r io.Reader, h meta.ExifHeader) error
	var xmpCb func(r io.Reader) error
	if p, n, all, fail := mode(em); p {
		exifCb = func(r io.Reader, h meta.ExifHeader) error {
			view := []byte{}
			if br, ok := r.(*bufio.Reader); ok {
				k := 64
				if uint32(k) > h.ExifLength {
					k = int(h.ExifLength)
				}
				view, _ = br.Peek(k)
			}
			fmt.Fprintf(&evs, " E %d %d %d %d %d %d", int(h.ByteOrder), h.FirstIfdOffset, h.TiffHeaderOffset, h.ExifLength, len(view), fnv32(view))
			if fail {
				return errCallback
			}
			c := int64(n)
			if all {
				c = int64(h.ExifLength)
			}
			io.CopyN(io.Discard, r, c)
			return nil
		}
	}
	if p, n, all, fail := mode(xm); p {
		xmpCb = func(r io.Reader) error {
			// observe the view without consuming: the LimitedReader bounds it, the bufio window shows its first 4096 bytes
			lr := r.(*io.LimitedReader)
			total := lr.N
			if total < 0 {
				total = 0
			}
			var view []byte
			if br, ok := lr.R.(*bufio.Reader); ok && total > 0 {
				k := total
				if k > 4096 {
					k = 4096
				}
				view, _ = br.Peek(int(k))
			}
			fmt.Fprintf(&evs, " X %d %d", len(view), fnv32(view))
			if fail {
				return errCallback
			}
			c := int64(n)
			if all {
				c = total
			}
			got, _ := io.ReadAll(io.LimitReader(r, c))
			if all {
				// reading to the end yields exactly the packet
				fmt.Fprintf(&evs, " A %d %d", len(got), fnv32(got))
			}
			return nil
		}
	}
	var r io.Reader = bytes.NewReader(b)
	if wrap != nil {
		r = wrap(r)
	}
	var err error
	p, fr, val := safely(func() { err = jpeg.ScanJPEG(bufio.NewReaderSize(r, 4096), exifCb, xmpCb) })
	if p {
		return "panic " + fr + " " + val
	}
	res := "other:" + fmt.Sprint(err)
	switch {
	case err == nil:
		res = "ok"
	case errors.Is(err, jpeg.ErrNoJPEGMarker):
		res = "noMarker"
	case errors.Is(err, jpeg.ErrEndOfImage):
		res = "endOfImage"
	case errors.Is(err, io.EOF):
		res = "eof"
	case errors.Is(err, bufio.ErrNegativeCount):
		res = "negativeCount"
	case errors.Is(err, errCallback):
		res = "callback"
	}
	return res + evs.String()
}

// ---------- structured generator ----------

type jseg struct {
	kind    string // app exif xmp com dri sof other
	marker  byte
	payload []byte // after the 2-byte length
}

func (s jseg) bytes() []byte {
	n := len(s.payload) + 2
	return append([]byte{0xFF, s.marker, byte(n >> 8), byte(n)}, s.payload...)
}

var jxmpPrefix = []byte("http://ns.adobe.com/xap/1.0/\x00")

func genPayload(c *Ctx, max int) []byte {
	n := c.Rng.Intn(max)
	if c.Rng.Intn(6) == 0 {
		n = c.Rng.Intn(6)
	}
	b := make([]byte, n)
	switch c.Rng.Intn(4) {
	case 0:
		c.Rng.Read(b)
	case 1: // many 0xFF bytes and marker-looking pairs
		for i := range b {
			b[i] = []byte{0xFF, 0xD8, 0xD9, 0xE1, 0xDB, 0x00, 0xC4}[c.Rng.Intn(7)]
		}
	case 2: // an embedded thumbnail: SOI ... EOI
		c.Rng.Read(b)
		if n > 8 {
			copy(b, []byte{0xFF, 0xD8, 0xFF, 0xDB, 0x00, 0x04, 1, 2})
			copy(b[n-2:], []byte{0xFF, 0xD9})
		}
	default: // near-miss prefixes
		copy(b, [][]byte{[]byte("Exif\x00"), []byte("Exif\x00\x01"), []byte("http://ns.adobe.com/xap/1.0/"), []byte("http://ns.adobe.com/xmp/extension/\x00"), []byte("JFIF\x00"), []byte("ICC_PROFILE\x00")}[c.Rng.Intn(6)])
	}
	return b
}

func genSeg(c *Ctx) jseg {
	switch c.Rng.Intn(10) {
	case 0, 1:
		tiff := append([]byte("II*\x00\x08\x00\x00\x00"), genPayload(c, 300)...)
		if c.Rng.Intn(2) == 0 {
			tiff = append([]byte("MM\x00*\x00\x00\x00\x08"), genPayload(c, 300)...)
		}
		if c.Rng.Intn(8) == 0 {
			tiff = append(tiff, genPayload(c, 6000)...) // longer than one bufio window
		}
		return jseg{"exif", 0xE1, append([]byte("Exif\x00\x00"), tiff...)}
	case 2, 3:
		pk := append([]byte("<x:xmpmeta>"), genPayload(c, 400)...)
		if c.Rng.Intn(8) == 0 {
			pk = append(pk, genPayload(c, 6000)...)
		}
		return jseg{"xmp", 0xE1, append(append([]byte{}, jxmpPrefix...), pk...)}
	case 4:
		return jseg{"com", 0xFE, genPayload(c, 200)}
	case 5:
		return jseg{"dri", 0xDD, []byte{0, 0}} // length field 4: marker, length, 2 bytes... DRI is skipped by a fixed 6
	case 6:
		return jseg{"sof", []byte{0xC0, 0xC1, 0xC2, 0xC4, 0xC9}[c.Rng.Intn(5)], append([]byte{8, 0, 64, 0, 64, 3}, genPayload(c, 40)...)}
	case 7:
		p := genPayload(c, 300)
		if isMetaPrefix(p) {
			p[0] ^= 0x20 // an APP1 segment that is neither Exif nor XMP
		}
		return jseg{"app1other", 0xE1, p}
	default:
		return jseg{"app", byte(0xE0 + []int{0, 2, 3, 12, 13, 14, 15}[c.Rng.Intn(7)]), genPayload(c, 600)}
	}
}

func isMetaPrefix(p []byte) bool {
	return bytes.HasPrefix(p, []byte("Exif\x00\x00")) || bytes.HasPrefix(p, jxmpPrefix)
}

// expected events per the property, computed from the generator's own segment list
func expectEvents(segs []jseg, em, xm string, fills ...int) string {
	var sb strings.Builder
	off := 2 // after SOI
	for i, s := range segs {
		b := s.bytes()
		if i < len(fills) {
			// 0xFF fill bytes in front of the marker (any marker may be preceded by any number of them, T.81 B.1.1.2)
			off += fills[i]
		}
		switch s.kind {
		case "exif":
			if em != "nil" {
				tiff := s.payload[6:]
				order, first := 0, uint32(0)
				if bytes.HasPrefix(tiff, []byte("II*\x00")) {
					order = 1
					first = uint32(tiff[4]) | uint32(tiff[5])<<8 | uint32(tiff[6])<<16 | uint32(tiff[7])<<24
				} else if bytes.HasPrefix(tiff, []byte("MM\x00*")) {
					order = 2
					first = uint32(tiff[7]) | uint32(tiff[6])<<8 | uint32(tiff[5])<<16 | uint32(tiff[4])<<24
				}
				v := tiff
				if len(v) > 64 {
					v = v[:64]
				}
				fmt.Fprintf(&sb, " E %d %d %d %d %d %d", order, first, off+10, len(tiff), len(v), fnv32(v))
			}
		case "xmp":
			if xm != "nil" {
				pk := s.payload[len(jxmpPrefix):]
				v := pk
				if len(v) > 4096 {
					v = v[:4096]
				}
				fmt.Fprintf(&sb, " X %d %d", len(v), fnv32(v))
				if xm == "all" {
					fmt.Fprintf(&sb, " A %d %d", len(pk), fnv32(pk))
				}
			}
		}
		off += len(b)
	}
	return "ok" + sb.String()
}

func runC10(c *Ctx) error {
	c.Res.Rule = "generated marker sequences SOI, S1..Sn (APPn with random payloads incl. 0xFF runs, nested SOI/EOI thumbnails and near-miss prefixes; Exif-APP1 II/MM, short and longer than the bufio window; XMP-APP1; COM; DRI; SOFn/DHT), DQT, >=64 bytes of data, x callback behaviours (XMP: nil/none/part/all; Exif: nil/all) : implementation vs the generator's own expectation (search) and vs the Lean model (correspondence); malformed stream (truncations at every k of small files, random bytes, tampered length fields, SOI/EOI depth games, failing callbacks, under-reading Exif callbacks) vs the model only. Every ScanJPEG call runs in a watchdog-guarded worker. Non-trivial: >= 64 bytes; distinct by (bytes, modes)."
	wk := &Worker{}
	defer wk.Close()
	var reqs, impl, expect, classes []string
	addCase := func(b []byte, em, xm, exp, class string) {
		req := fmt.Sprintf("jpeg.scan %s %s %s", hexs(b), em, xm)
		reqs = append(reqs, req)
		impl = append(impl, wk.Call(fmt.Sprintf("jpegscan %s %s %s", hexs(b), em, xm)))
		expect = append(expect, exp)
		classes = append(classes, class)
		c.Stat("gen." + class)
	}
	tailData := func() []byte {
		t := []byte{0xFF, 0xDB, 0x00, 0x43, 0x00}
		t = append(t, bytes.Repeat([]byte{0x10}, 64)...)
		img := make([]byte, 64+c.Rng.Intn(200))
		c.Rng.Read(img)
		return append(t, img...)
	}
	nw := c.N(1500, 60000)
	for i := 0; i < nw; i++ {
		n := c.Rng.Intn(7)
		var segs []jseg
		fills := make([]int, n)
		for j := 0; j < n; j++ {
			segs = append(segs, genSeg(c))
			// a fifth of the sequences carry fill bytes in front of some of their markers
			if i%5 == 4 && c.Rng.Intn(2) == 0 {
				fills[j] = 1 + c.Rng.Intn(3)
				c.Stat("seg.fill-bytes")
			}
		}
		b := []byte{0xFF, 0xD8}
		for j, s := range segs {
			b = append(b, bytes.Repeat([]byte{0xFF}, fills[j])...)
			b = append(b, s.bytes()...)
			c.Stat("seg." + s.kind)
		}
		b = append(b, tailData()...)
		xm := []string{"nil", "n0", "all", "n5", "n1", "n200"}[c.Rng.Intn(6)]
		em := []string{"all", "all", "nil"}[c.Rng.Intn(3)]
		addCase(b, em, xm, expectEvents(segs, em, xm, fills...), "wellformed")
	}
	// malformed stream: model comparison only
	seeds := [][]byte{
		{0xFF, 0xD8, 0xFF, 0xD9, 0xFF, 0xE0, 0x00, 0x10},           // EOI at depth 1, then a marker outside any image
		{0xFF, 0xE0, 0x00, 0x10},                                   // no SOI at all
		{0xFF, 0xD8, 0xFF, 0xD8, 0xFF, 0xD9, 0xFF, 0xD9, 0xFF, 0xE1}, // nested
		{0x00, 0x01, 0xFF, 0xD8, 0xFF, 0xE1, 0x00, 0x04, 0x45, 0x78}, // APP1 with size < prefix
		{0xFF, 0xD8, 0xFF, 0xE1, 0x00, 0x00, 0x45, 0x78, 0x69, 0x66, 0, 0, 'I', 'I', '*', 0, 8, 0, 0, 0},
		{0xFF, 0xD8, 0xFF, 0xE1, 0x00, 0x08, 0x45, 0x78, 0x69, 0x66, 0, 0, 'M', 'M', 0, '*', 0, 0, 0, 8},
	}
	nm := c.N(2500, 80000)
	for i := 0; i < nm; i++ {
		var b []byte
		switch c.Rng.Intn(5) {
		case 0:
			b = append([]byte{}, seeds[c.Rng.Intn(len(seeds))]...)
			pad := make([]byte, 60+c.Rng.Intn(100))
			if c.Rng.Intn(2) == 0 {
				c.Rng.Read(pad)
			}
			b = append(b, pad...)
		case 1:
			b = make([]byte, c.Rng.Intn(300))
			for j := range b {
				b[j] = []byte{0xFF, 0xD8, 0xD9, 0xE1, 0xDB, 0x00, 0x02, 0x45, 0xC4, 0xDD, 0xFE}[c.Rng.Intn(11)]
			}
		default:
			n := 1 + c.Rng.Intn(4)
			b = []byte{0xFF, 0xD8}
			for j := 0; j < n; j++ {
				sb := genSeg(c).bytes()
				if c.Rng.Intn(3) == 0 && len(sb) > 4 {
					// tamper with the length field
					v := []int{0, 1, 2, 3, 7, 8, 9, 30, 31, 32, 0xFFFE, 0xFFFF, len(sb) - 3, len(sb) - 1}[c.Rng.Intn(14)]
					sb[2], sb[3] = byte(v>>8), byte(v)
				}
				b = append(b, sb...)
			}
			b = append(b, tailData()...)
			if c.Rng.Intn(2) == 0 {
				b = b[:c.Rng.Intn(len(b)+1)]
			}
		}
		xm := []string{"nil", "n0", "all", "n5", "fail"}[c.Rng.Intn(5)]
		em := []string{"all", "nil", "n3", "fail", "n0"}[c.Rng.Intn(5)]
		addCase(b, em, xm, "", "malformed")
	}
	// every truncation of one small well-formed file
	{
		segs := []jseg{{"app", 0xE0, []byte("JFIF\x00\x01\x01")}, {"xmp", 0xE1, append(append([]byte{}, jxmpPrefix...), []byte("<x:xmpmeta/>")...)},
			{"exif", 0xE1, append([]byte("Exif\x00\x00MM\x00*\x00\x00\x00\x08"), bytes.Repeat([]byte{7}, 30)...)}}
		b := []byte{0xFF, 0xD8}
		for _, s := range segs {
			b = append(b, s.bytes()...)
		}
		b = append(b, tailData()...)
		for k := 0; k <= len(b); k++ {
			addCase(b[:k], "all", "all", "", "truncation")
		}
	}
	model, err := drv.Batch(reqs)
	if err != nil {
		return err
	}
	for i, r := range reqs {
		c.Count(r, len(r) > 150)
		if i%1000 == 0 {
			c.Sample(map[string]string{"op": r, "impl": impl[i], "model": model[i], "expected": expect[i]})
		}
		im := impl[i]
		c.Stat("result." + strings.Fields(im+" ?")[0])
		entry := "jpeg.ScanJPEG"
		if im == "hang" || strings.HasPrefix(im, "crash") {
			c.Violate(Case{Entry: entry, Input: r, Expected: "returns", Actual: im, Kind: "hang", Class: "marker-loop-no-progress", Frame: "jpeg.(*jpegReader).nextMarker"})
		}
		if expect[i] != "" && im != expect[i] {
			c.Violate(Case{Entry: entry, Input: r, Expected: expect[i], Actual: im, Kind: "wrong-value", Class: "segment-framing"})
		}
		m := model[i]
		if m == "fuel" {
			m = "hang"
		}
		if im != m {
			c.Disagree(Case{Entry: entry, Input: r, Expected: m, Actual: im})
		}
	}
	c.StatN("worker.crashes", wk.Crashes)
	return nil
}
