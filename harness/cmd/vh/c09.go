package main

import (
	"bufio"
	"bytes"
	"fmt"
	"io"

	"vh/internal/drv"

	"github.com/evanoberholster/imagemeta/imagetype"
)

func init() { props["C09"] = runC09 }

func pad24(b []byte) []byte {
	o := make([]byte, 24)
	copy(o, b)
	return o
}

func ftyp(major, c1, c2 string) []byte {
	b := []byte{0, 0, 0, 0x1c, 'f', 't', 'y', 'p'}
	b = append(b, major...)
	b = append(b, 0, 0, 0, 0)
	b = append(b, c1...)
	b = append(b, c2...)
	return pad24(b)
}

// canonical 24-byte headers of every supported format (several forms where the
// signature has alternatives)
func c09Canon() map[string][]byte {
	m := map[string][]byte{
		"jpeg":    pad24([]byte{0xff, 0xd8, 0xff, 0xe1, 0x12, 0x34, 'E', 'x', 'i', 'f', 0, 0}),
		"jp2":     pad24([]byte{0, 0, 0, 0x0c, 0x6a, 0x50, 0x20, 0x20, 0x0d, 0x0a, 0x87, 0x0a}),
		"crw":     pad24([]byte("II\x1a\x00\x00\x00HEAPCCDR")),
		"cr2":     pad24([]byte("II*\x00\x10\x00\x00\x00CR\x02\x00")),
		"cr2be":   pad24([]byte("MM\x00*\x00\x00\x00\x10CR\x02\x00")),
		"cr3":     ftyp("crx ", "crx ", "isom"),
		"avif":    ftyp("avif", "mif1", "miaf"),
		"avif2":   ftyp("mif1", "miaf", "avif"),
		"heic":    ftyp("heic", "mif1", "heic"),
		"heix":    ftyp("heix", "mif1", "heix"),
		"mif1a":   ftyp("mif1", "heic", "xxxx"),
		"mif1b":   ftyp("mif1", "mif1", "heic"),
		"msf1":    ftyp("msf1", "msf1", "hevc"),
		"rw2":     pad24([]byte("IIU\x00\x18\x00\x00\x00\x88\xe7\x74\xd8")),
		"tiffle":  pad24([]byte("II*\x00\x08\x00\x00\x00")),
		"tiffbe":  pad24([]byte("MM\x00*\x00\x00\x00\x08")),
		"png":     pad24([]byte("\x89PNG\r\n\x1a\n\x00\x00\x00\rIHDR")),
		"psd":     pad24([]byte("8BPS\x00\x01")),
		"bmp":     pad24([]byte("BM\x36\x00\x0c\x00")),
		"webp":    pad24([]byte("RIFF\x24\x00\x00\x00WEBPVP8 ")),
		"xmp":     pad24([]byte("<x:xmpmeta xmlns:x=\"adob")),
		"gif87":   pad24([]byte("GIF87a\x01\x00\x01\x00")),
		"gif89":   pad24([]byte("GIF89a\x01\x00\x01\x00")),
		"ppm3":    pad24([]byte("P3\n1 1\n255\n")),
		"ppm6":    pad24([]byte("P6 1 1 255 ")),
		"unknown": pad24([]byte("hello world, no sig")),
		// a header that carries two signatures: CRW and TIFF
		"crwtiff": pad24([]byte("II*\x00\x00\x00HEAPCCDR")),
		// mif1 with heic@16 and avif@20: AVIF is listed first
		"mif1both": ftyp("mif1", "heic", "avif"),
	}
	return m
}

func itRes(t imagetype.ImageType, err error) string {
	if err != nil {
		return "err " + errKind(err)
	}
	return fmt.Sprintf("ok %d", int(t))
}

func runC09(c *Ctx) error {
	c.Res.Rule = "all 24x256 single-byte perturbations of 28 canonical headers (every supported format and signature alternative), random headers, every short length 0..23, long suffixes; Buf vs generated model (it.buf) and vs the hand-written signature table (it.spec); ScanBuf/Scan/ReadAt with bufio sizes 16/24/4096 vs the entry-point models incl. 'stream still readable after ScanBuf'. Non-trivial: >= 24 bytes; distinct by (entry, bytes)."
	canon := c09Canon()
	var inputs [][]byte
	var tags []string
	add := func(b []byte, tag string) {
		inputs = append(inputs, b)
		tags = append(tags, tag)
	}
	names := make([]string, 0, len(canon))
	for n := range canon {
		names = append(names, n)
	}
	sortStrings(names)
	for _, n := range names {
		h := canon[n]
		add(h, "canon."+n)
		for pos := 0; pos < 24; pos++ {
			for v := 0; v < 256; v++ {
				if byte(v) == h[pos] {
					continue
				}
				p := append([]byte{}, h...)
				p[pos] = byte(v)
				add(p, "perturb")
			}
		}
		// all shorter lengths and a few longer ones
		for k := 0; k < 24; k++ {
			add(h[:k], "short")
		}
		for _, extra := range []int{1, 8, 100, 5000} {
			s := make([]byte, extra)
			c.Rng.Read(s)
			add(append(append([]byte{}, h...), s...), "suffix")
		}
		// near-miss headers whose missing 4-byte word re-appears after byte 24: a predicate that looks
		// past the 24-byte window (prefix-only violation) classifies these differently from their prefix
		for w := 0; w+4 <= 24; w += 4 {
			miss := append([]byte{}, h...)
			word := append([]byte{}, h[w:w+4]...)
			copy(miss[w:w+4], []byte{0, 0, 0, 0})
			for _, pad := range []int{0, 4, 8} {
				sfx := append(make([]byte, pad), word...)
				add(append(append([]byte{}, miss...), sfx...), "suffix")
				add(append(append(append([]byte{}, miss...), sfx...), h...), "suffix")
			}
		}
	}
	nr := c.N(20000, 2000000)
	for i := 0; i < nr; i++ {
		h := make([]byte, 24)
		switch c.Rng.Intn(3) {
		case 0:
			c.Rng.Read(h)
		default:
			// splice two canonical headers at a random point: mixed signatures
			a, b := canon[names[c.Rng.Intn(len(names))]], canon[names[c.Rng.Intn(len(names))]]
			k := c.Rng.Intn(25)
			copy(h, a[:k])
			copy(h[k:], b[k:])
			if c.Rng.Intn(2) == 0 {
				h[c.Rng.Intn(24)] = byte(c.Rng.Intn(256))
			}
		}
		add(h, "random")
	}
	// Buf: impl vs model vs spec
	reqM := make([]string, len(inputs))
	reqS := make([]string, len(inputs))
	for i, b := range inputs {
		reqM[i] = "it.buf " + hexs(b)
		reqS[i] = "it.spec " + hexs(b)
	}
	model, err := drv.Batch(reqM)
	if err != nil {
		return err
	}
	spec, err := drv.Batch(reqS)
	if err != nil {
		return err
	}
	for i, b := range inputs {
		var impl, frame string
		p, fr, val := safely(func() { impl = itRes(imagetype.Buf(b)) })
		if p {
			impl, frame = "panic "+val, fr
		}
		c.Count(reqM[i], len(b) >= 24)
		c.Stat("gen." + tagFamily(tags[i]))
		c.Stat("buf." + impl)
		if i%40000 == 0 {
			c.Sample(map[string]string{"op": reqM[i], "impl": impl, "model": model[i], "spec": spec[i], "tag": tags[i]})
		}
		if impl != spec[i] {
			kind := "wrong-value"
			if p {
				kind = "panic"
			}
			c.Violate(Case{Entry: "imagetype.Buf", Input: hexs(b), Expected: spec[i], Actual: impl, Kind: kind, Frame: frame, Class: "signature-table",
				Note: "Buf differs from the signature table (ImageTypeSpec.sniff); tag " + tags[i]})
		}
		if impl != model[i] {
			c.Disagree(Case{Entry: "imagetype.Buf", Input: hexs(b), Expected: model[i], Actual: impl, Frame: frame, Note: "generated model it.buf vs imagetype.Buf"})
		}
	}
	// entry points: on canonical, short, suffix and a sample of the others
	var eReq []string
	var eImpl []string
	var eEntry []string
	var eIn [][]byte
	for i, b := range inputs {
		fam := tagFamily(tags[i])
		if !(fam == "canon" || fam == "short" || fam == "suffix" || i%97 == 0) {
			continue
		}
		for _, size := range []int{16, 24, 4096} {
			// ScanBuf
			{
				br := bufio.NewReaderSize(bytes.NewReader(b), size)
				var impl string
				p, _, val := safely(func() {
					r := itRes(imagetype.ScanBuf(br))
					rest, _ := io.ReadAll(br)
					impl = fmt.Sprintf("%s rest=%d", r, len(rest))
					if !bytes.Equal(rest, b) {
						impl += " STREAM-CHANGED"
					}
				})
				if p {
					impl = "panic " + val
				}
				eReq = append(eReq, fmt.Sprintf("it.scanbuf %d %s", size, hexs(b)))
				eImpl = append(eImpl, impl)
				eEntry = append(eEntry, "imagetype.ScanBuf")
				eIn = append(eIn, b)
			}
			// Scan given a bufio.Reader
			{
				br := bufio.NewReaderSize(bytes.NewReader(b), size)
				var impl string
				p, _, val := safely(func() { impl = itRes(imagetype.Scan(br)) })
				if p {
					impl = "panic " + val
				}
				eReq = append(eReq, fmt.Sprintf("it.scan %d %s", size, hexs(b)))
				eImpl = append(eImpl, impl)
				eEntry = append(eEntry, "imagetype.Scan")
				eIn = append(eIn, b)
			}
		}
		{
			var impl string
			p, _, val := safely(func() { impl = itRes(imagetype.Scan(&chunkReader{data: append([]byte{}, b...), sched: []int{1 + c.Rng.Intn(5)}, failAt: -1})) })
			if p {
				impl = "panic " + val
			}
			eReq = append(eReq, "it.scan none "+hexs(b))
			eImpl = append(eImpl, impl)
			eEntry = append(eEntry, "imagetype.Scan")
			eIn = append(eIn, b)
		}
		{
			var impl string
			p, _, val := safely(func() { impl = itRes(imagetype.ReadAt(bytes.NewReader(b))) })
			if p {
				impl = "panic " + val
			}
			eReq = append(eReq, "it.readat "+hexs(b))
			eImpl = append(eImpl, impl)
			eEntry = append(eEntry, "imagetype.ReadAt")
			eIn = append(eIn, b)
		}
	}
	eModel, err := drv.Batch(eReq)
	if err != nil {
		return err
	}
	for i := range eReq {
		c.Count(eReq[i], len(eIn[i]) >= 24)
		c.Stat("entry." + eEntry[i])
		if eImpl[i] != eModel[i] {
			// entry points must agree with Buf on >= 24 bytes and return an error below: a difference from the
			// entry-point model is a violation of "all entry points agree" when the model equals the spec (proved).
			c.Violate(Case{Entry: eEntry[i], Input: eReq[i], Expected: eModel[i], Actual: eImpl[i], Kind: "wrong-value", Class: "entry-points-agree"})
			c.Disagree(Case{Entry: eEntry[i], Input: eReq[i], Expected: eModel[i], Actual: eImpl[i]})
		}
	}
	return nil
}

func tagFamily(t string) string {
	for i := 0; i < len(t); i++ {
		if t[i] == '.' {
			return t[:i]
		}
	}
	return t
}
