// vhrace: concurrency soak for C05. Built with -race. Runs mixed decode / sniff / hash entry points from many
// goroutines on independent inputs, compares every result with the sequential golden result, and exits non-zero
// if the race detector fired (GORACE exitcode) or any result differed.
//
//	vhrace <seed> <goroutines> <iterations> <inputs.txt>   (one "entry hex" per line)
package main

import (
	"bufio"
	"bytes"
	"encoding/hex"
	"fmt"
	"image"
	"image/color"
	"io"
	"time"
	"math/rand"
	"os"
	"runtime"
	"strconv"
	"strings"
	"sync"

	"github.com/evanoberholster/imagemeta"
	"github.com/evanoberholster/imagemeta/exif2"
	"github.com/evanoberholster/imagemeta/imagehash"
	"github.com/evanoberholster/imagemeta/imagetype"
	"github.com/evanoberholster/imagemeta/isobmff"
	"github.com/evanoberholster/imagemeta/jpeg"
	"github.com/evanoberholster/imagemeta/meta"
)

type job struct {
	entry string
	data  []byte
}

func runOne(j job) (res string) {
	defer func() {
		if r := recover(); r != nil {
			res = fmt.Sprint("panic ", r)
		}
	}()
	rd := bytes.NewReader(j.data)
	switch j.entry {
	case "Decode":
		e, err := imagemeta.Decode(rd)
		return fmt.Sprint(err) + e.String()
	case "DecodeTiff":
		e, err := imagemeta.DecodeTiff(rd)
		return fmt.Sprint(err) + e.String()
	case "DecodeJPEG":
		e, err := imagemeta.DecodeJPEG(rd)
		return fmt.Sprint(err) + e.String()
	case "DecodePng":
		e, err := imagemeta.DecodePng(rd)
		return fmt.Sprint(err) + e.String()
	case "DecodeCR3":
		e, err := imagemeta.DecodeCR3(rd)
		return fmt.Sprint(err) + e.String()
	case "Parse":
		e, err := exif2.Parse(rd)
		return fmt.Sprint(err) + e.String()
	case "ScanJPEG":
		// the package-level scanner on a plain reader (takes its bufio.Reader from jpeg's own pool)
		var sb strings.Builder
		err := jpeg.ScanJPEG(rd, func(r io.Reader, h meta.ExifHeader) error {
			b := make([]byte, 64)
			n, _ := io.ReadFull(r, b)
			fmt.Fprint(&sb, "E", h.FirstIfdOffset, h.ExifLength, n, b[:n])
			return nil
		}, func(r io.Reader) error {
			b, _ := io.ReadAll(r)
			fmt.Fprint(&sb, "X", len(b))
			return nil
		})
		return fmt.Sprint(err) + sb.String()
	case "ItScan":
		t, err := imagetype.Scan(rd)
		return fmt.Sprint(t, err)
	case "DecodeHeif":
		e, err := imagemeta.DecodeHeif(rd)
		return fmt.Sprint(err) + e.String()
	case "Bmff":
		// the package-level ISOBMFF reader on a plain reader (takes its bufio.Reader from isobmff's own pool), next to the
		// facade decoders that hand it their own pooled reader
		var sb strings.Builder
		br := isobmff.NewReader(rd)
		br.ExifReader = func(r io.Reader, h meta.ExifHeader) error {
			b := make([]byte, 64)
			n, _ := io.ReadFull(r, b)
			fmt.Fprint(&sb, "E", h.FirstIfdOffset, h.ExifLength, n, b[:n])
			return nil
		}
		br.XMPReader = func(r io.Reader) error {
			b, _ := io.ReadAll(r)
			fmt.Fprint(&sb, "X", len(b))
			return nil
		}
		err := br.ReadFTYP()
		for k := 0; err == nil && k < 64; k++ {
			err = br.ReadMetadata()
			fmt.Fprint(&sb, ".")
		}
		br.Close()
		return fmt.Sprint(err) + sb.String()
	case "Blur":
		img := image.NewRGBA(image.Rect(0, 0, 32, 32))
		r := rand.New(rand.NewSource(int64(len(j.data)) + int64(j.data[0])))
		for i := 0; i < 32*32; i++ {
			img.Set(i%32, i/32, color.RGBA{uint8(r.Intn(256)), uint8(i), uint8(i / 32), 255})
		}
		h, err := imagehash.EncodeBlurHashFast(img)
		return fmt.Sprint(h, err)
	case "Hash":
		// the bytes seed a 64x64 image
		img := image.NewRGBA(image.Rect(0, 0, 64, 64))
		r := rand.New(rand.NewSource(int64(len(j.data)) + int64(j.data[0])))
		for i := 0; i < 64*64; i++ {
			img.Set(i%64, i/64, color.RGBA{uint8(r.Intn(256)), uint8(i), uint8(i / 64), 255})
		}
		h1, e1 := imagehash.NewPHash64(img)
		h2, e2 := imagehash.NewPHash64Alt(img)
		return fmt.Sprint(h1, e1, h2, e2)
	}
	return "bad-entry"
}

func main() {
	seed, _ := strconv.ParseInt(os.Args[1], 10, 64)
	ng, _ := strconv.Atoi(os.Args[2])
	iters, _ := strconv.Atoi(os.Args[3])
	f, err := os.Open(os.Args[4])
	if err != nil {
		fmt.Println("error", err)
		os.Exit(3)
	}
	var jobs []job
	sc := bufio.NewScanner(f)
	sc.Buffer(make([]byte, 1<<20), 1<<26)
	for sc.Scan() {
		p := strings.Fields(sc.Text())
		if len(p) != 2 {
			continue
		}
		b, _ := hex.DecodeString(p[1])
		jobs = append(jobs, job{p[0], b})
	}
	mismatches := 0
	var mu sync.Mutex
	var first string
	// cold phase: the very first calls of the process are concurrent (lazy initialisation, empty pools, empty caches);
	// their results are compared with the sequential results computed afterwards
	coldIdx := make([][]int, ng)
	coldRes := make([][]string, ng)
	{
		var wg sync.WaitGroup
		start := make(chan struct{})
		for g := 0; g < ng; g++ {
			wg.Add(1)
			go func(g int) {
				defer wg.Done()
				r := rand.New(rand.NewSource(seed*31 + int64(g)))
				<-start
				for k := 0; k < 6; k++ {
					i := r.Intn(len(jobs))
					coldIdx[g] = append(coldIdx[g], i)
					coldRes[g] = append(coldRes[g], runOne(jobs[i]))
				}
			}(g)
		}
		close(start)
		wg.Wait()
	}
	golden := make([]string, len(jobs))
	for i, j := range jobs {
		golden[i] = runOne(j)
	}
	for g := range coldIdx {
		for k, i := range coldIdx[g] {
			if coldRes[g][k] != golden[i] {
				mismatches++
				if first == "" {
					first = fmt.Sprintf("(cold start) %s %s\n  sequential: %.300s\n  concurrent: %.300s", jobs[i].entry, hex.EncodeToString(jobs[i].data), golden[i], coldRes[g][k])
				}
			}
		}
	}
	for _, procs := range []int{1, 2, runtime.NumCPU()} {
		runtime.GOMAXPROCS(procs)
		var wg sync.WaitGroup
		// keep the time-zone cache cold: it is emptied (under its write lock) every millisecond, so that concurrent decodes
		// keep missing and inserting
		stop := make(chan struct{})
		go func() {
			for {
				select {
				case <-stop:
					return
				default:
					exif2.VerifResetTimeZones()
					time.Sleep(time.Millisecond)
				}
			}
		}()
		for g := 0; g < ng; g++ {
			wg.Add(1)
			go func(g int) {
				defer wg.Done()
				r := rand.New(rand.NewSource(seed + int64(g)*7919 + int64(procs)))
				for k := 0; k < iters; k++ {
					i := r.Intn(len(jobs))
					if got := runOne(jobs[i]); got != golden[i] {
						mu.Lock()
						mismatches++
						if first == "" {
							first = fmt.Sprintf("%s %s\n  sequential: %.300s\n  concurrent: %.300s", jobs[i].entry, hex.EncodeToString(jobs[i].data), golden[i], got)
						}
						mu.Unlock()
					}
				}
			}(g)
		}
		wg.Wait()
		close(stop)
	}
	fmt.Printf("calls=%d mismatches=%d\n", 3*ng*iters, mismatches)
	if mismatches > 0 {
		fmt.Println("FIRST", first)
		os.Exit(4)
	}
}
