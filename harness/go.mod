module vh

go 1.20

require (
	github.com/evanoberholster/imagemeta v0.0.0
	github.com/rs/zerolog v1.29.0
	github.com/tinylib/msgp v1.1.8
)

require (
	github.com/klauspost/cpuid/v2 v2.2.4 // indirect
	github.com/mattn/go-colorable v0.1.13 // indirect
	github.com/mattn/go-isatty v0.0.17 // indirect
	github.com/philhofer/fwd v1.1.2 // indirect
	github.com/pkg/errors v0.9.1 // indirect
	golang.org/x/sys v0.5.0 // indirect
)

replace github.com/evanoberholster/imagemeta => /repo
