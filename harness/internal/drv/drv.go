// Package drv talks to the Lean model driver (imeta-driver) over its line protocol.
package drv

import (
	"bufio"
	"fmt"
	"os"
	"os/exec"
	"strings"
)

// Path of the compiled driver; overridable for tests.
var Path = envOr("VERIF_DRIVER", "/verif/lean/.lake/build/bin/imeta-driver")

func envOr(k, d string) string {
	if v := os.Getenv(k); v != "" {
		return v
	}
	return d
}

// Batch sends all requests and returns one response per request, in order.
func Batch(reqs []string) ([]string, error) {
	if len(reqs) == 0 {
		return nil, nil
	}
	cmd := exec.Command(Path)
	in, err := cmd.StdinPipe()
	if err != nil {
		return nil, err
	}
	out, err := cmd.StdoutPipe()
	if err != nil {
		return nil, err
	}
	cmd.Stderr = os.Stderr
	if err := cmd.Start(); err != nil {
		return nil, err
	}
	go func() {
		w := bufio.NewWriterSize(in, 1<<20)
		for _, r := range reqs {
			w.WriteString(r)
			w.WriteByte('\n')
		}
		w.Flush()
		in.Close()
	}()
	res := make([]string, 0, len(reqs))
	sc := bufio.NewScanner(out)
	sc.Buffer(make([]byte, 1<<20), 1<<28)
	for sc.Scan() {
		res = append(res, sc.Text())
	}
	werr := cmd.Wait()
	if len(res) != len(reqs) {
		return res, fmt.Errorf("driver returned %d lines for %d requests (wait: %v)", len(res), len(reqs), werr)
	}
	for i, r := range res {
		if strings.HasPrefix(r, "bad-op") {
			return res, fmt.Errorf("driver answered bad-op to request %d: %.200s", i, reqs[i])
		}
	}
	return res, werr
}
